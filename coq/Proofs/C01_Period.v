(* Proofs/C01_Period.v — one PERIOD of the code is one period of the specification (models without      *)
(* filter-restricted variables): the array lcm computes for a period -- the space map of compute_ccv over   *)
(* the grids of the discrete states, discrete choices and continuous states, compute_ccv being the masked   *)
(* maximum of utility_and_feasibility product-mapped over the continuous choice grids, followed by the      *)
(* no-shock reduction over the discrete choice axes -- holds at every position the specification's          *)
(* value_at of the state stored there.                                                                      *)
From Coq Require Import Lqa Lia Permutation.
From LCM Require Import Base.Prelude Base.Arr Base.ArrOps Model.Dispatchers Model.DispatchersG Gen.DiscreteNoShocks Gen.CCV Gen.ModelFunctions.
From LCM Require Import Spec.Lang Spec.Bellman Proofs.ArrLemmas Proofs.ArrLemmas2 Proofs.Spec_Algebra
                        Proofs.C19_Dispatch Proofs.C19_DispatchG Proofs.C11_ModelFunctions Proofs.C14_Refine Proofs.C01_Compose Proofs.C01_MaxCompose.
Local Open Scope nat_scope.

(* ---- a product map over grids given as vectors --------------------------------------------------------- *)
Definition pick (grids : list (list Q)) (idx : list nat) : list Q :=
  map (fun gi : list Q * nat => nth (snd gi) (fst gi) 0%Q) (combine grids idx).

Lemma slice_all_vectors : forall (grids : list (list Q)) (pre : list qarr) idx (extra : list qarr),
  Forall2 (fun (g : list Q) k => k < length g) grids idx ->
  slice_all (pre ++ map (fun g => vec g) grids ++ extra) (seq (length pre) (length grids)) idx
  = (pre ++ map (fun v => scalar v) (pick grids idx) ++ extra)%list.
Proof.
  induction grids as [|g r IH]; intros pre idx extra H.
  - inversion H. reflexivity.
  - inversion H as [|? k ? idx' Hk Hr]; subst. cbn [length seq map app slice_all pick combine fst snd].
    unfold slice1. rewrite nth_app_at, upd_app_at, qslice_vec.
    change (pre ++ scalar (nth k g 0%Q) :: map (fun g0 => vec g0) r ++ extra)%list
      with (pre ++ [scalar (nth k g 0%Q)] ++ map (fun g0 => vec g0) r ++ extra)%list.
    rewrite app_assoc. replace (S (length pre)) with (length (pre ++ [scalar (nth k g 0%Q)])) by (rewrite app_length; simpl; lia).
    rewrite (IH (pre ++ [scalar (nth k g 0%Q)])%list idx' extra Hr). now rewrite <- app_assoc.
Qed.

Lemma dims_vectors : forall (grids : list (list Q)) (pre extra : list qarr),
  dims (seq (length pre) (length grids)) (pre ++ map (fun g => vec g) grids ++ extra) = map (@length Q) grids.
Proof.
  induction grids as [|g r IH]; intros pre extra; [reflexivity|].
  cbn [length seq map]. unfold dims. cbn [map]. f_equal.
  - cbn [app]. now rewrite nth_app_at.
  - fold (dims (seq (S (length pre)) (length r)) (pre ++ (vec g :: map (fun g0 => vec g0) r) ++ extra)).
    change (pre ++ (vec g :: map (fun g0 => vec g0) r) ++ extra)%list
      with (pre ++ [vec g] ++ map (fun g0 => vec g0) r ++ extra)%list.
    rewrite app_assoc. replace (S (length pre)) with (length (pre ++ [vec g])) by (rewrite app_length; simpl; lia). apply IH.
Qed.

Lemma in_bounds_lengths (grids : list (list Q)) idx : in_bounds (map (@length Q) grids) idx ->
  Forall2 (fun (g : list Q) k => k < length g) grids idx.
Proof. apply (in_bounds_Forall2 (@length Q)). Qed.

Section OnGrids.
Context {A : Type} (dA : A).
Variable f : list qarr -> arr A.
Hypothesis Hf : forall args, wf (f args) /\ shape (f args) = [].
Variables (pre : list qarr) (grids : list (list Q)) (extra : list qarr).
Let ps := seq (length pre) (length grids).
Let args := (pre ++ map (fun g => vec g) grids ++ extra)%list.

Lemma bpmG_on_grids_shape :
  wf (base_productmapG f ps args) /\ shape (base_productmapG f ps args) = map (@length Q) grids.
Proof.
  destruct (bpmG_wf_shape f [] (fun _ => True) (fun _ => True) (fun _ _ _ _ _ => I) (fun a _ => Hf a)
              ps args I (seq_NoDup _ _)) as [W S];
    [apply Forall_forall; intros; exact I|].
  split; [exact W|]. rewrite S, app_nil_r. exact (dims_vectors grids pre extra).
Qed.

Lemma bpmG_on_grids_entry idx : in_bounds (map (@length Q) grids) idx ->
  get dA (base_productmapG f ps args) idx
  = get dA (f (pre ++ map (fun v => scalar v) (pick grids idx) ++ extra)) [].
Proof.
  intros Hb. rewrite <- (app_nil_r idx) at 1.
  pose proof (dims_vectors grids pre extra) as D.
  pose proof (slice_all_vectors grids pre idx extra (in_bounds_lengths grids idx Hb)) as SA.
  rewrite (bpmG_get dA f [] (fun _ => True) (fun _ => True) (fun _ _ _ _ _ => I) (fun a _ => Hf a)
             ps args idx [] I (seq_NoDup _ _));
    [|apply Forall_forall; intros; exact I|unfold ps, args; rewrite D; exact Hb|exact I].
  unfold ps, args. now rewrite SA.
Qed.
End OnGrids.

(* ---- a contiguous block of reduced axes ---------------------------------------------------------------- *)
Definition block_mask (a b c : nat) : list bool := (repeat false a ++ repeat true b ++ repeat false c)%list.

Lemma map_const_repeat {X Y} (f : X -> Y) (v : Y) l : (forall x, In x l -> f x = v) -> map f l = repeat v (length l).
Proof. induction l as [|x r IH]; intros H; [reflexivity|]. cbn [map length repeat]. rewrite (H x (or_introl eq_refl)), IH; [reflexivity|]. intros y Hy. apply H. now right. Qed.

Lemma existsb_eqb_seq k a b : existsb (Nat.eqb k) (seq a b) = ((a <=? k) && (k <? a + b))%bool.
Proof.
  revert a. induction b as [|b IH]; intros a; cbn [seq existsb].
  - destruct (a <=? k) eqn:E1; destruct (k <? a + 0) eqn:E2; try reflexivity.
    apply Nat.leb_le in E1. apply Nat.ltb_lt in E2. lia.
  - rewrite IH. destruct (Nat.eqb_spec k a) as [->|Hne].
    + cbn [orb]. symmetry. apply andb_true_iff. split; [apply Nat.leb_le|apply Nat.ltb_lt]; lia.
    + cbn [orb]. destruct (S a <=? k) eqn:E1; destruct (a <=? k) eqn:E2; destruct (k <? S a + b) eqn:E3; destruct (k <? a + S b) eqn:E4;
        try reflexivity; repeat match goal with
        | H : (_ <=? _) = true |- _ => apply Nat.leb_le in H | H : (_ <=? _) = false |- _ => apply Nat.leb_gt in H
        | H : (_ <? _) = true |- _ => apply Nat.ltb_lt in H | H : (_ <? _) = false |- _ => apply Nat.ltb_ge in H end; lia.
Qed.

Lemma axis_mask_block a b c : axis_mask (a + b + c) (seq a b) = block_mask a b c.
Proof.
  unfold axis_mask, block_mask. rewrite <- Nat.add_assoc, seq_app, seq_app, !map_app. cbn [Nat.add].
  f_equal; [|f_equal].
  - rewrite <- (seq_length a 0) at 2. apply map_const_repeat. intros k Hk. apply in_seq in Hk. rewrite existsb_eqb_seq.
    apply andb_false_iff. left. apply Nat.leb_gt. lia.
  - rewrite <- (seq_length b a) at 2. apply map_const_repeat. intros k Hk. apply in_seq in Hk. rewrite existsb_eqb_seq.
    apply andb_true_iff. split; [apply Nat.leb_le|apply Nat.ltb_lt]; lia.
  - rewrite <- (seq_length c (a + b)) at 2. apply map_const_repeat. intros k Hk. apply in_seq in Hk. rewrite existsb_eqb_seq.
    apply andb_false_iff. right. apply Nat.ltb_ge. lia.
Qed.

Lemma select_mask_block {B} : forall (l1 l2 l3 : list B) want,
  select_mask (block_mask (length l1) (length l2) (length l3)) (l1 ++ l2 ++ l3) want
  = if want then l2 else (l1 ++ l3)%list.
Proof.
  unfold block_mask. induction l1 as [|x r IH]; intros l2 l3 want.
  - cbn [length repeat app]. revert l3. induction l2 as [|y r2 IH2]; intros l3.
    + cbn [length repeat app]. induction l3 as [|z r3 IH3]; [now destruct want|].
      cbn [length repeat select_mask]. destruct want; cbn [Bool.eqb]; [exact IH3|]. cbn [app] in *. now rewrite IH3.
    + cbn [length repeat app select_mask]. specialize (IH2 l3). destruct want; cbn [Bool.eqb]; [now rewrite IH2|exact IH2].
  - cbn [length repeat app select_mask]. specialize (IH l2 l3 want). destruct want; cbn [Bool.eqb]; [exact IH|]. now rewrite IH.
Qed.

Lemma interleave_block : forall (k1 red k3 : list nat),
  interleave (block_mask (length k1) (length red) (length k3)) (k1 ++ k3) red = (k1 ++ red ++ k3)%list.
Proof.
  unfold block_mask. induction k1 as [|x r IH]; intros red k3.
  - cbn [length repeat app]. revert k3. induction red as [|y r2 IH2]; intros k3.
    + cbn [length repeat app]. induction k3 as [|z r3 IH3]; [reflexivity|]. cbn [length repeat interleave hd tl]. now rewrite IH3.
    + cbn [length repeat app interleave hd tl]. now rewrite IH2.
  - cbn [length repeat app interleave hd tl]. now rewrite IH.
Qed.

(* ---- an array is the table of its entries --------------------------------------------------------------- *)
Lemma arr_is_tabulate {A} (d : A) (a : arr A) : wf a -> a = tabulate (shape a) (get d a).
Proof.
  intros W. destruct a as [sh dt]. unfold tabulate. cbn [shape]. f_equal. cbn [data]. unfold wf in W. cbn [shape data] in W.
  apply (nth_ext _ _ d d).
  - now rewrite map_length, length_indices.
  - intros k Hk. rewrite W in Hk.
    rewrite (nth_map_lt' (get d {| shape := sh; data := dt |}) _ k d []) by (now rewrite length_indices).
    rewrite nth_indices_unravel by exact Hk. unfold get. cbn [shape data]. now rewrite ravel_unravel.
Qed.

(* ---- grids of variables as lists of vectors --------------------------------------------------------------- *)
Definition gv (vars : list (string * grid)) : list (list Q) := map (fun sg : string * grid => grid_points (snd sg)) vars.
Definition sizes (vars : list (string * grid)) : list nat := map (fun sg : string * grid => grid_size (snd sg)) vars.

Lemma lengths_gv vars : map (@length Q) (gv vars) = sizes vars.
Proof. unfold gv, sizes. rewrite map_map. apply map_ext. intros [x g]. unfold grid_points. cbn [snd]. now rewrite map_length, seq_length. Qed.

Lemma gv_app a b : gv (a ++ b) = (gv a ++ gv b)%list.
Proof. apply map_app. Qed.
Lemma sizes_app a b : sizes (a ++ b) = (sizes a ++ sizes b)%list.
Proof. apply map_app. Qed.

Lemma pick_gv : forall vars idx, in_bounds (sizes vars) idx -> pick (gv vars) idx = map snd (env_of_idx vars idx).
Proof.
  induction vars as [|[x g] r IH]; intros [|k idx] H; cbn in H; try contradiction; [reflexivity|].
  destruct H as [Hk Hr]. cbn [gv map pick combine fst snd env_of_idx]. f_equal; [|apply (IH idx Hr)].
  unfold grid_points. rewrite (nth_map_lt' (grid_point g) _ k 0%Q 0) by (now rewrite seq_length). now rewrite seq_nth.
Qed.

Lemma pick_app : forall g1 g2 i1 i2, length g1 = length i1 -> pick (g1 ++ g2) (i1 ++ i2) = (pick g1 i1 ++ pick g2 i2)%list.
Proof.
  induction g1 as [|g r IH]; intros g2 [|k i1] i2 H; try discriminate; [reflexivity|].
  cbn [app pick combine map]. f_equal. apply IH. simpl in H. lia.
Qed.

Lemma in_bounds_concat : forall s1 s2 i1 i2, in_bounds s1 i1 -> in_bounds s2 i2 -> in_bounds (s1 ++ s2) (i1 ++ i2).
Proof.
  induction s1 as [|n r IH]; intros s2 [|k i1] i2 H1 H2; cbn in H1; try contradiction; [exact H2|].
  cbn [app in_bounds]. split; [tauto|]. apply IH; tauto.
Qed.

(* ---- one period ------------------------------------------------------------------------------------------------ *)
Section Period.
Variables (m : model) (p : params) (t : nat) (last : bool) (vnext : list nat -> val).
(* discrete states, discrete choices, continuous states, continuous choices: the order of variable_info *)
Variables (dst dch cst cch : list (string * grid)).
Hypothesis Hperm : Permutation (dch ++ cch) (choices m).
Hypothesis Hnd : NoDup (map fst (choices m)).

(* what utility_and_feasibility returns at scalar arguments, as a function of the values of the variables in
   the order dst, dch, cst, cch *)
Variable uf : list Q -> val * bool.
Definition spec_env (ds dc cs cc : list nat) : env :=
  ((env_of_idx dst ds ++ env_of_idx cst cs) ++ (env_of_idx dch dc ++ env_of_idx cch cc) ++ [(period_name, Qofnat t)])%list.
Definition point_vals (ds dc cs cc : list nat) : list Q :=
  (map snd (env_of_idx dst ds) ++ map snd (env_of_idx dch dc) ++ map snd (env_of_idx cst cs) ++ map snd (env_of_idx cch cc))%list.
Hypothesis Hpoint : forall ds dc cs cc,
  in_bounds (sizes dst) ds -> in_bounds (sizes dch) dc -> in_bounds (sizes cst) cs -> in_bounds (sizes cch) cc ->
  snd (uf (point_vals ds dc cs cc)) = feasible m p (spec_env ds dc cs cc) /\
  (feasible m p (spec_env ds dc cs cc) = true ->
   veq (fst (uf (point_vals ds dc cs cc))) (objective m p last vnext (spec_env ds dc cs cc))).

(* the code: utility_and_feasibility product-mapped over the continuous choice grids (a pair of arrays),
   compute_ccv on it, the space map of compute_ccv over the dense grids, the no-shock reduction *)
Let dense := (dst ++ dch ++ cst)%list.
Definition ufa (args : list qarr) : val * bool := uf (map (fun a => qget a []) args).
Definition Uarr (args0 : list qarr) : arr val :=
  base_productmapG (fun a => scalar (fst (ufa a))) (seq (length dense) (length (gv cch))) args0.
Definition Farr (args0 : list qarr) : arr bool :=
  base_productmapG (fun a => scalar (snd (ufa a))) (seq (length dense) (length (gv cch))) args0.
Definition ccv_point (args0 : list qarr) : arr val := scalar (compute_ccv (Uarr args0) (Farr args0)).
Definition cc_array : arr val :=
  base_productmapG ccv_point (seq 0 (length (gv dense))) (map (fun g => vec g) (gv dense) ++ map (fun g => vec g) (gv cch)).
Definition V_array : arr val :=
  solve_discrete_problem_no_shocks cc_array (Some (seq (length dst) (length dch))) None tt.

Lemma cc_shape : wf cc_array /\ shape cc_array = (sizes dst ++ sizes dch ++ sizes cst)%list.
Proof.
  destruct (bpmG_on_grids_shape ccv_point (fun a => conj eq_refl eq_refl) [] (gv dense) (map (fun g => vec g) (gv cch))) as [W S].
  split; [exact W|]. cbn [length app] in S. unfold cc_array. rewrite S, lengths_gv. unfold dense. now rewrite !sizes_app.
Qed.

Lemma scalars_get (vals : list Q) : map (fun a => qget a []) (map (fun v => scalar v) vals) = vals.
Proof. rewrite map_map. rewrite <- (map_id vals) at 2. apply map_ext. intros v. reflexivity. Qed.

Section AtDense.
Variables (ds dc cs : list nat).
Hypothesis Hds : in_bounds (sizes dst) ds.
Hypothesis Hdc : in_bounds (sizes dch) dc.
Hypothesis Hcs : in_bounds (sizes cst) cs.
Let didx := (ds ++ dc ++ cs)%list.
Let pre := map (fun v => scalar v) (pick (gv dense) didx).
Let args0 := (pre ++ map (fun g => vec g) (gv cch))%list.

Lemma didx_bounds : in_bounds (map (@length Q) (gv dense)) didx.
Proof. rewrite lengths_gv. unfold dense, didx. rewrite !sizes_app. repeat apply in_bounds_concat; assumption. Qed.

Lemma length_pre : length pre = length dense.
Proof.
  unfold pre, pick. rewrite !map_length, combine_length. pose proof (in_bounds_length _ _ didx_bounds) as L.
  rewrite map_length in L. unfold gv in *. rewrite map_length in *. lia.
Qed.

Lemma pre_vals : pick (gv dense) didx
  = (map snd (env_of_idx dst ds) ++ map snd (env_of_idx dch dc) ++ map snd (env_of_idx cst cs))%list.
Proof.
  unfold dense, didx. rewrite !gv_app.
  rewrite pick_app by (unfold gv; rewrite map_length; rewrite (in_bounds_length _ _ Hds); unfold sizes; now rewrite map_length).
  rewrite pick_app by (unfold gv; rewrite map_length; rewrite (in_bounds_length _ _ Hdc); unfold sizes; now rewrite map_length).
  now rewrite !pick_gv.
Qed.

Lemma cc_entry : get VUndef cc_array didx = compute_ccv (Uarr args0) (Farr args0).
Proof.
  unfold cc_array.
  pose proof (bpmG_on_grids_entry VUndef ccv_point (fun a => conj eq_refl eq_refl) [] (gv dense) (map (fun g => vec g) (gv cch)) didx didx_bounds) as E.
  cbn [length app] in E. rewrite E. reflexivity.
Qed.

Lemma args0_form : args0 = (pre ++ map (fun g => vec g) (gv cch) ++ [])%list.
Proof. unfold args0. now rewrite app_nil_r. Qed.

Lemma U_table : Uarr args0 = tabulate (sizes cch) (fun cidx => fst (uf (point_vals ds dc cs cidx))).
Proof.
  pose proof (bpmG_on_grids_shape (fun a => scalar (fst (ufa a))) (fun a => conj eq_refl eq_refl) pre (gv cch) []) as [W S].
  rewrite length_pre, <- args0_form in W, S. fold (Uarr args0) in W, S.
  rewrite (arr_is_tabulate VUndef _ W), S, lengths_gv.
  unfold tabulate. f_equal. apply map_ext_in. intros cidx Hc. apply in_indices in Hc.
  pose proof (bpmG_on_grids_entry VUndef (fun a => scalar (fst (ufa a))) (fun a => conj eq_refl eq_refl) pre (gv cch) [] cidx) as E.
  rewrite length_pre, <- args0_form in E. fold (Uarr args0) in E. rewrite E by (now rewrite lengths_gv).
  unfold ufa. rewrite app_nil_r. unfold pre. rewrite <- map_app, scalars_get, pre_vals, pick_gv by exact Hc.
  unfold point_vals. now rewrite <- !app_assoc.
Qed.

Lemma F_table : Farr args0 = tabulate (sizes cch) (fun cidx => snd (uf (point_vals ds dc cs cidx))).
Proof.
  pose proof (bpmG_on_grids_shape (fun a => scalar (snd (ufa a))) (fun a => conj eq_refl eq_refl) pre (gv cch) []) as [W S].
  rewrite length_pre, <- args0_form in W, S. fold (Farr args0) in W, S.
  rewrite (arr_is_tabulate false _ W), S, lengths_gv.
  unfold tabulate. f_equal. apply map_ext_in. intros cidx Hc. apply in_indices in Hc.
  pose proof (bpmG_on_grids_entry false (fun a => scalar (snd (ufa a))) (fun a => conj eq_refl eq_refl) pre (gv cch) [] cidx) as E.
  rewrite length_pre, <- args0_form in E. fold (Farr args0) in E. rewrite E by (now rewrite lengths_gv).
  unfold ufa. rewrite app_nil_r. unfold pre. rewrite <- map_app, scalars_get, pre_vals, pick_gv by exact Hc.
  unfold point_vals. now rewrite <- !app_assoc.
Qed.
End AtDense.

Lemma mask_is_block :
  axis_mask (length (shape cc_array)) (seq (length dst) (length dch)) = block_mask (length dst) (length dch) (length cst).
Proof.
  destruct cc_shape as [_ S]. rewrite S, !app_length. unfold sizes. rewrite !map_length, Nat.add_assoc. apply axis_mask_block.
Qed.

Theorem period_entry_is_the_specifications_value ds cs :
  in_bounds (sizes dst) ds -> in_bounds (sizes cst) cs ->
  veq (get VUndef V_array (ds ++ cs)) (value_at m p t last vnext (env_of_idx dst ds ++ env_of_idx cst cs)).
Proof.
  intros Hds Hcs. unfold V_array. destruct cc_shape as [_ S].
  assert (Lm : forall vars, length (sizes vars) = length vars) by (intros; unfold sizes; now rewrite map_length).
  set (mask := axis_mask (length (shape cc_array)) (seq (length dst) (length dch))).
  set (U := fun red cidx => fst (uf (point_vals ds red cs cidx))).
  set (Fm := fun red cidx => snd (uf (point_vals ds red cs cidx))).
  assert (H1 : in_bounds (select_mask mask (shape cc_array) false) (ds ++ cs)).
  { unfold mask. rewrite mask_is_block, S. rewrite <- (Lm dst), <- (Lm dch), <- (Lm cst), (select_mask_block (sizes dst) (sizes dch) (sizes cst) false).
    now apply in_bounds_concat. }
  assert (H2 : select_mask mask (shape cc_array) true = map (fun sg : string * grid => grid_size (snd sg)) dch).
  { unfold mask. rewrite mask_is_block, S. rewrite <- (Lm dst), <- (Lm dch), <- (Lm cst). exact (select_mask_block (sizes dst) (sizes dch) (sizes cst) true). }
  assert (H3 : forall red, in_bounds (map (fun sg : string * grid => grid_size (snd sg)) dch) red ->
               get VUndef cc_array (interleave mask (ds ++ cs) red)
               = compute_ccv (tabulate (map (fun sg : string * grid => grid_size (snd sg)) cch) (U red))
                             (tabulate (map (fun sg : string * grid => grid_size (snd sg)) cch) (Fm red))).
  { intros red Hr. unfold mask. rewrite mask_is_block.
    replace (length dst) with (length ds) by (rewrite (in_bounds_length _ _ Hds); apply Lm).
    replace (length dch) with (length red) by (rewrite (in_bounds_length _ _ Hr); apply Lm).
    replace (length cst) with (length cs) by (rewrite (in_bounds_length _ _ Hcs); apply Lm).
    rewrite interleave_block. rewrite (cc_entry ds red cs Hds Hr Hcs), (U_table ds red cs Hds Hr Hcs), (F_table ds red cs Hds Hr Hcs).
    reflexivity. }
  assert (H4 : forall red cidx, in_bounds (map (fun sg : string * grid => grid_size (snd sg)) dch) red ->
               in_bounds (map (fun sg : string * grid => grid_size (snd sg)) cch) cidx ->
               let e := ((env_of_idx dst ds ++ env_of_idx cst cs) ++ (env_of_idx dch red ++ env_of_idx cch cidx) ++ [(period_name, Qofnat t)])%list in
               Fm red cidx = feasible m p e /\ (feasible m p e = true -> veq (U red cidx) (objective m p last vnext e))).
  { intros red cidx Hr Hc. cbv zeta. exact (Hpoint ds red cs cidx Hds Hr Hcs Hc). }
  exact (solved_entry_is_the_specifications_value m p t last vnext (env_of_idx dst ds ++ env_of_idx cst cs) dch cch Hperm Hnd
           cc_array (seq (length dst) (length dch)) (ds ++ cs) H1 H2 U Fm H3 H4).
Qed.
End Period.

(* ---- the point function of the code: u_and_f of Gen/ModelFunctions.v at a grid point --------------------- *)
Lemma firstn_skipn_app {X} (a r : list X) n : length a = n -> firstn n (a ++ r) = a /\ skipn n (a ++ r) = r.
Proof.
  intros <-. split.
  - rewrite firstn_app, Nat.sub_diag, firstn_all. cbn [firstn]. apply app_nil_r.
  - rewrite skipn_app, Nat.sub_diag, skipn_all. reflexivity.
Qed.

Lemma combine_names_vals : forall vars idx, length idx = length vars ->
  combine (map fst vars) (map snd (env_of_idx vars idx)) = env_of_idx vars idx.
Proof.
  induction vars as [|[x g] r IH]; intros [|k idx] H; try discriminate; [reflexivity|].
  cbn [map fst snd env_of_idx combine]. f_equal. apply (IH idx). simpl in H. lia.
Qed.

Lemma length_env_of_idx vars idx : length idx = length vars -> length (env_of_idx vars idx) = length vars.
Proof. intros H. unfold env_of_idx. rewrite map_length, combine_length. lia. Qed.

Section CodePoint.
Variables (m : model) (p : params) (t : nat) (F : list nat -> Q).
Variables (dst dch cst cch : list (string * grid)).

(* the binding of the positional values to names: states first, then choices, then the period -- the
   `**states, **choices, _period=period` of u_and_f *)
Definition env_of_vals (vals : list Q) : env :=
  let v1 := firstn (length dst) vals in let r1 := skipn (length dst) vals in
  let v2 := firstn (length dch) r1 in let r2 := skipn (length dch) r1 in
  let v3 := firstn (length cst) r2 in let v4 := skipn (length cst) r2 in
  ((combine (map fst dst) v1 ++ combine (map fst cst) v3) ++ (combine (map fst dch) v2 ++ combine (map fst cch) v4)
   ++ [(period_name, Qofnat t)])%list.

Lemma env_of_point_vals ds dc cs cc :
  in_bounds (sizes dst) ds -> in_bounds (sizes dch) dc -> in_bounds (sizes cst) cs -> in_bounds (sizes cch) cc ->
  env_of_vals (point_vals dst dch cst cch ds dc cs cc) = spec_env t dst dch cst cch ds dc cs cc.
Proof.
  intros H1 H2 H3 H4.
  assert (L : forall vars idx, in_bounds (sizes vars) idx -> length idx = length vars).
  { intros vars idx H. rewrite (in_bounds_length _ _ H). unfold sizes. now rewrite map_length. }
  unfold env_of_vals, point_vals, spec_env. cbv zeta.
  destruct (firstn_skipn_app (map snd (env_of_idx dst ds))
              (map snd (env_of_idx dch dc) ++ map snd (env_of_idx cst cs) ++ map snd (env_of_idx cch cc)) (length dst)) as [E1 E2];
    [rewrite map_length; apply length_env_of_idx; now apply L|]. rewrite E1, E2.
  destruct (firstn_skipn_app (map snd (env_of_idx dch dc)) (map snd (env_of_idx cst cs) ++ map snd (env_of_idx cch cc)) (length dch)) as [E3 E4];
    [rewrite map_length; apply length_env_of_idx; now apply L|]. rewrite E3, E4.
  destruct (firstn_skipn_app (map snd (env_of_idx cst cs)) (map snd (env_of_idx cch cc)) (length cst)) as [E5 E6];
    [rewrite map_length; apply length_env_of_idx; now apply L|]. rewrite E5, E6.
  rewrite !combine_names_vals by (now apply L). reflexivity.
Qed.

(* the components the concatenated model functions compute at a point, read off the specification *)
Definition u_of (e : env) : Q := match eval_fun (depth m) m p e "utility" with Some u => u | None => 0%Q end.
Definition det_of (e : env) (s : string) : Q := match next_det m p e s with Some q => q | None => 0%Q end.
Definition rows_of (e : env) : list (list Q) :=
  match omap (fun sg : string * grid => weight_row m p e (fst sg)) (stoch_states m) with Some r => r | None => [] end.

(* the model evaluates at e: utility, the deterministic next states, the transition rows (of the length of their
   grid), and the value table of the next period can be read at every node *)
Definition evaluates_at (e : env) : Prop :=
  (exists u, eval_fun (depth m) m p e "utility" = Some u) /\
  (forall sg, In sg (states m) -> is_stochastic m (fst sg) = false -> exists q, next_det m p e (fst sg) = Some q) /\
  (exists rows, omap (fun sg : string * grid => weight_row m p e (fst sg)) (stoch_states m) = Some rows /\
                Forall2 (fun (sg : string * grid) (row : list Q) => length row = grid_size (snd sg)) (stoch_states m) rows) /\
  (forall idx, in_bounds (map (fun sg : string * grid => grid_size (snd sg)) (stoch_states m)) idx ->
     exists q, qread (states m) F (node_vals (states m) (is_stochastic m) (det_of e) idx) = Some q).

(* utility_and_feasibility of a period that is not the last, at scalar arguments *)
Definition uf_code (vals : list Q) : val * bool :=
  let e := env_of_vals vals in
  let cv := code_value m p (det_of e) (rows_of e) (u_of e) bool (feasible m p e) t [] (FR_free (states m) F) in
  (VFin (fst cv), snd cv).

Hypothesis Hnds : NoDup (map fst (states m)).
Hypothesis Hvalid : grids_valid (states m).

Lemma uf_code_at e : evaluates_at e ->
  let cv := code_value m p (det_of e) (rows_of e) (u_of e) bool (feasible m p e) t [] (FR_free (states m) F) in
  snd cv = feasible m p e /\ veq (VFin (fst cv)) (objective m p false (fun idx => VFin (F idx)) e).
Proof.
  intros ((u & Hu) & Hdet & (rows & Hrows & Hlen) & Hread). cbv zeta.
  assert (Eu : u_of e = u) by (unfold u_of; now rewrite Hu).
  assert (Er : rows_of e = rows) by (unfold rows_of; now rewrite Hrows).
  assert (Hdet' : forall sg, In sg (states m) -> is_stochastic m (fst sg) = false -> next_det m p e (fst sg) = Some (det_of e (fst sg))).
  { intros sg Hin Hs. destruct (Hdet sg Hin Hs) as (q & Hq). unfold det_of. now rewrite Hq. }
  rewrite Eu, Er.
  destruct (one_bellman_step_without_restricted_states m p e F (det_of e) rows u bool (feasible m p e) t [] Hnds Hvalid Hu Hdet' Hrows Hlen Hread)
    as (v & Hv & Ev & Ef).
  split; [exact Ef|]. rewrite Hv. cbn [veq]. exact Ev.
Qed.
End CodePoint.

(* ---- one period of the code, with the regenerated u_and_f at every grid point ------------------------------ *)
Section PeriodOfTheCode.
Variables (m : model) (p : params) (t : nat) (F : list nat -> Q).
Variables (dst dch cst cch : list (string * grid)).
Hypothesis Hperm : Permutation (dch ++ cch) (choices m).
Hypothesis Hnd : NoDup (map fst (choices m)).
Hypothesis Hnds : NoDup (map fst (states m)).
Hypothesis Hvalid : grids_valid (states m).

(* a period that is not the last *)
Hypothesis Heval : forall ds dc cs cc,
  in_bounds (sizes dst) ds -> in_bounds (sizes dch) dc -> in_bounds (sizes cst) cs -> in_bounds (sizes cch) cc ->
  evaluates_at m p F (spec_env t dst dch cst cch ds dc cs cc).

Theorem period_of_the_code_is_the_specifications ds cs :
  in_bounds (sizes dst) ds -> in_bounds (sizes cst) cs ->
  veq (get VUndef (V_array dst dch cst cch (uf_code m p t F dst dch cst cch)) (ds ++ cs))
      (value_at m p t false (fun idx => VFin (F idx)) (env_of_idx dst ds ++ env_of_idx cst cs)).
Proof.
  apply (period_entry_is_the_specifications_value m p t false (fun idx => VFin (F idx)) dst dch cst cch Hperm Hnd).
  intros ds' dc cs' cc H1 H2 H3 H4. unfold uf_code. cbv zeta. rewrite (env_of_point_vals t dst dch cst cch ds' dc cs' cc H1 H2 H3 H4).
  cbn [fst snd]. destruct (uf_code_at m p t F Hnds Hvalid _ (Heval ds' dc cs' cc H1 H2 H3 H4)) as [Ef Ev]. cbv zeta in Ef, Ev.
  split; [exact Ef|]. intros _. exact Ev.
Qed.
End PeriodOfTheCode.

(* the last period: u_and_f is current_u_and_f *)
Section LastPeriodOfTheCode.
Variables (m : model) (p : params) (t : nat) (vnext : list nat -> val).
Variables (dst dch cst cch : list (string * grid)).
Hypothesis Hperm : Permutation (dch ++ cch) (choices m).
Hypothesis Hnd : NoDup (map fst (choices m)).
Hypothesis Heval : forall ds dc cs cc,
  in_bounds (sizes dst) ds -> in_bounds (sizes dch) dc -> in_bounds (sizes cst) cs -> in_bounds (sizes cch) cc ->
  exists u, eval_fun (depth m) m p (spec_env t dst dch cst cch ds dc cs cc) "utility" = Some u.

Definition uf_code_last (vals : list Q) : val * bool :=
  let e := env_of_vals t dst dch cst cch vals in
  let cv := u_and_f_last params bool (fun _ _ _ => (u_of m p e, feasible m p e)) [] [] t [] p in
  (VFin (fst cv), snd cv).

Theorem last_period_of_the_code_is_the_specifications ds cs :
  in_bounds (sizes dst) ds -> in_bounds (sizes cst) cs ->
  veq (get VUndef (V_array dst dch cst cch uf_code_last) (ds ++ cs))
      (value_at m p t true vnext (env_of_idx dst ds ++ env_of_idx cst cs)).
Proof.
  apply (period_entry_is_the_specifications_value m p t true vnext dst dch cst cch Hperm Hnd).
  intros ds' dc cs' cc H1 H2 H3 H4. unfold uf_code_last, u_and_f_last. cbv zeta.
  rewrite (env_of_point_vals t dst dch cst cch ds' dc cs' cc H1 H2 H3 H4). cbn [fst snd].
  split; [reflexivity|]. intros _. destruct (Heval ds' dc cs' cc H1 H2 H3 H4) as (u & Hu).
  unfold objective, u_of. rewrite Hu. reflexivity.
Qed.
End LastPeriodOfTheCode.

(* ---- a decision procedure for the hypothesis "the model evaluates at every grid point" ------------------ *)
Definition is_some {X} (o : option X) : bool := match o with Some _ => true | None => false end.
Fixpoint forall2b {X Y} (f : X -> Y -> bool) (l : list X) (r : list Y) : bool :=
  match l, r with
  | [], [] => true
  | x :: l', y :: r' => f x y && forall2b f l' r'
  | _, _ => false
  end.
Lemma forall2b_Forall2 {X Y} (f : X -> Y -> bool) (P : X -> Y -> Prop) :
  (forall x y, f x y = true -> P x y) -> forall l r, forall2b f l r = true -> Forall2 P l r.
Proof.
  intros H. induction l as [|x l IH]; intros [|y r] E; try discriminate; constructor.
  - apply H. cbn in E. now apply andb_true_iff in E.
  - apply IH. cbn in E. now apply andb_true_iff in E.
Qed.

Definition evaluates_atb (m : model) (p : params) (F : list nat -> Q) (e : env) : bool :=
  is_some (eval_fun (depth m) m p e "utility") &&
  forallb (fun sg : string * grid => is_stochastic m (fst sg) || is_some (next_det m p e (fst sg))) (states m) &&
  match omap (fun sg : string * grid => weight_row m p e (fst sg)) (stoch_states m) with
  | Some rows => forall2b (fun (sg : string * grid) (row : list Q) => length row =? grid_size (snd sg)) (stoch_states m) rows
  | None => false
  end &&
  forallb (fun idx => is_some (qread (states m) F (node_vals (states m) (is_stochastic m) (det_of m p e) idx)))
          (indices (map (fun sg : string * grid => grid_size (snd sg)) (stoch_states m))).

Lemma evaluates_atb_sound m p F e : evaluates_atb m p F e = true -> evaluates_at m p F e.
Proof.
  unfold evaluates_atb. intros H. apply andb_true_iff in H. destruct H as [H H4]. apply andb_true_iff in H. destruct H as [H H3].
  apply andb_true_iff in H. destruct H as [H1 H2]. repeat split.
  - destruct (eval_fun (depth m) m p e "utility") as [u|]; [now exists u|discriminate].
  - intros sg Hin Hs. rewrite forallb_forall in H2. specialize (H2 sg Hin). rewrite Hs in H2. cbn [orb] in H2.
    destruct (next_det m p e (fst sg)) as [q|]; [now exists q|discriminate].
  - destruct (omap _ (stoch_states m)) as [rows|]; [|discriminate]. exists rows. split; [reflexivity|].
    apply (forall2b_Forall2 _ _ (fun sg row E => proj1 (Nat.eqb_eq _ _) E) _ _ H3).
  - intros idx Hb. rewrite forallb_forall in H4. specialize (H4 idx (proj2 (in_indices _ idx) Hb)).
    destruct (qread _ _ _) as [q|]; [now exists q|discriminate].
Qed.

(* all grid points at once *)
Definition evaluates_everywhereb (m : model) (p : params) (t : nat) (F : list nat -> Q) (dst dch cst cch : list (string * grid)) : bool :=
  forallb (fun ds => forallb (fun dc => forallb (fun cs => forallb (fun cc =>
    evaluates_atb m p F (spec_env t dst dch cst cch ds dc cs cc)) (indices (sizes cch))) (indices (sizes cst)))
    (indices (sizes dch))) (indices (sizes dst)).

Lemma evaluates_everywhereb_sound m p t F dst dch cst cch : evaluates_everywhereb m p t F dst dch cst cch = true ->
  forall ds dc cs cc,
  in_bounds (sizes dst) ds -> in_bounds (sizes dch) dc -> in_bounds (sizes cst) cs -> in_bounds (sizes cch) cc ->
  evaluates_at m p F (spec_env t dst dch cst cch ds dc cs cc).
Proof.
  unfold evaluates_everywhereb. intros H ds dc cs cc H1 H2 H3 H4. apply evaluates_atb_sound.
  rewrite forallb_forall in H. specialize (H ds (proj2 (in_indices _ ds) H1)).
  rewrite forallb_forall in H. specialize (H dc (proj2 (in_indices _ dc) H2)).
  rewrite forallb_forall in H. specialize (H cs (proj2 (in_indices _ cs) H3)).
  rewrite forallb_forall in H. exact (H cc (proj2 (in_indices _ cc) H4)).
Qed.

(* ---- the choice axes as get_solve_discrete_problem determines them (Proofs/C18_AxesFilterFree.v): no reduction ------ *)
(* without a dense discrete choice -- which gives the same array as reducing over no axes                              *)
Lemma block_mask_no_red (k : nat) : block_mask k 0 0 = repeat false k.
Proof. unfold block_mask. cbn [repeat]. now rewrite !app_nil_r. Qed.

Lemma select_all_false {B} : forall (l : list B), select_mask (repeat false (length l)) l false = l /\ select_mask (repeat false (length l)) l true = [].
Proof. induction l as [|x r [IH1 IH2]]; [split; reflexivity|]. cbn [length repeat select_mask Bool.eqb]. now rewrite IH1, IH2. Qed.

Lemma interleave_all_false : forall keep, interleave (repeat false (length keep)) keep [] = keep.
Proof. induction keep as [|x r IH]; [reflexivity|]. cbn [length repeat interleave hd tl]. now rewrite IH. Qed.

Lemma axis_mask_nil rank : axis_mask rank [] = repeat false rank.
Proof. unfold axis_mask. rewrite <- (seq_length rank 0) at 2. apply map_const_repeat. intros; reflexivity. Qed.

Lemma amax_no_axes (cc : arr val) : wf cc -> solve_discrete_problem_no_shocks cc (Some []) None tt = cc.
Proof.
  intros W. unfold solve_discrete_problem_no_shocks, amax_axes, reduce_axes. rewrite axis_mask_nil.
  destruct (select_all_false (shape cc)) as [E1 E2]. rewrite E1, E2. cbn [indices map fold_right].
  transitivity (tabulate (shape cc) (get VUndef cc)); [|symmetry; exact (arr_is_tabulate VUndef cc W)].
  unfold tabulate. f_equal. apply map_ext_in. intros keep Hk. apply in_indices in Hk.
  rewrite <- (in_bounds_length _ _ Hk), interleave_all_false. destruct (get VUndef cc keep); reflexivity.
Qed.

Definition dense_choice_axes (dst dch : list (string * grid)) : option (list nat) :=
  match dch with [] => None | _ => Some (seq (length dst) (length dch)) end.

Lemma V_array_with_the_codes_axes dst dch cst cch uf :
  solve_discrete_problem_no_shocks (cc_array dst dch cst cch uf) (dense_choice_axes dst dch) None tt = V_array dst dch cst cch uf.
Proof.
  unfold V_array. destruct dch as [|d r]; [|reflexivity]. cbn [dense_choice_axes length seq].
  rewrite amax_no_axes; [reflexivity|]. apply cc_shape.
Qed.

(* Proofs/C08_ChoiceSegments.v — about the regenerated create_choice_segments (Gen/ChoiceSegments.v):  *)
(* the rows of the data state-choice space are grouped by agent, in agent order; the number of segments   *)
(* is the number of agents that have at least one filter-passing combination (so it equals the number of  *)
(* agents exactly when every agent has one -- the situation of the C12 known finding otherwise).          *)
From Coq Require Import List Arith Lia.
Import ListNotations.
From LCM Require Import Gen.ChoiceSegments.

Definition count_true (l : list bool) : nat := length (filter (fun b => b) l).

Lemma select_true_app {A} (m1 m2 : list bool) (l1 l2 : list A) : length m1 = length l1 ->
  select_true (m1 ++ m2) (l1 ++ l2) = select_true m1 l1 ++ select_true m2 l2.
Proof.
  revert l1. induction m1 as [|b m IH]; intros [|x l] H; try discriminate; [reflexivity|]. simpl in H.
  cbn [app select_true]. rewrite IH by lia. now destruct b.
Qed.

Lemma select_true_repeat (row : list bool) (i : nat) : select_true row (repeat i (length row)) = repeat i (count_true row).
Proof. induction row as [|b r IH]; [reflexivity|]. cbn [length repeat select_true]. unfold count_true in *. destruct b; cbn [filter length repeat]; now rewrite IH. Qed.

Section Segments.
Variables (rows : list (list bool)) (k : nat).
Hypothesis Hk : forall r, In r rows -> length r = k.
Hypothesis Hpos : 0 < k.
Hypothesis Hne : rows <> [].
Let n := length rows.
Let mask := concat rows.

Lemma mask_length : length mask = n * k.
Proof.
  unfold mask, n. clear Hne. induction rows as [|r rs IH]; [reflexivity|]. cbn [concat length]. rewrite app_length, (Hk r (or_introl eq_refl)).
  rewrite IH; [lia|]. intros r' Hr'. apply Hk. now right.
Qed.

Lemma combos : length mask / n = k.
Proof. rewrite mask_length. apply Nat.div_mul_cancel_l || (rewrite Nat.mul_comm; apply Nat.div_mul). unfold n. destruct rows; [congruence|simpl; lia]. Qed.

(* agent i contributes as many rows as it has passing combinations, in agent order *)
Theorem segments_are_grouped_by_agent :
  fst (create_choice_segments mask n) = flat_map (fun ir : nat * list bool => repeat (fst ir) (count_true (snd ir))) (combine (seq 0 n) rows).
Proof.
  unfold create_choice_segments. cbn [fst]. rewrite combos. unfold mask, n. clear Hne Hpos.
  generalize 0 as s. induction rows as [|r rs IH]; intros s; [reflexivity|].
  cbn [length seq flat_map concat combine fst snd].
  rewrite select_true_app by (rewrite repeat_length; apply Hk; now left).
  rewrite <- (Hk r (or_introl eq_refl)), select_true_repeat. f_equal.
  rewrite (Hk r (or_introl eq_refl)). apply IH. intros r' Hr'. apply Hk. now right.
Qed.

Lemma nodup_repeat_fresh (i c : nat) (rest : list nat) : ~ In i rest ->
  length (nodup Nat.eq_dec (repeat i (S c) ++ rest)) = S (length (nodup Nat.eq_dec rest)).
Proof.
  intros H. induction c as [|c IH].
  - cbn [repeat app nodup]. destruct (in_dec Nat.eq_dec i rest); [contradiction|reflexivity].
  - change (repeat i (S (S c)) ++ rest) with (i :: (repeat i (S c) ++ rest)). cbn [nodup].
    destruct (in_dec Nat.eq_dec i (repeat i (S c) ++ rest)) as [_|Hn]; [exact IH|].
    exfalso. apply Hn. now left.
Qed.

Lemma in_grouped i l : In i (flat_map (fun ir : nat * list bool => repeat (fst ir) (count_true (snd ir))) l) -> In i (map fst l).
Proof.
  induction l as [|[j r] rs IH]; [intros []|]. cbn [flat_map map fst snd]. intros H. apply in_app_or in H.
  destruct H as [H|H]; [left; symmetry; now apply repeat_spec in H|right; now apply IH].
Qed.

Theorem num_segments_is_number_of_agents_with_a_passing_combination :
  snd (create_choice_segments mask n) = length (filter (fun r => negb (count_true r =? 0)) rows).
Proof.
  change (snd (create_choice_segments mask n)) with (length (nodup Nat.eq_dec (fst (create_choice_segments mask n)))).
  rewrite segments_are_grouped_by_agent. unfold n.
  assert (G : forall (rs : list (list bool)) (s : nat),
            length (nodup Nat.eq_dec (flat_map (fun ir : nat * list bool => repeat (fst ir) (count_true (snd ir)))
                                               (combine (seq s (length rs)) rs)))
            = length (filter (fun r => negb (count_true r =? 0)) rs)).
  { clear. induction rs as [|r rs IH]; intros s; [reflexivity|].
    cbn [length seq combine flat_map fst snd filter].
    destruct (count_true r) as [|c] eqn:Ec; cbn [Nat.eqb negb]; [cbn [repeat app]|].
    - apply IH.
    - rewrite nodup_repeat_fresh.
      + cbn [length]. f_equal. apply IH.
      + intros Hin. apply in_grouped in Hin.
        assert (Hm : forall (l : list (list bool)) t, In s (map fst (combine (seq t (length l)) l)) -> t <= s).
        { induction l as [|x l' IHl]; intros t H; [destruct H|]. cbn [length seq combine map fst] in H. destruct H as [<-|H]; [lia|].
          specialize (IHl (S t) H). lia. }
        specialize (Hm rs (S s) Hin). lia. }
  apply G.
Qed.

Corollary every_agent_keeps_a_segment_iff_every_agent_has_a_choice :
  (forall r, In r rows -> count_true r <> 0) -> snd (create_choice_segments mask n) = n.
Proof.
  intros H. rewrite num_segments_is_number_of_agents_with_a_passing_combination. unfold n. clear -H.
  induction rows as [|r rs IH]; [reflexivity|]. cbn [filter length].
  destruct (count_true r =? 0) eqn:E; [apply Nat.eqb_eq in E; exfalso; exact (H r (or_introl eq_refl) E)|].
  cbn [negb length]. f_equal. apply IH. intros r' Hr'. apply H. now right.
Qed.
End Segments.

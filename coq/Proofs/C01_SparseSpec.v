(* Proofs/C01_SparseSpec.v — WITH filter-restricted variables, what lcm's solve returns is the specification's solve_spec at   *)
(* the remaining restricted states.  The specification's value depends on the next value function only at the indices it       *)
(* reads: in-bounds indices whose restricted-state part is the restricted part of a node of the transition -- which remains      *)
(* in the next period's space.                                                                                                  *)
From Coq Require Import Lqa Lia Permutation ZArith.
From LCM Require Import Base.Prelude Base.Arr Base.ArrOps Model.StateSpace.
From LCM Require Import Spec.Interp Spec.Lang Spec.Bellman Spec.Layout Proofs.ArrLemmas Proofs.ArrLemmas2 Proofs.Spec_Algebra Proofs.Spec_Bellman
                        Proofs.C11_Affine Proofs.C11_Horizon Proofs.C10_Choices Proofs.C14_Refine Proofs.C14_OnLayout Proofs.C14_OnLayoutIx
                        Proofs.C17_StateSpace Proofs.Refine_StateSpace
                        Proofs.C01_Bridge Proofs.C01_Compose Proofs.C01_MaxCompose Proofs.C01_Period Proofs.C01_Solve Proofs.C01_SolveSpec
                        Proofs.C01_Sparse Proofs.C01_SparseSolve.
Local Open Scope nat_scope.

(* ---- the specification reads the next table only at indices with the discrete labels of the point ---------------------- *)
Section ReadsOnly.
Variable isr : string -> bool.

Lemma vread_veq_at_labels : forall sts (R : list nat -> Prop) f g vals, grids_valid sts ->
  (forall idx, in_bounds (map (fun sg : string * grid => grid_size (snd sg)) sts) idx -> R (rpart isr sts idx) -> veq (g idx) (f idx)) ->
  (forall dl_all, disc_labels sts vals = Some dl_all -> R (fst (split_labels isr sts dl_all))) ->
  veq (vread sts g vals) (vread sts f vals).
Proof.
  induction sts as [|[x gr] r IH]; intros R f g vals Hv H HR.
  - destruct vals; simpl; [|exact I]. apply H; [exact I|]. apply (HR []). reflexivity.
  - inversion Hv as [|? ? Hg Hv']; subst. destruct gr as [n|lo hi n]; destruct vals as [|v vs]; cbn [vread]; try exact I.
    + destruct (is_label v n) as [k|] eqn:Ek; [|exact I].
      apply (IH (fun rl => R (if isr x then k :: rl else rl))); [exact Hv'| |].
      * intros idx Hb HRr. apply H; [cbn; split; [now apply (is_label_lt v)|exact Hb]|].
        cbn [rpart]. destruct (isr x); exact HRr.
      * intros dl' Hd. specialize (HR (k :: dl')). cbn [disc_labels] in HR. rewrite Ek, Hd in HR. cbn [obind] in HR.
        specialize (HR eq_refl). cbn [split_labels] in HR. destruct (isr x); exact HR.
    + cbn [snd] in Hg. destruct Hg as [_ Hn]. destruct (cell_lo_in_range (spec_lin_coord lo hi n v) n Hn) as [L1 L2].
      apply vblend_veq; (apply (IH R); [exact Hv'| |]);
        try (intros idx Hb HRr; apply H; [cbn; split; [assumption|exact Hb]|cbn [rpart]; exact HRr]);
        try (intros dl' Hd; apply HR; cbn [disc_labels]; exact Hd).
Qed.
End ReadsOnly.

Lemma expect_veq_in (rd rd' : env -> val) nds :
  (forall nw, In nw nds -> veq (rd' (fst nw)) (rd (fst nw))) -> veq (expect rd' nds) (expect rd nds).
Proof.
  induction nds as [|nw r IH]; intros H; [reflexivity|]. unfold expect in *. cbn [fold_right].
  specialize (IH (fun x Hx => H x (or_intror Hx))). pose proof (H nw (or_introl eq_refl)) as E.
  destruct (rd (fst nw)), (rd' (fst nw)); simpl in E; try contradiction; try exact I;
    destruct (fold_right _ _ r), (fold_right _ _ r); simpl in IH; try contradiction; try exact I.
  simpl. rewrite E, IH. reflexivity.
Qed.

Section ObjectiveRel.
Variables (m : model) (p : params) (F : list nat -> Q) (isr : string -> bool) (remaining : list (list nat)) (e : env).
Hypothesis Hnds : NoDup (map fst (states m)).
Hypothesis Hvalid : grids_valid (states m).
Hypothesis Heval : evaluates_at_ix m p F isr remaining e.
Variables (vnext vnext' : list nat -> val).
Hypothesis Hv : forall idx, in_bounds (state_shape m) idx -> In (rpart isr (states m) idx) remaining -> veq (vnext' idx) (vnext idx).

Lemma continuation_veq_on_remaining : veq (continuation m p vnext' e) (continuation m p vnext e).
Proof.
  destruct Heval as ((_ & Hdet & (rows & Hrows & _) & _) & Hrem).
  rewrite !continuation_as_expect, (nodes_enumeration m p e (stoch_states m) rows Hrows).
  apply expect_veq_in. intros nw Hin. apply in_map_iff in Hin. destruct Hin as (idx & <- & Hidx). apply in_indices in Hidx. cbn [fst].
  assert (Hdet' : forall sg, In sg (states m) -> is_stochastic m (fst sg) = false -> next_det m p e (fst sg) = Some (det_of m p e (fst sg))).
  { intros sg Hs Hst. destruct (Hdet sg Hs Hst) as (q & Hq). unfold det_of. now rewrite Hq. }
  assert (Hl : length idx = length (filter (fun sg : string * grid => is_stochastic m (fst sg)) (states m))).
  { rewrite (in_bounds_length _ _ Hidx), map_length. reflexivity. }
  pose proof (spec_next_values_at_node (is_stochastic m) (det_of m p e) (next_det m p e) (states m) idx Hnds Hl Hdet') as E.
  unfold node_value, node_labels, stoch_states. rewrite E.
  apply (vread_veq_at_labels isr (states m) (fun rl => In rl remaining)); [exact Hvalid|exact Hv|].
  intros dl_all Hd. exact (Hrem idx dl_all Hidx Hd).
Qed.

Lemma objective_veq_on_remaining : veq (objective m p false vnext' e) (objective m p false vnext e).
Proof.
  unfold objective. destruct (eval_fun (depth m) m p e "utility"); [|exact I].
  pose proof continuation_veq_on_remaining as E.
  destruct (continuation m p vnext e), (continuation m p vnext' e); simpl in E; try tauto; try exact I.
  simpl. rewrite E. reflexivity.
Qed.
End ObjectiveRel.

(* ---- the three groups of states and the declaration order ----------------------------------------------------------------- *)
Section Groups3.
Variable m : model.
Let sts := states m.
Let isr := is_restricted m.
Hypothesis Hdisc : forall sg, In sg sts -> isr (fst sg) = true -> is_cont (snd sg) = false.

Lemma merge3_of_parts : forall l idx, length idx = length l ->
  (forall sg, In sg l -> isr (fst sg) = true -> is_cont (snd sg) = false) ->
  merge3 isr l (rpart isr l idx) (fdpart isr l idx) (cpart l idx) = idx.
Proof.
  induction l as [|[x g] r IH]; intros idx Hl Hd; destruct idx as [|k i]; try discriminate; [reflexivity|].
  assert (Hd' : forall sg, In sg r -> isr (fst sg) = true -> is_cont (snd sg) = false) by (intros sg Hin; apply Hd; now right).
  destruct g as [n|a b n]; cbn [merge3 rpart fdpart cpart].
  - destruct (isr x); cbn [merge3]; f_equal; apply IH; try exact Hd'; simpl in Hl; lia.
  - f_equal. apply IH; [simpl in Hl; lia|exact Hd'].
Qed.

Lemma parts3_permutation : forall l idx,
  (forall sg, In sg l -> isr (fst sg) = true -> is_cont (snd sg) = false) ->
  Permutation (env_of_idx l idx)
    (env_of_idx (filter (fun sg => isr (fst sg)) l) (rpart isr l idx) ++
     env_of_idx (filter (fun sg => negb (isr (fst sg)) && negb (is_cont (snd sg))) l) (fdpart isr l idx) ++
     env_of_idx (filter (fun sg => negb (isr (fst sg)) && is_cont (snd sg)) l) (cpart l idx)).
Proof.
  induction l as [|[x g] r IH]; intros idx Hd; [destruct idx; apply Permutation_refl|].
  assert (Hd' : forall sg, In sg r -> isr (fst sg) = true -> is_cont (snd sg) = false) by (intros sg Hin; apply Hd; now right).
  destruct idx as [|k i].
  - destruct g; cbn [rpart fdpart cpart]; unfold env_of_idx; rewrite !combine_nil; constructor.
  - destruct g as [n|a b n]; cbn [filter fst snd is_cont negb andb rpart fdpart cpart].
    + destruct (isr x) eqn:Ex; cbn [negb andb].
      * change (env_of_idx ((x, GDisc n) :: r) (k :: i)) with ((x, grid_point (GDisc n) k) :: env_of_idx r i).
        change (env_of_idx ((x, GDisc n) :: filter (fun sg => isr (fst sg)) r) (k :: rpart isr r i))
          with ((x, grid_point (GDisc n) k) :: env_of_idx (filter (fun sg => isr (fst sg)) r) (rpart isr r i)).
        cbn [app]. apply perm_skip. apply IH. exact Hd'.
      * change (env_of_idx ((x, GDisc n) :: r) (k :: i)) with ((x, grid_point (GDisc n) k) :: env_of_idx r i).
        change (env_of_idx ((x, GDisc n) :: filter (fun sg => negb (isr (fst sg)) && negb (is_cont (snd sg))) r) (k :: fdpart isr r i))
          with ((x, grid_point (GDisc n) k) :: env_of_idx (filter (fun sg => negb (isr (fst sg)) && negb (is_cont (snd sg))) r) (fdpart isr r i)).
        apply Permutation_cons_app. apply IH. exact Hd'.
    + assert (Ex : isr x = false).
      { destruct (isr x) eqn:E; [|reflexivity]. specialize (Hd (x, GLin a b n) (or_introl eq_refl) E). discriminate. }
      rewrite Ex. cbn [negb andb].
      change (env_of_idx ((x, GLin a b n) :: r) (k :: i)) with ((x, grid_point (GLin a b n) k) :: env_of_idx r i).
      change (env_of_idx ((x, GLin a b n) :: filter (fun sg => negb (isr (fst sg)) && is_cont (snd sg)) r) (k :: cpart r i))
        with ((x, grid_point (GLin a b n) k) :: env_of_idx (filter (fun sg => negb (isr (fst sg)) && is_cont (snd sg)) r) (cpart r i)).
      rewrite app_assoc. apply Permutation_cons_app. rewrite <- app_assoc. apply IH. exact Hd'.
Qed.

Lemma parts3_in_bounds : forall l idx, in_bounds (map (fun sg : string * grid => grid_size (snd sg)) l) idx ->
  in_bounds (rsizes isr l) (rpart isr l idx) /\ in_bounds (fdsizes isr l) (fdpart isr l idx) /\ in_bounds (cont_sizes l) (cpart l idx).
Proof.
  induction l as [|[x g] r IH]; intros [|k i] H; cbn in H; try contradiction; [repeat split; exact I|].
  destruct H as [Hk Hr]. destruct (IH i Hr) as (H1 & H2 & H3). destruct g as [n|a b n]; cbn [rsizes fdsizes cont_sizes rpart fdpart cpart].
  - destruct (isr x); cbn [in_bounds]; cbn in Hk; tauto.
  - cbn [in_bounds]. cbn in Hk. tauto.
Qed.

Lemma merge3_in_bounds : forall l rl dl ci,
  in_bounds (rsizes isr l) rl -> in_bounds (fdsizes isr l) dl -> in_bounds (cont_sizes l) ci ->
  in_bounds (map (fun sg : string * grid => grid_size (snd sg)) l) (merge3 isr l rl dl ci).
Proof.
  induction l as [|[x g] r IH]; intros rl dl ci H1 H2 H3; [exact I|].
  destruct g as [n|a b n]; cbn [rsizes fdsizes cont_sizes merge3 map snd grid_size] in *.
  - destruct (isr x).
    + destruct rl as [|k rl']; [destruct H1|]. destruct H1 as [Hk H1]. cbn [in_bounds]. split; [exact Hk|now apply IH].
    + destruct dl as [|k dl']; [destruct H2|]. destruct H2 as [Hk H2]. cbn [in_bounds]. split; [exact Hk|now apply IH].
  - destruct ci as [|k ci']; [destruct H3|]. destruct H3 as [Hk H3]. cbn [in_bounds]. split; [exact Hk|now apply IH].
Qed.
End Groups3.

Lemma evaluates_at_ix_indep m p F F' isr remaining e : evaluates_at_ix m p F isr remaining e -> evaluates_at_ix m p F' isr remaining e.
Proof. intros [H1 H2]. split; [exact (evaluates_at_indep m p F F' e H1)|exact H2]. Qed.

(* ---- THE THEOREM ------------------------------------------------------------------------------------------------------------ *)
Section SparseIsSpec.
Variables (m : model) (p : params) (dch cch : list (string * grid)).
Let n := n_periods m.
Let sts := states m.
Let isr := is_restricted m.
Let rs := restricted_states m.
Let rc := restricted_choices m.
Let dst := free_discrete_states m.
Let cst := free_continuous_states m.
Hypothesis Hperm : Permutation (rc ++ dch ++ cch) (choices m).
Hypothesis Hnd : NoDup (map fst (choices m)).
Hypothesis Hnodup : NoDup (map fst (rs ++ rc)).
Hypothesis Hrs : rs <> [].
Hypothesis Hfree : forall x, In x (map fst (dst ++ cst ++ dch ++ cch)) -> is_restricted m x = false.
Hypothesis Hnds : NoDup (map fst sts).
Hypothesis Hvalid : grids_valid sts.
Hypothesis Hdisc : forall sg, In sg sts -> isr (fst sg) = true -> is_cont (snd sg) = false.
Hypothesis Hnames : NoDup (map fst (rc ++ dst ++ dch ++ cst ++ cch)).
Hypothesis Hsparse_name : ~ In "__sparse__"%string (map fst (rc ++ dch ++ cch)).
(* the model evaluates at every point of every period's space, and every node lands on a state that remains in the next period *)
Hypothesis Heval : forall t, S t < n -> forall si ci ds dc cs cidx,
  in_bounds (sizes rs) si -> in_bounds (sizes rc) ci -> in_bounds (sizes dst) ds -> in_bounds (sizes dch) dc ->
  in_bounds (sizes cst) cs -> in_bounds (sizes cch) cidx ->
  evaluates_at_ix m p (fun _ => 0%Q) isr (rem_at m p (S t)) (sp_env t rs rc dst dch cst cch si ci ds dc cs cidx).
Hypothesis Hlast : forall t, S t = n -> forall si ci ds dc cs cidx,
  in_bounds (sizes rs) si -> in_bounds (sizes rc) ci -> in_bounds (sizes dst) ds -> in_bounds (sizes dch) dc ->
  in_bounds (sizes cst) cs -> in_bounds (sizes cch) cidx ->
  exists u, eval_fun (depth m) m p (sp_env t rs rc dst dch cst cch si ci ds dc cs cidx) "utility" = Some u.
(* the specification's value function is finite at the remaining states *)
Hypothesis Hfin : forall t idx, t < n -> in_bounds (state_shape m) idx -> In (rpart isr sts idx) (rem_at m p t) ->
  exists q, get VUndef (nth t (solve_spec m p) (scalar VUndef)) idx = VFin q.

Let Vc := code_solve_sparse m p n dch cch.
Let Vs := solve_spec m p.

Lemma spec_entry' t idx : t < n -> in_bounds (state_shape m) idx ->
  get VUndef (nth t Vs (scalar VUndef)) idx
  = vred (value_at m p t (S t =? n) (fun i => get VUndef (nth (S t) Vs (scalar VUndef)) i) (state_env m idx)).
Proof.
  intros Ht Hb. unfold Vs. rewrite (solve_spec_is_backward_induction m p t Ht). unfold value_table.
  now rewrite get_tabulate by exact Hb.
Qed.

Lemma sizes_rs : sizes rs = rsizes isr sts.   Proof. symmetry. exact (rsizes_are m Hdisc). Qed.
Lemma sizes_dst : sizes dst = fdsizes isr sts. Proof. symmetry. exact (fdsizes_are m). Qed.
Lemma sizes_cst : sizes cst = cont_sizes sts.  Proof. symmetry. exact (cont_sizes_are m Hdisc). Qed.

Lemma rem_in_bounds t s : s < length (rem_at m p t) -> in_bounds (sizes rs) (nth s (rem_at m p t) []).
Proof.
  intros Hs. assert (Hin : In (nth s (rem_at m p t) []) (rem_at m p t)) by (now apply nth_In).
  unfold rem_at, feasible_states, mask_at in Hin. apply filter_In in Hin. destruct Hin as [Hin _]. apply in_indices in Hin.
  rewrite (state_shape_sizes m p t) in Hin at 1. exact Hin.
Qed.

(* the state stored at position (s, ds, cs), in declaration order *)
Definition decl_index (t s : nat) (ds cs : list nat) : list nat := merge3 isr sts (nth s (rem_at m p t) []) ds cs.

Lemma decl_index_facts t s ds cs : s < length (rem_at m p t) -> in_bounds (sizes dst) ds -> in_bounds (sizes cst) cs ->
  in_bounds (state_shape m) (decl_index t s ds cs) /\
  rpart isr sts (decl_index t s ds cs) = nth s (rem_at m p t) [] /\
  fdpart isr sts (decl_index t s ds cs) = ds /\ cpart sts (decl_index t s ds cs) = cs.
Proof.
  intros Hs Hds Hcs. pose proof (rem_in_bounds t s Hs) as Hsi. rewrite sizes_rs in Hsi. rewrite sizes_dst in Hds. rewrite sizes_cst in Hcs.
  split; [exact (merge3_in_bounds m sts _ ds cs Hsi Hds Hcs)|].
  apply parts_of_merge3; [now rewrite (in_bounds_length _ _ Hsi)|now rewrite (in_bounds_length _ _ Hds)|now rewrite (in_bounds_length _ _ Hcs)].
Qed.

Lemma state_equiv t s ds cs : s < length (rem_at m p t) -> in_bounds (sizes dst) ds -> in_bounds (sizes cst) cs ->
  env_equiv (env_of_idx rs (nth s (rem_at m p t) []) ++ env_of_idx dst ds ++ env_of_idx cst cs)
            (state_env m (decl_index t s ds cs)).
Proof.
  intros Hs Hds Hcs a. destruct (decl_index_facts t s ds cs Hs Hds Hcs) as (Hb & E1 & E2 & E3).
  symmetry. rewrite state_env_is_env_of_idx.
  pose proof (parts3_permutation m sts (decl_index t s ds cs) Hdisc) as P. unfold isr in E1, E2. rewrite E1, E2, E3 in P.
  apply (assoc_perm a _ _ P).
  rewrite keys_env_of_idx; [exact Hnds|]. rewrite (in_bounds_length _ _ Hb). unfold state_shape. now rewrite map_length.
Qed.

(* the next value functions of code and specification agree where the specification reads *)
Definition agree_at (t : nat) : Prop :=
  forall s ds cs, s < length (rem_at m p t) -> in_bounds (sizes dst) ds -> in_bounds (sizes cst) cs ->
  veq (get VUndef (nth t Vc (scalar VUndef)) (s :: ds ++ cs)) (get VUndef (nth t Vs (scalar VUndef)) (decl_index t s ds cs)).

Lemma next_tables_agree t : S t < n -> agree_at (S t) ->
  forall i, in_bounds (state_shape m) i -> In (rpart isr sts i) (rem_at m p (S t)) ->
  veq (VFin (next_table_sparse m p n dch cch t i)) (get VUndef (nth (S t) Vs (scalar VUndef)) i).
Proof.
  intros Ht IH i Hi Hrem. unfold next_table_sparse, table_of_ix. fold isr. fold sts.
  destruct (find_pos_spec (rpart isr sts i) (rem_at m p (S t)) Hrem) as (r & Er & Hr & En). rewrite Er.
  destruct (parts3_in_bounds m sts i Hi) as (_ & Hfd & Hc). fold isr in Hfd. rewrite <- sizes_dst in Hfd. rewrite <- sizes_cst in Hc.
  pose proof (IH r (fdpart isr sts i) (cpart sts i) Hr Hfd Hc) as V. unfold decl_index in V. rewrite En in V.
  pose proof (merge3_of_parts m sts i ltac:(rewrite (in_bounds_length _ _ Hi); unfold state_shape; now rewrite map_length) Hdisc) as EM.
  fold isr in EM. rewrite EM in V.
  destruct (Hfin (S t) i Ht Hi Hrem) as (q & Hq). fold Vs in Hq. rewrite Hq in *.
  fold Vc. destruct (get VUndef (nth (S t) Vc (scalar VUndef)) (r :: fdpart isr sts i ++ cpart sts i)); simpl in V; try contradiction. exact V.
Qed.

Theorem code_solve_sparse_is_solve_spec : forall k t, t + k = n - 1 -> t < n -> agree_at t.
Proof.
  induction k as [|k IH]; intros t Hk Ht s ds cs Hs Hds Hcs.
  - (* the last period *)
    assert (E : S t = n) by lia.
    destruct (decl_index_facts t s ds cs Hs Hds Hcs) as (Hb & _).
    rewrite (spec_entry' t _ Ht Hb), vred_veq.
    pose proof (code_solve_sparse_satisfies_the_bellman_equation m p n dch cch Hperm Hnd Hnodup Hrs Hfree Hnds Hvalid Hdisc Hnames Hsparse_name
                  t s ds cs Ht ltac:(intros; lia) (fun _ => Hlast t E) Hs Hds Hcs) as B.
    unfold Vc. eapply veq_trans; [exact B|]. clear B.
    replace (t =? n - 1) with true by (symmetry; apply Nat.eqb_eq; lia).
    replace (S t =? n) with true by (symmetry; apply Nat.eqb_eq; lia).
    apply value_at_last_any_next. exact (state_equiv t s ds cs Hs Hds Hcs).
  - assert (E : S t < n) by lia.
    destruct (decl_index_facts t s ds cs Hs Hds Hcs) as (Hb & _).
    rewrite (spec_entry' t _ Ht Hb), vred_veq.
    assert (Hev : forall si ci ds' dc cs' cidx,
              in_bounds (sizes rs) si -> in_bounds (sizes rc) ci -> in_bounds (sizes dst) ds' -> in_bounds (sizes dch) dc ->
              in_bounds (sizes cst) cs' -> in_bounds (sizes cch) cidx ->
              evaluates_at_ix m p (next_table_sparse m p n dch cch t) isr (rem_at m p (S t)) (sp_env t rs rc dst dch cst cch si ci ds' dc cs' cidx)).
    { intros si ci ds' dc cs' cidx H1 H2 H3 H4 H5 H6. exact (evaluates_at_ix_indep m p _ _ _ _ _ (Heval t E si ci ds' dc cs' cidx H1 H2 H3 H4 H5 H6)). }
    pose proof (code_solve_sparse_satisfies_the_bellman_equation m p n dch cch Hperm Hnd Hnodup Hrs Hfree Hnds Hvalid Hdisc Hnames Hsparse_name
                  t s ds cs Ht (fun _ => Hev) ltac:(intros; lia) Hs Hds Hcs) as B.
    unfold Vc. eapply veq_trans; [exact B|]. clear B.
    replace (t =? n - 1) with false by (symmetry; apply Nat.eqb_neq; lia).
    replace (S t =? n) with false by (symmetry; apply Nat.eqb_neq; lia).
    set (sigma := (env_of_idx rs (nth s (rem_at m p t) []) ++ env_of_idx dst ds ++ env_of_idx cst cs)%list).
    set (vc := fun idx => VFin (next_table_sparse m p n dch cch t idx)).
    set (vs := fun i => get VUndef (nth (S t) Vs (scalar VUndef)) i).
    (* step A: the next value function, at the same state *)
    assert (A : veq (value_at m p t false vc sigma) (value_at m p t false vs sigma)).
    { rewrite (value_at_three_groups m p t false vc sigma rc dch cch Hperm Hnd), (value_at_three_groups m p t false vs sigma rc dch cch Hperm Hnd).
      apply vmaxl_compat. 
      assert (G : forall (l1 : list (list nat)) (f g : list nat -> list val), (forall x, In x l1 -> Forall2 veq (f x) (g x)) -> Forall2 veq (flat_map f l1) (flat_map g l1)).
      { induction l1 as [|x r IHl]; intros f g H; [constructor|]. cbn [flat_map]. apply Forall2_app; [apply H; now left|apply IHl; intros y Hy; apply H; now right]. }
      apply G. intros ci Hci. apply in_indices in Hci. apply G. intros dc Hdc. apply in_indices in Hdc.
      apply Forall2_map_in. intros cidx Hc. apply in_indices in Hc. unfold cand3. cbv zeta.
      fold (sp_env t rs rc dst dch cst cch (nth s (rem_at m p t) []) ci ds dc cs cidx).
      destruct (feasible m p _); [|reflexivity].
      apply (objective_veq_on_remaining m p (next_table_sparse m p n dch cch t) isr (rem_at m p (S t)) _ Hnds Hvalid
               (Hev _ ci ds dc cs cidx (rem_in_bounds t s Hs) Hci Hds Hdc Hcs Hc) vs vc).
      intros i Hi Hr. exact (next_tables_agree t E (IH (S t) ltac:(lia) E) i Hi Hr). }
    eapply veq_trans; [exact A|].
    (* step B: the same state in declaration order *)
    apply (value_at_veq_on_grid m p Hvalid vs vs (fun idx _ => veq_refl _) t false). exact (state_equiv t s ds cs Hs Hds Hcs).
Qed.
End SparseIsSpec.

Theorem lcm_solve_with_filters_is_the_specifications_solve (m : model) (p : params) (dch cch : list (string * grid)) :
  let rs := restricted_states m in let rc := restricted_choices m in
  let dst := free_discrete_states m in let cst := free_continuous_states m in
  Permutation (rc ++ dch ++ cch) (choices m) -> NoDup (map fst (choices m)) -> NoDup (map fst (rs ++ rc)) -> rs <> [] ->
  (forall x, In x (map fst (dst ++ cst ++ dch ++ cch)) -> is_restricted m x = false) ->
  NoDup (map fst (states m)) -> grids_valid (states m) ->
  (forall sg, In sg (states m) -> is_restricted m (fst sg) = true -> is_cont (snd sg) = false) ->
  NoDup (map fst (rc ++ dst ++ dch ++ cst ++ cch)) -> ~ In "__sparse__"%string (map fst (rc ++ dch ++ cch)) ->
  (forall t, S t < n_periods m -> forall si ci ds dc cs cidx,
     in_bounds (sizes rs) si -> in_bounds (sizes rc) ci -> in_bounds (sizes dst) ds -> in_bounds (sizes dch) dc ->
     in_bounds (sizes cst) cs -> in_bounds (sizes cch) cidx ->
     evaluates_at_ix m p (fun _ => 0%Q) (is_restricted m) (rem_at m p (S t)) (sp_env t rs rc dst dch cst cch si ci ds dc cs cidx)) ->
  (forall t, S t = n_periods m -> forall si ci ds dc cs cidx,
     in_bounds (sizes rs) si -> in_bounds (sizes rc) ci -> in_bounds (sizes dst) ds -> in_bounds (sizes dch) dc ->
     in_bounds (sizes cst) cs -> in_bounds (sizes cch) cidx ->
     exists u, eval_fun (depth m) m p (sp_env t rs rc dst dch cst cch si ci ds dc cs cidx) "utility" = Some u) ->
  (forall t idx, t < n_periods m -> in_bounds (state_shape m) idx -> In (rpart (is_restricted m) (states m) idx) (rem_at m p t) ->
     exists q, get VUndef (nth t (solve_spec m p) (scalar VUndef)) idx = VFin q) ->
  forall t s ds cs, t < n_periods m -> s < length (rem_at m p t) -> in_bounds (sizes dst) ds -> in_bounds (sizes cst) cs ->
  veq (get VUndef (nth t (code_solve_sparse m p (n_periods m) dch cch) (scalar VUndef)) (s :: ds ++ cs))
      (get VUndef (nth t (solve_spec m p) (scalar VUndef)) (decl_index m p t s ds cs)).
Proof.
  intros rs rc dst cst H1 H2 H3 H4 H5 H6 H7 H8 H9 H10 H11 H12 H13 t s ds cs Ht Hs Hds Hcs.
  exact (code_solve_sparse_is_solve_spec m p dch cch H1 H2 H3 H4 H5 H6 H7 H8 H9 H10 H11 H12 H13 (n_periods m - 1 - t) t ltac:(lia) Ht s ds cs Hs Hds Hcs).
Qed.

(* Proofs/ArrLemmas2.v — index arithmetic for concatenated shapes, reshape, broadcasting, *)
(* first_true and folds of vmax.                                                          *)
From LCM Require Import Base.Prelude Base.Arr Base.ArrOps Proofs.ArrLemmas.
Local Open Scope nat_scope.

Lemma size_app s1 s2 : size (s1 ++ s2) = size s1 * size s2.
Proof. induction s1 as [|n r IH]; simpl; [lia|]. rewrite IH. lia. Qed.

Lemma ravel_app s1 : forall i1 s2 i2, length i1 = length s1 ->
  ravel (s1 ++ s2) (i1 ++ i2) = ravel s1 i1 * size s2 + ravel s2 i2.
Proof.
  induction s1 as [|n r IH]; intros [|i js] s2 i2 H; simpl in *; try discriminate; [lia|].
  injection H as H. rewrite IH by exact H. rewrite size_app. lia.
Qed.

Lemma in_bounds_app s1 : forall i1 s2 i2,
  in_bounds s1 i1 -> in_bounds s2 i2 -> in_bounds (s1 ++ s2) (i1 ++ i2).
Proof.
  induction s1 as [|n r IH]; intros [|i js] s2 i2 H1 H2; simpl in *; try tauto.
  destruct H1 as [Hi Hjs]. split; [exact Hi|]. now apply IH.
Qed.

Lemma in_bounds_app_inv s1 : forall i1 s2 i2, length i1 = length s1 ->
  in_bounds (s1 ++ s2) (i1 ++ i2) -> in_bounds s1 i1 /\ in_bounds s2 i2.
Proof.
  induction s1 as [|n r IH]; intros [|i js] s2 i2 HL H; simpl in *; try discriminate; [tauto|].
  injection HL as HL. destruct H as [Hi H]. destruct (IH _ _ _ HL H). tauto.
Qed.

Lemma in_bounds_single n k : in_bounds [n] [k] <-> k < n.
Proof. simpl. tauto. Qed.

Lemma removelast_app_single {B} (l : list B) x : removelast (l ++ [x]) = l.
Proof. apply removelast_last. Qed.

Lemma last_app_single {B} (l : list B) x d : last (l ++ [x]) d = x.
Proof. apply last_last. Qed.

(* get through a reshape: only the row-major position matters *)
Lemma get_reshape {A} (d : A) sh (a : arr A) idx :
  get d (reshape sh a) idx = nth (ravel sh idx) (data a) d.
Proof. reflexivity. Qed.

Lemma get_as_nth {A} (d : A) (a : arr A) idx : get d a idx = nth (ravel (shape a) idx) (data a) d.
Proof. reflexivity. Qed.

(* broadcasting *)
Lemma bidx_same sh : forall idx, in_bounds sh idx ->
  zip_with (fun s i => if s =? 1 then 0 else i) sh idx = idx.
Proof.
  induction sh as [|n r IH]; intros [|i js] H; simpl in *; try tauto.
  destruct H as [Hi Hjs]. rewrite IH by exact Hjs.
  destruct (Nat.eqb_spec n 1); [|reflexivity]. f_equal. lia.
Qed.

Lemma bget_same {A} (d : A) (a : arr A) idx : in_bounds (shape a) idx -> bget d a idx = get d a idx.
Proof. intros H. unfold bget. now rewrite bidx_same. Qed.

Lemma bidx_keep front : forall outer k, in_bounds front outer ->
  zip_with (fun s i => if s =? 1 then 0 else i) (front ++ [1]) (outer ++ [k]) = outer ++ [0].
Proof.
  induction front as [|n r IH]; intros [|i js] k H; simpl in *; try tauto.
  destruct H as [Hi Hjs]. rewrite IH by exact Hjs.
  destruct (Nat.eqb_spec n 1); [|reflexivity]. f_equal. lia.
Qed.

Lemma bshape_same s : bshape s s = s.
Proof. unfold bshape. induction s as [|n r IH]; simpl; [reflexivity|]. rewrite IH. now destruct (n =? 1). Qed.

Lemma bshape_keep front n : bshape (front ++ [n]) (front ++ [1]) = front ++ [n].
Proof.
  unfold bshape. induction front as [|m r IH]; simpl.
  - now destruct (Nat.eqb_spec n 1) as [->|].
  - rewrite IH. now destruct (m =? 1).
Qed.

Lemma shape_amap2_bcast {A B C} (da : A) (db : B) (f : A -> B -> C) a b :
  shape (amap2_bcast da db f a b) = bshape (shape a) (shape b).
Proof. reflexivity. Qed.

(* first_true *)
Lemma first_true_spec l :
  (existsb (fun b => b) l = true ->
     first_true l < length l /\ nth (first_true l) l false = true /\
     forall j, j < first_true l -> nth j l false = false) /\
  (existsb (fun b => b) l = false -> first_true l = 0).
Proof.
  induction l as [|b r IH]; simpl.
  - split; [discriminate|reflexivity].
  - destruct b; simpl.
    + split; [|discriminate]. intros _. split; [lia|]. split; [reflexivity|]. intros j Hj. lia.
    + destruct IH as [IH1 IH2]. destruct (existsb (fun b => b) r) eqn:E.
      * split; [|discriminate]. intros _. destruct (IH1 eq_refl) as (H1 & H2 & H3).
        split; [lia|]. split; [exact H2|]. intros [|j] Hj; [reflexivity|]. apply H3. lia.
      * split; [discriminate|reflexivity].
Qed.

Lemma existsb_id_nth l : existsb (fun b => b) l = true <-> exists j, j < length l /\ nth j l false = true.
Proof.
  rewrite existsb_exists. split.
  - intros (x & Hin & ->). destruct (In_nth _ _ false Hin) as (j & Hj & E). eauto.
  - intros (j & Hj & E). exists true. split; [|reflexivity]. rewrite <- E. now apply nth_In.
Qed.

(* folds of vmax over lists without undefined entries *)
Definition defined (v : val) : Prop := v <> VUndef.

Lemma vmax_defined a b : defined a -> defined b -> defined (vmax a b).
Proof. unfold defined. destruct a, b; simpl; congruence. Qed.

Lemma vmax_cases a b : defined a -> defined b -> vmax a b = a \/ vmax a b = b.
Proof. unfold defined. destruct a, b; simpl; try tauto. destruct (Qleb q q0); tauto. Qed.

Lemma vle_refl a : defined a -> vle a a.
Proof. unfold defined. destruct a; simpl; try tauto. intros _. apply Qle_refl. Qed.

Lemma vle_trans a b c : vle a b -> vle b c -> vle a c.
Proof. destruct a, b, c; simpl; try tauto. apply Qle_trans. Qed.

Lemma Qleb_false_lt x y : Qleb x y = false -> (y <= x)%Q.
Proof.
  unfold Qleb. intros H. destruct (Qlt_le_dec y x) as [L|L]; [now apply Qlt_le_weak|].
  apply Qle_bool_iff in L. congruence.
Qed.

Lemma vmax_ub_l a b : defined a -> defined b -> vle a (vmax a b).
Proof.
  unfold defined. destruct a, b; simpl; try tauto; try (intros; apply Qle_refl).
  intros _ _. destruct (Qleb q q0) eqn:E; [now apply Qle_bool_iff|apply Qle_refl].
Qed.

Lemma vmax_ub_r a b : defined a -> defined b -> vle b (vmax a b).
Proof.
  unfold defined. destruct a, b; simpl; try tauto; try (intros; apply Qle_refl).
  intros _ _. destruct (Qleb q q0) eqn:E; [apply Qle_refl|now apply Qleb_false_lt].
Qed.

Lemma fold_vmax_spec init l : defined init -> Forall defined l ->
  let m := fold_right vmax init l in
  defined m /\ vle init m /\ (forall x, In x l -> vle x m) /\ (m = init \/ In m l).
Proof.
  intros Hi Hl. induction Hl as [|x r Hx Hr IH]; simpl.
  - split; [exact Hi|]. split; [now apply vle_refl|]. split; [tauto|tauto].
  - destruct IH as (Hd & Hinit & Hub & Hmem).
    set (m := fold_right vmax init r) in *.
    split; [now apply vmax_defined|].
    split; [eapply vle_trans; [exact Hinit|now apply vmax_ub_r]|].
    split.
    + intros y [<-|Hy]; [now apply vmax_ub_l|].
      eapply vle_trans; [apply Hub; exact Hy|now apply vmax_ub_r].
    + destruct (@vmax_cases x m Hx Hd) as [E|E]; rewrite E; [right; now left|].
      destruct Hmem as [->|Hm]; [now left|right; now right].
Qed.

(* reductions over a set of axes: rebuilding the full index *)
Lemma length_axis_mask rank axes : length (axis_mask rank axes) = rank.
Proof. unfold axis_mask. now rewrite map_length, seq_length. Qed.

Lemma interleave_in_bounds :
  forall mask sh keep red,
    length mask = length sh ->
    in_bounds (select_mask mask sh false) keep ->
    in_bounds (select_mask mask sh true) red ->
    in_bounds sh (interleave mask keep red).
Proof.
  induction mask as [|m ms IH]; intros [|x sh] keep red Hlen Hk Hr;
    try (simpl in Hlen; discriminate Hlen).
  - exact I.
  - simpl in Hlen. destruct m; simpl in *.
    + destruct red as [|i red]; [destruct Hr|]. destruct Hr as [Hi Hr]. simpl.
      split; [exact Hi|]. apply IH; [lia|exact Hk|exact Hr].
    + destruct keep as [|i keep]; [destruct Hk|]. destruct Hk as [Hi Hk]. simpl.
      split; [exact Hi|]. apply IH; [lia|exact Hk|exact Hr].
Qed.

(* Proofs/C19_Binding.v — a well-formed call through allow_only_kwargs / allow_args binds every   *)
(* value to the parameter of the same name, whatever the order of the keywords, for signatures    *)
(* with positional-only, positional-or-keyword and keyword-only parameters.                        *)
From Coq Require Import Permutation Sorted.
From LCM Require Import Base.Prelude Model.Functools Proofs.SortLemmas Proofs.C19_Wrappers.
Local Open Scope nat_scope.

Section Binding.
Variable V : Type.
Variable v : string -> V.          (* the value intended for each parameter name *)

Definition named (ps : list string) : list (string * V) := map (fun p => (p, v p)) ps.
Definition with_kind (k : kind) (ps : list string) : sig := map (fun p => (p, k)) ps.

Lemma mem_str_iff x l : mem_str x l = true <-> In x l.
Proof.
  unfold mem_str. rewrite existsb_exists. split.
  - intros (y & Hy & E). apply String.eqb_eq in E. now subst.
  - intros H. exists x. split; [exact H|apply String.eqb_refl].
Qed.

Lemma mem_str_false x l : ~ In x l -> mem_str x l = false.
Proof. intros H. apply not_true_is_false. intro E. now apply mem_str_iff in E. Qed.

Lemma names_named ps : map fst (named ps) = ps.
Proof. unfold named. rewrite map_map. simpl. apply map_id. Qed.

(* ---- Python's binding of the converted call ------------------------------------------------- *)
Lemma bind_kwonly ko : NoDup ko ->
  bind (with_kind KwOnly ko) [] (named ko) = POk (named ko).
Proof.
  induction ko as [|p r IH]; intros Hnd; [reflexivity|].
  inversion Hnd as [|? ? Hp Hr]; subst.
  cbn [with_kind map bind named assoc]. rewrite String.eqb_refl. cbn [remove_key]. rewrite String.eqb_refl.
  fold (named r). fold (with_kind KwOnly r). now rewrite (IH Hr).
Qed.

Lemma bind_pk pk ko : NoDup (pk ++ ko) ->
  bind (with_kind PosOrKw pk ++ with_kind KwOnly ko) (map v pk) (named ko) = POk (named (pk ++ ko)).
Proof.
  induction pk as [|p r IH]; intros Hnd.
  - simpl. now apply bind_kwonly.
  - simpl in Hnd. inversion Hnd as [|? ? Hp Hr]; subst.
    cbn [with_kind map app bind]. rewrite names_named.
    rewrite mem_str_false by (intro H; apply Hp; apply in_or_app; now right).
    fold (with_kind PosOrKw r). rewrite (IH Hr). reflexivity.
Qed.

Lemma bind_po po pk ko : NoDup (pk ++ ko) ->
  bind (with_kind PosOnly po ++ with_kind PosOrKw pk ++ with_kind KwOnly ko) (map v (po ++ pk)) (named ko)
  = POk (named (po ++ pk ++ ko)).
Proof.
  intros Hnd. induction po as [|p r IH].
  - simpl. now apply bind_pk.
  - cbn [with_kind map app bind]. fold (with_kind PosOnly r). rewrite IH. reflexivity.
Qed.

(* ---- the conversion of the keywords ---------------------------------------------------------- *)
Lemma index_of_none_not_in x l : index_of x l = None -> ~ In x l.
Proof.
  induction l as [|y r IH]; intros H Hin; [destruct Hin|]. simpl in H.
  destruct (String.eqb_spec x y) as [->|Hne]; [discriminate|].
  destruct (index_of x r); [discriminate|]. destruct Hin as [E|Hin]; [congruence|]. now apply IH.
Qed.

Lemma pos_in_prefix (ps ks : list string) : NoDup (ps ++ ks) ->
  map (pos_in (ps ++ ks)) ps = seq 0 (length ps).
Proof.
  assert (G : forall (ps : list string) pre, NoDup (pre ++ ps ++ ks) ->
                map (fun p => match index_of p (ps ++ ks) with Some i => i | None => 0 end) ps = seq 0 (length ps)).
  { induction ps0 as [|p r IH]; intros pre Hnd; [reflexivity|].
    cbn [app map index_of length seq]. rewrite String.eqb_refl. f_equal.
    assert (Hnd' : NoDup ((pre ++ [p]) ++ r ++ ks)) by (rewrite <- app_assoc; exact Hnd).
    rewrite <- seq_shift, <- (IH (pre ++ [p]) Hnd').
    rewrite map_map. apply map_ext_in. intros x Hx.
    destruct (String.eqb_spec x p) as [->|Hne].
    - exfalso. apply NoDup_remove_2 in Hnd. apply Hnd. apply in_or_app. right. apply in_or_app. now left.
    - destruct (index_of x (r ++ ks)) eqn:Ei; [reflexivity|].
      exfalso. apply (index_of_none_not_in x (r ++ ks) Ei). apply in_or_app. now left. }
  intros Hnd. apply (G ps []). exact Hnd.
Qed.

Lemma pos_in_suffix (ps ks : list string) : NoDup (ps ++ ks) ->
  map (pos_in (ps ++ ks)) ks = seq (length ps) (length ks).
Proof.
  revert ks. induction ps as [|p r IH]; intros ks Hnd2.
  - simpl. rewrite <- (app_nil_r ks) at 1. rewrite <- (app_nil_r ks) in Hnd2. now apply pos_in_prefix.
  - simpl in Hnd2. inversion Hnd2 as [|? ? Hp Hr]; subst. cbn [length]. rewrite <- seq_shift, <- (IH ks Hr), map_map.
    apply map_ext_in. intros x Hx. unfold pos_in. cbn [app index_of].
    destruct (String.eqb_spec x p) as [->|Hne]; [exfalso; apply Hp; apply in_or_app; now right|].
    destruct (index_of x (r ++ ks)) eqn:Ei; [reflexivity|].
    exfalso. apply (index_of_none_not_in x (r ++ ks) Ei). apply in_or_app. now right.
Qed.

Lemma firstn_length_app_map {A B} (f : A -> B) (l1 l2 : list A) :
  firstn (length l1) (map f l1 ++ map f l2) = map f l1.
Proof. induction l1 as [|x r IH]; simpl; [reflexivity|]. now rewrite IH. Qed.

Lemma skipn_length_app_l {A} (l1 l2 : list A) : skipn (length l1) (l1 ++ l2) = l2.
Proof. induction l1 as [|x r IH]; simpl; [reflexivity|]. exact IH. Qed.

Lemma sorted_of_seq {A} (k : A -> nat) (l : list A) a : map k l = seq a (length l) ->
  StronglySorted (le_k A k) l /\ NoDup (map k l).
Proof.
  revert a. induction l as [|x r IH]; intros a H; simpl in *; [split; constructor|].
  injection H as Hx Hr. destruct (IH (S a) Hr) as [Hs Hn]. split.
  - constructor; [exact Hs|]. rewrite Forall_forall. intros y Hy. unfold le_k.
    assert (In (k y) (seq (S a) (length r))) by (rewrite <- Hr; now apply in_map).
    apply in_seq in H. lia.
  - constructor; [|exact Hn]. rewrite Hr, Hx. intro X. apply in_seq in X. lia.
Qed.

Lemma filter_perm {A} (f : A -> bool) l l' : Permutation l l' -> Permutation (filter f l) (filter f l').
Proof.
  induction 1 as [|x l l' _ IH|x y l|l l' l'' _ IH1 _ IH2]; simpl.
  - constructor.
  - destruct (f x); [now constructor|exact IH].
  - destruct (f x), (f y); try reflexivity. apply perm_swap.
  - now transitivity (filter f l').
Qed.

Lemma assoc_named p ps : In p ps -> assoc p (named ps) = Some (v p).
Proof.
  induction ps as [|x r IH]; intros H; [destruct H|]. simpl.
  destruct (String.eqb_spec p x) as [->|Hne]; [reflexivity|]. apply IH. destruct H; [congruence|assumption].
Qed.

Lemma assoc_perm (l l' : list (string * V)) p : NoDup (map fst l) -> Permutation l l' -> assoc p l = assoc p l'.
Proof.
  intros Hnd P. induction P as [|[k x] l l' _ IH|[k1 x1] [k2 x2] l|l l' l'' P1 IH1 P2 IH2].
  - reflexivity.
  - simpl in *. inversion Hnd; subst. destruct (String.eqb p k); [reflexivity|now apply IH].
  - simpl in *. destruct (String.eqb_spec p k2) as [E2|H2], (String.eqb_spec p k1) as [E1|H1]; try reflexivity.
    subst. inversion Hnd as [|? ? Hn _]; subst. exfalso. apply Hn. now left.
  - rewrite IH1 by exact Hnd. apply IH2.
    eapply Permutation_NoDup; [apply Permutation_map; exact P1|exact Hnd].
Qed.

Lemma filter_all_true {A} (f : A -> bool) l : (forall x, In x l -> f x = true) -> filter f l = l.
Proof.
  induction l as [|x r IH]; intros H; simpl; [reflexivity|].
  rewrite (H x) by (now left). f_equal. apply IH. intros y Hy. apply H. now right.
Qed.
Lemma filter_all_false {A} (f : A -> bool) l : (forall x, In x l -> f x = false) -> filter f l = [].
Proof.
  induction l as [|x r IH]; intros H; simpl; [reflexivity|].
  rewrite (H x) by (now left). apply IH. intros y Hy. apply H. now right.
Qed.
Lemma NoDup_disjoint {A} (l1 l2 : list A) x : NoDup (l1 ++ l2) -> In x l1 -> In x l2 -> False.
Proof.
  induction l1 as [|y r IH]; intros H H1 H2; [destruct H1|].
  simpl in H. inversion H as [|? ? Hn Hr]; subst. destruct H1 as [->|H1].
  - apply Hn. apply in_or_app. now right.
  - now apply IH.
Qed.

Lemma insert_by_is_ins (idx : string -> nat) (x : string * V) l :
  insert_by idx x l = ins _ (fun kv : string * V => idx (fst kv)) x l.
Proof. induction l as [|y r IH]; simpl; [reflexivity|]. now rewrite IH. Qed.

Lemma sort_by_is_isort (idx : string -> nat) (l : list (string * V)) :
  sort_by idx l = isort _ (fun kv : string * V => idx (fst kv)) l.
Proof.
  unfold sort_by, isort. generalize (@nil (string * V)). induction l as [|x r IH]; intros acc; simpl; [reflexivity|].
  now rewrite insert_by_is_ins, IH.
Qed.

Lemma bind_all_by_keyword (t : sig) :
  Forall (fun pk0 => snd pk0 <> PosOnly) t -> NoDup (names t) ->
  bind t [] (named (names t)) = POk (named (names t)).
Proof.
  induction t as [|[p k] r IH]; intros Hk Hnd2; [reflexivity|].
  inversion Hk as [|? ? Hk1 Hkr]; subst. cbn [names map fst] in Hnd2. inversion Hnd2 as [|? ? Hp Hr]; subst.
  destruct k; [simpl in Hk1; congruence| |];
    cbn [names map fst named bind assoc]; rewrite String.eqb_refl; cbn [remove_key]; rewrite String.eqb_refl;
    change (map (fun p0 : string => (p0, v p0)) (map fst r)) with (named (names r));
    rewrite (IH Hkr Hr); reflexivity.
Qed.

Lemma bind_po_then_keywords (po : list string) (t : sig) :
  Forall (fun pk0 => snd pk0 <> PosOnly) t -> NoDup (names t) ->
  bind (with_kind PosOnly po ++ t) (map v po) (named (names t)) = POk (named (po ++ names t)).
Proof.
  intros Hk Hnd2. induction po as [|p r IH].
  - simpl. now apply bind_all_by_keyword.
  - cbn [with_kind map app bind]. fold (with_kind PosOnly r). rewrite IH. reflexivity.
Qed.

Lemma zip_strict_named (ps : list string) : zip_strict ps (map v ps) = POk (named ps).
Proof. induction ps as [|p r IH]; [reflexivity|]. cbn [map zip_strict named]. fold (named r). now rewrite IH. Qed.


Lemma filter_kwonly_kw l :
  map fst (filter (fun p : string * kind => kind_eqb (snd p) KwOnly) (map (fun p => (p, KwOnly)) l)) = l.
Proof. induction l as [|x r IH]; simpl; [reflexivity|]. now rewrite IH. Qed.

Section Call.
Variables (po pk ko : list string).
Let s : sig := with_kind PosOnly po ++ with_kind PosOrKw pk ++ with_kind KwOnly ko.
Hypothesis Hnd : NoDup (po ++ pk ++ ko).

Lemma names_s : names s = po ++ pk ++ ko.
Proof. unfold s, names, with_kind. rewrite !map_app, !map_map. simpl. now rewrite !map_id. Qed.

Lemma kwonly_s : map fst (filter (fun p => kind_eqb (snd p) KwOnly) s) = ko.
Proof.
  unfold s, with_kind. rewrite !filter_app, !map_app.
  assert (E1 : forall k ps, kind_eqb k KwOnly = false ->
            filter (fun p : string * kind => kind_eqb (snd p) KwOnly) (map (fun p => (p, k)) ps) = []).
  { intros k ps Hk. induction ps as [|x r IH]; simpl; [reflexivity|]. now rewrite Hk. }
  rewrite (E1 PosOnly po eq_refl), (E1 PosOrKw pk eq_refl). simpl. apply filter_kwonly_kw.
Qed.

(* the keywords of the call: every parameter once, in ANY order *)
Variable kw : kwargs V.
Hypothesis Hkw : Permutation kw (named (po ++ pk ++ ko)).

Lemma kw_keys_nodup : NoDup (map fst kw).
Proof.
  eapply Permutation_NoDup; [apply Permutation_sym, Permutation_map; exact Hkw|].
  now rewrite names_named.
Qed.

Lemma kw_lookup p : In p (po ++ pk ++ ko) -> assoc p kw = Some (v p).
Proof. intros H. rewrite (assoc_perm kw _ p kw_keys_nodup Hkw). now apply assoc_named. Qed.

Lemma kw_only_part : lookup_all ko kw = named ko.
Proof.
  unfold lookup_all. assert (G : forall l, (forall p, In p l -> In p (po ++ pk ++ ko)) ->
    flat_map (fun k => match assoc k kw with Some x => [(k, x)] | None => [] end) l = named l).
  { induction l as [|p r IH]; intros H; [reflexivity|]. simpl. rewrite kw_lookup by (apply H; now left).
    simpl. f_equal. apply IH. intros q Hq. apply H. now right. }
  apply G. intros p Hp. apply in_or_app. right. apply in_or_app. now right.
Qed.

Lemma positional_part :
  map snd (sort_by (pos_in (names s)) (filter (fun kv => negb (mem_str (fst kv) ko)) kw)) = map v (po ++ pk).
Proof.
  set (f := fun kv : string * V => negb (mem_str (fst kv) ko)).
  assert (Ef : filter f (named (po ++ pk ++ ko)) = named (po ++ pk)).
  { rewrite app_assoc. unfold named. rewrite map_app, filter_app.
    assert (E1 : filter f (map (fun p => (p, v p)) (po ++ pk)) = map (fun p => (p, v p)) (po ++ pk)).
    { apply filter_all_true. intros x Hx. apply in_map_iff in Hx. destruct Hx as (p & <- & Hp). unfold f. simpl.
      rewrite mem_str_false; [reflexivity|]. intro Hk. rewrite app_assoc in Hnd.
      apply (NoDup_disjoint _ _ p Hnd Hp Hk). }
    assert (E2 : filter f (map (fun p => (p, v p)) ko) = []).
    { apply filter_all_false. intros x Hx. apply in_map_iff in Hx. destruct Hx as (p & <- & Hp). unfold f. simpl.
      apply negb_false_iff. now apply mem_str_iff. }
    now rewrite E1, E2, app_nil_r. }
  assert (P : Permutation (named (po ++ pk)) (filter f kw)).
  { rewrite <- Ef. apply Permutation_sym, filter_perm. exact Hkw. }
  assert (Hk : map (fun kv : string * V => pos_in (names s) (fst kv)) (named (po ++ pk)) = seq 0 (length (named (po ++ pk)))).
  { unfold named. rewrite map_map, map_length. simpl. rewrite names_s, app_assoc.
    apply pos_in_prefix. now rewrite <- app_assoc. }
  destruct (sorted_of_seq (fun kv : string * V => pos_in (names s) (fst kv)) (named (po ++ pk)) 0 Hk) as [Hs Hn].
  rewrite sort_by_is_isort.
  rewrite (isort_is_the_sorted_list _ _ (filter f kw) (named (po ++ pk)) Hs P).
  - unfold named. rewrite map_map. reflexivity.
  - eapply Permutation_NoDup; [apply Permutation_map; exact P|exact Hn].
Qed.

Theorem allow_only_kwargs_binds_by_name :
  allow_only_kwargs s (bind s) [] kw = POk (named (names s)).
Proof.
  unfold allow_only_kwargs. rewrite kwonly_s.
  assert (Hkeys : forall x, In x (map fst kw) <-> In x (names s)).
  { intros x. rewrite names_s. rewrite <- (names_named (po ++ pk ++ ko)).
    split; apply Permutation_in; [apply Permutation_map; exact Hkw|apply Permutation_sym, Permutation_map; exact Hkw]. }
  assert (S1 : subset (map fst kw) (names s) = true) by (apply subset_spec; intros x Hx; now apply Hkeys).
  assert (S2 : subset (names s) (map fst kw) = true) by (apply subset_spec; intros x Hx; now apply Hkeys).
  rewrite S1, S2. cbn [negb]. rewrite kw_only_part.
  unfold convert_kwargs_to_args.
  assert (S3 : subset (map fst (filter (fun kv => negb (mem_str (fst kv) ko)) kw)) (names s) = true).
  { apply subset_spec. intros x Hx. apply Hkeys. apply in_map_iff in Hx. destruct Hx as (kv & <- & Hin).
    apply filter_In in Hin. apply in_map. tauto. }
  rewrite S3, positional_part. unfold s at 1. rewrite bind_po, names_s; [reflexivity|].
  clear - Hnd. induction po as [|x r IH]; [exact Hnd|]. apply IH. simpl in Hnd. now inversion Hnd.
Qed.

(* ---- allow_args: the first parameters positionally, the remaining ones by keyword ------------- *)
Variable n_pos : nat.         (* how many leading parameters are passed positionally *)
Hypothesis Hn : n_pos <= length (po ++ pk).       (* keyword-only parameters cannot be positional *)
Variable kw2 : kwargs V.
Hypothesis Hkw2 : Permutation kw2 (named (skipn n_pos (po ++ pk ++ ko))).

Theorem allow_args_binds_by_name :
  allow_args s (bind s) (map v (firstn n_pos (po ++ pk ++ ko))) kw2 = POk (named (names s)).
Proof.
  set (all := po ++ pk ++ ko) in *.
  assert (Hlen : n_pos <= length all).
  { unfold all. rewrite app_assoc, app_length. lia. }
  assert (Hkeys : forall x, In x (map fst kw2) <-> In x (skipn n_pos all)).
  { intros x. rewrite <- (names_named (skipn n_pos all)).
    split; apply Permutation_in; [apply Permutation_map; exact Hkw2|apply Permutation_sym, Permutation_map; exact Hkw2]. }
  unfold allow_args. rewrite names_s. fold all.
  rewrite map_length, firstn_length, (Nat.min_l _ _ Hlen).
  assert (Hc : length kw2 = length all - n_pos).
  { rewrite (Permutation_length Hkw2). unfold named. now rewrite map_length, skipn_length. }
  assert (E1 : (n_pos + length kw2 =? length all) = true) by (apply Nat.eqb_eq; lia).
  rewrite E1. cbn [negb].
  assert (E2 : same_set (map fst kw2) (skipn n_pos all) = true).
  { unfold same_set. apply andb_true_iff. split; apply subset_spec; intros x Hx; now apply Hkeys. }
  rewrite E2. cbn [negb].
  unfold convert_kwargs_to_args.
  assert (E3 : subset (map fst kw2) all = true).
  { apply subset_spec. intros x Hx. apply Hkeys in Hx. rewrite <- (firstn_skipn n_pos all). apply in_or_app. now right. }
  rewrite E3.
  (* the converted keywords are the remaining parameters in signature order *)
  assert (Hconv : map snd (sort_by (pos_in all) kw2) = map v (skipn n_pos all)).
  { rewrite sort_by_is_isort.
    assert (Hk : map (fun kv : string * V => pos_in all (fst kv)) (named (skipn n_pos all))
                 = seq n_pos (length (named (skipn n_pos all)))).
    { unfold named. rewrite map_map, map_length. cbn [fst].
      pose proof (pos_in_suffix (firstn n_pos all) (skipn n_pos all)) as P.
      rewrite firstn_skipn in P. specialize (P Hnd). rewrite firstn_length, (Nat.min_l _ _ Hlen) in P. exact P. }
    destruct (sorted_of_seq (fun kv : string * V => pos_in all (fst kv)) (named (skipn n_pos all)) n_pos Hk) as [Hs Hnk].
    rewrite (isort_is_the_sorted_list _ _ kw2 (named (skipn n_pos all)) Hs (Permutation_sym Hkw2)).
    - unfold named. now rewrite map_map.
    - eapply Permutation_NoDup; [apply Permutation_map, Permutation_sym; exact Hkw2|exact Hnk]. }
  rewrite Hconv, <- map_app, firstn_skipn.
  (* positional-only prefix and the keyword part *)
  assert (Hpo : length (filter (fun p : string * kind => kind_eqb (snd p) PosOnly) s) = length po).
  { unfold s, with_kind. rewrite !filter_app, !app_length.
    assert (F1 : forall l, length (filter (fun p : string * kind => kind_eqb (snd p) PosOnly) (map (fun p => (p, PosOnly)) l)) = length l)
      by (induction l as [|x r IH]; simpl; [reflexivity|]; now rewrite IH).
    assert (F2 : forall k l, kind_eqb k PosOnly = false ->
              length (filter (fun p : string * kind => kind_eqb (snd p) PosOnly) (map (fun p => (p, k)) l)) = 0)
      by (intros k l Hk; induction l as [|x r IH]; simpl; [reflexivity|]; now rewrite Hk).
    rewrite F1, (F2 PosOrKw pk eq_refl), (F2 KwOnly ko eq_refl). lia. }
  rewrite Hpo. unfold all.
  rewrite map_app, firstn_length_app_map, !skipn_length_app_l.
  rewrite <- (map_length v po), skipn_length_app_l.
  rewrite zip_strict_named.
  replace (pk ++ ko) with (names (with_kind PosOrKw pk ++ with_kind KwOnly ko)).
  2:{ unfold names, with_kind. rewrite map_app, !map_map. simpl. now rewrite !map_id. }
  unfold s. rewrite bind_po_then_keywords.
  - unfold names, with_kind. rewrite !map_app, !map_map. simpl. now rewrite !map_id.
  - apply Forall_app. split; apply Forall_forall; intros x Hx; apply in_map_iff in Hx; destruct Hx as (q & <- & _); discriminate.
  - unfold names, with_kind. rewrite map_app, !map_map. simpl. rewrite !map_id.
    clear - Hnd. induction po as [|x r IH]; [exact Hnd|]. apply IH. simpl in Hnd. now inversion Hnd.
Qed.
End Call.
End Binding.

(* Proofs/C01_Solve.v — ALL PERIODS: the arrays lcm's solve returns satisfy the Bellman equation of the      *)
(* specification (models without filter-restricted variables).  The regenerated driver (Gen/SolveBrute.v) and  *)
(* glue (Gen/EntryPoint.v), instantiated with the per-period components of Proofs/C01_Period.v (regenerated    *)
(* u_and_f of both branches at every grid point, product maps, regenerated compute_ccv and no-shock reduction), *)
(* return a list V with: V_t at position (ds ++ cs) is the specification's value_at of that state, where the    *)
(* next value function is V_{t+1} ITSELF, read as a table in the documented layout; no continuation in the last *)
(* period.                                                                                                      *)
From Coq Require Import Lqa Lia Permutation.
From LCM Require Import Base.Prelude Base.Arr Base.ArrOps Model.Dispatchers Model.DispatchersG Model.FunctionRepresentation
                        Gen.DiscreteNoShocks Gen.CCV Gen.ModelFunctions Gen.EntryPoint Gen.ChoiceAxes Gen.SolveDiscrete.
From LCM Require Import Spec.Lang Spec.Bellman Proofs.ArrLemmas Proofs.ArrLemmas2 Proofs.C14_Refine Proofs.C14_OnLayout
                        Proofs.C18_AxesFilterFree Proofs.C01_EntryPoint Proofs.C01_Compose Proofs.C01_MaxCompose Proofs.C01_Period.
Local Open Scope nat_scope.

(* ---- the array of a period read as a table indexed in declaration order ------------------------------------ *)
Fixpoint dpart (sts : list (string * grid)) (idx : list nat) : list nat :=
  match sts, idx with
  | (_, GDisc _) :: r, k :: i => k :: dpart r i
  | (_, GLin _ _ _) :: r, _ :: i => dpart r i
  | _, _ => []
  end.
Fixpoint cpart (sts : list (string * grid)) (idx : list nat) : list nat :=
  match sts, idx with
  | (_, GDisc _) :: r, _ :: i => cpart r i
  | (_, GLin _ _ _) :: r, k :: i => k :: cpart r i
  | _, _ => []
  end.

Lemma parts_of_merge : forall sts dl ci, length dl = length (dsizes sts) -> length ci = length (cont_sizes sts) ->
  dpart sts (merge sts dl ci) = dl /\ cpart sts (merge sts dl ci) = ci.
Proof.
  induction sts as [|[x g] r IH]; intros dl ci Hd Hc.
  - destruct dl; [|discriminate]. destruct ci; [|discriminate]. now split.
  - destruct g as [n|a b n]; cbn [dsizes cont_sizes length merge] in *.
    + destruct dl as [|k dl']; [discriminate|]. cbn [dpart cpart]. destruct (IH dl' ci) as [E1 E2]; [simpl in Hd; lia|exact Hc|].
      now rewrite E1, E2.
    + destruct ci as [|k ci']; [discriminate|]. cbn [dpart cpart]. destruct (IH dl ci') as [E1 E2]; [exact Hd|simpl in Hc; lia|].
      now rewrite E1, E2.
Qed.

Definition fin_of (v : val) : Q := match v with VFin q => q | _ => 0%Q end.
Definition qarr_of (V : arr val) : qarr := mkArr (shape V) (map fin_of (data V)).
Definition table_of (sts : list (string * grid)) (V : arr val) (idx : list nat) : Q :=
  fin_of (get VUndef V (dpart sts idx ++ cpart sts idx)).

Lemma get_qarr_of V idx : get 0%Q (qarr_of V) idx = fin_of (get VUndef V idx).
Proof. unfold get, qarr_of. cbn [shape data]. change 0%Q with (fin_of VUndef). apply map_nth. Qed.

Lemma layout_array_of_table sts V : wf V -> shape V = (dsizes sts ++ cont_sizes sts)%list ->
  layout_array sts (table_of sts V) = qarr_of V.
Proof.
  intros W S.
  assert (Wq : wf (qarr_of V)) by (unfold wf, qarr_of in *; cbn [shape data]; now rewrite map_length).
  rewrite (arr_is_tabulate 0%Q (qarr_of V) Wq). unfold layout_array, qarr_of at 1. cbn [shape]. rewrite S.
  unfold tabulate. f_equal. apply map_ext_in. intros lidx Hin. apply in_indices in Hin.
  rewrite get_qarr_of. unfold table_of.
  pose proof (in_bounds_length _ _ Hin) as L. rewrite app_length in L.
  destruct (parts_of_merge sts (firstn (length (dsizes sts)) lidx) (skipn (length (dsizes sts)) lidx)) as [E1 E2].
  - rewrite firstn_length. lia.
  - rewrite skipn_length. lia.
  - now rewrite E1, E2, firstn_skipn.
Qed.

(* discrete and continuous states, each group in declaration order: the axes of a period's array *)
Definition dstates (sts : list (string * grid)) : list (string * grid) := filter (fun sg => negb (is_cont (snd sg))) sts.
Definition cstates (sts : list (string * grid)) : list (string * grid) := filter (fun sg => is_cont (snd sg)) sts.
Lemma sizes_dstates sts : sizes (dstates sts) = dsizes sts.
Proof. induction sts as [|[x [n|a b n]] r IH]; cbn; [reflexivity| |exact IH]. now rewrite <- IH. Qed.
Lemma sizes_cstates sts : sizes (cstates sts) = cont_sizes sts.
Proof. induction sts as [|[x [n|a b n]] r IH]; cbn; [reflexivity|exact IH|]. now rewrite <- IH. Qed.

(* ---- the scalar value function on the array vf_arr itself ---------------------------------------------------- *)
Definition FR_arr (sts : list (string * grid)) (vf : qarr) (vals : list Q) : Q :=
  match disc_labels sts vals with
  | Some dl => function_representation vf None [] (map Z.of_nat dl) (conts_of sts vals)
  | None => 0%Q
  end.
Lemma FR_free_is_FR_arr sts F : FR_free sts F = FR_arr sts (layout_array sts F).
Proof. reflexivity. Qed.

Section Solve.
Variables (m : model) (p : params) (n : nat) (dch cch : list (string * grid)).
Let sts := states m.
Let dst := dstates sts.
Let cst := cstates sts.
Hypothesis Hperm : Permutation (dch ++ cch) (choices m).
Hypothesis Hnd : NoDup (map fst (choices m)).
Hypothesis Hnds : NoDup (map fst sts).
Hypothesis Hvalid : grids_valid sts.
(* states and choices have different names *)
Hypothesis Hnames : NoDup (map fst (dst ++ dch ++ cst ++ cch)).

(* utility_and_feasibility of period t at scalar arguments, given the array of the next period *)
Definition uf_code_arr (t : nat) (vf : qarr) (vals : list Q) : val * bool :=
  let e := env_of_vals t dst dch cst cch vals in
  let cv := code_value m p (det_of m p e) (rows_of m p e) (u_of m p e) bool (feasible m p e) t [] (FR_arr sts vf) in
  (VFin (fst cv), snd cv).

Definition T_uf := option (arr val) -> list Q -> val * bool.
Definition T_ccv := option (arr val) -> list qarr -> arr val.
Definition the_get_uf (_ : unit) (t : nat) (is_last : bool) : T_uf :=
  fun vf => if is_last then uf_code_last m p t dst dch cst cch
            else uf_code_arr t (match vf with Some a => qarr_of a | None => scalar 0%Q end).
Definition the_create_ccv (uf : T_uf) : T_ccv := fun vf => ccv_point dst dch cst cch (uf vf).
Definition the_scp (_ : unit) (ccv : T_ccv) (_ : unit) (vf : option (arr val)) (_ : unit) (_ : unit) : arr val :=
  base_productmapG (ccv vf) (seq 0 (length (gv (dst ++ dch ++ cst))))
                   (map (fun g => vec g) (gv (dst ++ dch ++ cst)) ++ map (fun g => vec g) (gv cch)).
(* get_solve_discrete_problem (regenerated, Gen/SolveDiscrete.v) on the variable_info of the model: discrete states,
   discrete choices, continuous states, continuous choices; nothing sparse, nothing auxiliary; no choice segments *)
Definition T_calc := arr val -> unit -> arr val.
Definition the_get_sdp (is_last : bool) (_ : unit) : T_calc := get_solve_discrete_problem (vi_of dst dch cst cch) is_last None.
Definition the_emax (calc : T_calc) (cc : arr val) (_ : unit) : arr val := calc cc tt.

(* what get_lcm_function(model, "solve") returns: the regenerated glue and driver with these components *)
Definition code_solve : list (arr val) :=
  lcm_solve unit unit unit unit unit unit T_uf T_ccv unit T_calc (arr val) (arr val) tt tt tt tt tt
            (fun _ _ => (tt, tt, tt, tt)) the_get_uf the_create_ccv (fun _ => tt) the_get_sdp tt tt tt
            (fun _ _ => scalar VUndef) (fun cc _ => cc) the_scp the_emax n tt.

Lemma code_solve_period t : t < n ->
  nth t code_solve (scalar VUndef)
  = V_array dst dch cst cch
      (the_get_uf tt t (t =? n - 1) (if S t =? n then None else Some (nth (S t) code_solve (scalar VUndef)))).
Proof.
  intros Ht. unfold code_solve. rewrite lcm_solve_recursion by exact Ht. cbn [fst snd].
  unfold the_emax, the_get_sdp. rewrite (solve_discrete_of_filter_free dst dch cst cch Hnames).
  exact (V_array_with_the_codes_axes dst dch cst cch _).
Qed.

Lemma V_array_shape (dst' dch' cst' cch' : list (string * grid)) uf :
  wf (V_array dst' dch' cst' cch' uf) /\ shape (V_array dst' dch' cst' cch' uf) = (sizes dst' ++ sizes cst')%list.
Proof.
  unfold V_array, solve_discrete_problem_no_shocks, amax_axes, reduce_axes. split; [apply wf_tabulate|].
  rewrite shape_tabulate, mask_is_block. destruct (cc_shape dst' dch' cst' cch' uf) as [_ S]. rewrite S.
  assert (Lm : forall vars, length (sizes vars) = length vars) by (intros; unfold sizes; now rewrite map_length).
  rewrite <- (Lm dst'), <- (Lm dch'), <- (Lm cst'). exact (select_mask_block (sizes dst') (sizes dch') (sizes cst') false).
Qed.

(* the next period's array as the table the specification reads *)
Definition next_table (t : nat) : list nat -> Q := table_of sts (nth (S t) code_solve (scalar VUndef)).

Lemma uf_of_period t : S t < n ->
  the_get_uf tt t (t =? n - 1) (if S t =? n then None else Some (nth (S t) code_solve (scalar VUndef)))
  = uf_code m p t (next_table t) dst dch cst cch.
Proof.
  intros Ht. replace (t =? n - 1) with false by (symmetry; apply Nat.eqb_neq; lia).
  replace (S t =? n) with false by (symmetry; apply Nat.eqb_neq; lia).
  unfold the_get_uf, uf_code_arr, uf_code. rewrite FR_free_is_FR_arr. unfold next_table.
  rewrite layout_array_of_table; [reflexivity| |].
  - rewrite (code_solve_period (S t) Ht). apply V_array_shape.
  - rewrite (code_solve_period (S t) Ht). rewrite (proj2 (V_array_shape _ _ _ _ _)). unfold dst, cst.
    now rewrite sizes_dstates, sizes_cstates.
Qed.

Lemma uf_code_arr_of_solved t : S t < n ->
  uf_code_arr t (qarr_of (nth (S t) code_solve (scalar VUndef))) = uf_code m p t (next_table t) dst dch cst cch.
Proof.
  intros Ht. pose proof (uf_of_period t Ht) as E.
  replace (t =? n - 1) with false in E by (symmetry; apply Nat.eqb_neq; lia).
  replace (S t =? n) with false in E by (symmetry; apply Nat.eqb_neq; lia). exact E.
Qed.

Lemma code_solve_length : 1 <= n -> length code_solve = n.
Proof. intros H. unfold code_solve. now apply lcm_solve_length. Qed.

Lemma uf_of_last_period t : S t = n ->
  the_get_uf tt t (t =? n - 1) (if S t =? n then None else Some (nth (S t) code_solve (scalar VUndef)))
  = uf_code_last m p t dst dch cst cch.
Proof. intros Ht. replace (t =? n - 1) with true by (symmetry; apply Nat.eqb_eq; lia). reflexivity. Qed.

(* THE BELLMAN EQUATION holds for what solve returns, in every period and at every state of the grid *)
Theorem code_solve_satisfies_the_bellman_equation t ds cs :
  t < n ->
  (* the model evaluates at every grid point of period t, the next table being the next array *)
  (S t < n -> forall ds' dc cs' cc,
     in_bounds (sizes dst) ds' -> in_bounds (sizes dch) dc -> in_bounds (sizes cst) cs' -> in_bounds (sizes cch) cc ->
     evaluates_at m p (next_table t) (spec_env t dst dch cst cch ds' dc cs' cc)) ->
  (S t = n -> forall ds' dc cs' cc,
     in_bounds (sizes dst) ds' -> in_bounds (sizes dch) dc -> in_bounds (sizes cst) cs' -> in_bounds (sizes cch) cc ->
     exists u, eval_fun (depth m) m p (spec_env t dst dch cst cch ds' dc cs' cc) "utility" = Some u) ->
  in_bounds (sizes dst) ds -> in_bounds (sizes cst) cs ->
  veq (get VUndef (nth t code_solve (scalar VUndef)) (ds ++ cs))
      (value_at m p t (t =? n - 1) (fun idx => VFin (next_table t idx)) (env_of_idx dst ds ++ env_of_idx cst cs)).
Proof.
  intros Ht Hev Hlast Hds Hcs. rewrite (code_solve_period t Ht).
  destruct (Nat.eq_dec (S t) n) as [E|E].
  - rewrite (uf_of_last_period t E). replace (t =? n - 1) with true by (symmetry; apply Nat.eqb_eq; lia).
    exact (last_period_of_the_code_is_the_specifications m p t (fun idx => VFin (next_table t idx)) dst dch cst cch
             Hperm Hnd (Hlast E) ds cs Hds Hcs).
  - assert (Ht' : S t < n) by lia. rewrite (uf_of_period t Ht'). replace (t =? n - 1) with false by (symmetry; apply Nat.eqb_neq; lia).
    exact (period_of_the_code_is_the_specifications m p t (next_table t) dst dch cst cch Hperm Hnd Hnds Hvalid (Hev Ht') ds cs Hds Hcs).
Qed.
End Solve.

(* Proofs/C16_Validate.v — the translated validator decides exactly spec_accepts    *)
(* and never raises TypeError.                                                       *)
From Coq Require Import Lqa Setoid.
From LCM Require Import Base.Prelude Base.PyVal Gen.GridValidate Spec.Interp Spec.GridRules Proofs.QLemmas.
Local Open Scope Q_scope.
Set Implicit Arguments.

Lemma Qltb_spec a b : reflect (a < b) (Qltb a b).
Proof. apply iff_reflect. symmetry. apply Qltb_lt. Qed.
Lemma Qeqb_spec a b : reflect (a == b) (Qeqb a b).
Proof. apply iff_reflect. symmetry. apply Qeqb_eq. Qed.
Lemma Qleb_spec a b : reflect (a <= b) (Qleb a b).
Proof. apply iff_reflect. symmetry. apply Qleb_le. Qed.

Lemma float_max_pos : 0 < float_max_Q.
Proof. unfold float_max_Q. change 0 with (inject_Z 0). rewrite <- Zlt_Qlt. reflexivity. Qed.

Lemma iif_num v :
  py_isinstance_int_float v = match py_num v with Some _ => true | None => false end.
Proof. destruct v as [z|b|f| | |]; reflexivity. Qed.

Lemma inject_Z_lt1 z : (inject_Z z < 1) <-> (z < 1)%Z.
Proof. change 1 with (inject_Z 1). now rewrite <- Zlt_Qlt. Qed.

(* one comparison at a time, pruning contradictory branches as soon as they appear *)
Ltac qcase1 :=
  match goal with
  | |- context [Qltb ?x ?y] => destruct (Qltb_spec x y)
  | |- context [Qeqb ?x ?y] => destruct (Qeqb_spec x y)
  | |- context [Qleb ?x ?y] => destruct (Qleb_spec x y)
  | |- context [Z.leb ?x ?y] => destruct (Z.leb_spec x y)
  end.
Ltac zq :=
  repeat match goal with
         | H : inject_Z _ < inject_Z _ |- _ => rewrite <- Zlt_Qlt in H
         | H : ~ inject_Z _ < inject_Z _ |- _ => rewrite <- Zlt_Qlt in H
         | H : inject_Z _ <= inject_Z _ |- _ => rewrite <- Zle_Qle in H
         | H : ~ inject_Z _ <= inject_Z _ |- _ => rewrite <- Zle_Qle in H
         | H : inject_Z _ == inject_Z _ |- _ => apply inject_Z_injective in H
         | H : ~ inject_Z _ == inject_Z _ |- _ => rewrite inject_Z_injective in H
         | H : inject_Z _ < 1 |- _ => apply inject_Z_lt1 in H
         | H : ~ inject_Z _ < 1 |- _ => rewrite inject_Z_lt1 in H
         | H : inject_Z _ == 1 |- _ => change 1 with (inject_Z 1) in H; apply inject_Z_injective in H
         | H : ~ inject_Z _ == 1 |- _ => change 1 with (inject_Z 1) in H; rewrite inject_Z_injective in H
         end.
Ltac finish := cbn -[Qltb Qeqb Qleb Z.leb inject_Z Qopp]; try reflexivity;
               try (exfalso; zq; change (inject_Z 0) with 0 in *; change (inject_Z 1) with 1 in *; (lia || lra)).
Ltac grind := finish; repeat (qcase1; finish).

Theorem validate_is_spec start stop n_points positive_start :
  validate_continuous_grid start stop n_points positive_start
  = ROk (spec_accepts start stop n_points positive_start).
Proof.
  pose proof float_max_pos as Hfm.
  unfold validate_continuous_grid, spec_accepts, spec_finite, spec_int.
  unfold py_le, py_lt, py_ge, py_gt, py_cmp. rewrite !iif_num.
  unfold py_float_max. fold float_max_Q.
  generalize dependent float_max_Q. intros fm Hfm.
  generalize (py_num start) as ns. generalize (py_num stop) as nt. intros nt ns.
  destruct n_points as [z3|b3|[q3| | |]| | |]; try destruct b3;
  destruct ns as [[q1| | |]|]; destruct nt as [[q2| | |]|]; destruct positive_start;
    unfold f_le, f_lt, f_eq; grind.
Qed.

Theorem accepted_inputs start stop n_points positive_start :
  validate_continuous_grid start stop n_points positive_start = ROk true ->
  exists a b k,
    py_num start = Some (FFin a) /\ py_num stop = Some (FFin b) /\ spec_int n_points = Some k /\
    - float_max_Q <= a /\ a <= float_max_Q /\ - float_max_Q <= b /\ b <= float_max_Q /\
    a < b /\ (1 <= k)%Z /\ (positive_start = true -> 0 < a).
Proof.
  rewrite validate_is_spec. intros H. injection H as H.
  unfold spec_accepts, spec_finite in H.
  destruct (py_num start) as [[a| | |]|]; try discriminate.
  destruct (Qleb (- float_max_Q) a) eqn:A1; [|discriminate].
  destruct (Qleb a float_max_Q) eqn:A2; [|discriminate].
  destruct (py_num stop) as [[b| | |]|]; try discriminate.
  destruct (Qleb (- float_max_Q) b) eqn:B1; [|discriminate].
  destruct (Qleb b float_max_Q) eqn:B2; [|discriminate].
  destruct (spec_int n_points) as [k|]; [|discriminate].
  cbn [andb] in H. apply andb_true_iff in H. destruct H as [H H3].
  apply andb_true_iff in H. destruct H as [H1 H2].
  exists a, b, k. apply Qleb_le in A1, A2, B1, B2. apply Qltb_lt in H1. apply Z.leb_le in H2.
  repeat split; auto.
  intros ->. simpl in H3. now apply Qltb_lt in H3.
Qed.

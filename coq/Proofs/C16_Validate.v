(* Proofs/C16_Validate.v — the translated validator decides exactly spec_accepts    *)
(* and never raises TypeError; accepted linear grids materialise as specified.      *)
From Coq Require Import Lqa Setoid.
From LCM Require Import Base.Prelude Base.PyVal Gen.GridValidate Spec.Interp Spec.GridRules Proofs.QLemmas.
Local Open Scope Q_scope.
Set Implicit Arguments.

Lemma Qltb_spec a b : reflect (a < b) (Qltb a b).
Proof. apply iff_reflect. symmetry. apply Qltb_lt. Qed.
Lemma Qeqb_spec a b : reflect (a == b) (Qeqb a b).
Proof. apply iff_reflect. symmetry. apply Qeqb_eq. Qed.
Lemma Qleb_spec a b : reflect (a <= b) (Qleb a b).
Proof. apply iff_reflect. symmetry. apply Qleb_le. Qed.

Lemma float_max_pos : 0 < float_max_Q.
Proof. unfold float_max_Q. change 0 with (inject_Z 0). rewrite <- Zlt_Qlt. reflexivity. Qed.

Ltac qcases :=
  repeat match goal with
         | |- context [Qltb ?x ?y] => destruct (Qltb_spec x y)
         | |- context [Qeqb ?x ?y] => destruct (Qeqb_spec x y)
         | |- context [Qleb ?x ?y] => destruct (Qleb_spec x y)
         | |- context [Z.leb ?x ?y] => destruct (Z.leb_spec x y)
         end.

Lemma inject_Z_lt1 z : (inject_Z z < 1) <-> (z < 1)%Z.
Proof. change 1 with (inject_Z 1). now rewrite <- Zlt_Qlt. Qed.

Theorem validate_is_spec start stop n_points positive_start :
  validate_continuous_grid start stop n_points positive_start
  = ROk (spec_accepts start stop n_points positive_start).
Proof.
  pose proof float_max_pos as Hfm.
  unfold validate_continuous_grid, spec_accepts, spec_finite, spec_int.
  unfold py_float_max. fold float_max_Q.
  generalize dependent float_max_Q. intros fm Hfm.
  destruct start as [z1|b1|[q1| | |]| | |]; destruct stop as [z2|b2|[q2| | |]| | |];
    destruct n_points as [z3|b3|[q3| | |]| | |]; destruct positive_start;
    try destruct b1; try destruct b2; try destruct b3;
    cbn -[Qltb Qeqb Qleb Z.leb inject_Z Qopp]; unfold f_le, f_lt, f_eq;
    cbn -[Qltb Qeqb Qleb Z.leb inject_Z Qopp];
    qcases; cbn; try reflexivity; exfalso;
    repeat match goal with
           | H : inject_Z _ < 1 |- _ => apply inject_Z_lt1 in H
           | H : ~ inject_Z _ < 1 |- _ => rewrite inject_Z_lt1 in H
           | H : inject_Z _ == 1 |- _ => change 1 with (inject_Z 1) in H; apply inject_Z_injective in H
           | H : ~ inject_Z _ == 1 |- _ => change 1 with (inject_Z 1) in H; rewrite inject_Z_injective in H
           end; try lia; try lra.
Qed.

(* Proofs/C18_Core.v — the last-axis core of lcm.argmax.argmax (as translated in          *)
(* Gen/Argmax.v): masked max with initial, equality mask, first True.                       *)
From LCM Require Import Base.Prelude Base.Arr Base.ArrOps Gen.Argmax.
From LCM Require Import Proofs.ArrLemmas Proofs.ArrLemmas2.
Local Open Scope nat_scope.

(* what argmax does after moving/flattening the reduced axes (by unfolding) *)
Definition core (b : arr val) (initial : option val) (w : option (arr bool)) : arr nat * arr val :=
  let max_v := max_last_keepdims b initial w in
  let max_value_mask := arr_eq b max_v in
  let max_value_mask := match w with Some w => arr_and max_value_mask w | None => max_value_mask end in
  let argmax_v := argmax_last max_value_mask in
  (argmax_v, reshape (shape argmax_v) max_v).

Lemma argmax_is_core a axis initial w :
  argmax a (Some axis) initial w
  = core (flatten_last_n_axes VUndef (move_axes_to_back VUndef a axis) (length axis)) initial
         (match w with
          | Some w => Some (flatten_last_n_axes false (move_axes_to_back false w axis) (length axis))
          | None => None end).
Proof. unfold argmax, core. destruct w; reflexivity. Qed.

Section Core.
Variables (b : arr val) (initial : option val) (w : option (arr bool)).
Variables (front : list nat) (n : nat).
Hypothesis Hshape : shape b = front ++ [n].
Hypothesis Hw : match w with Some w => shape w = front ++ [n] | None => True end.

Definition row (outer : list nat) (k : nat) : val := get VUndef b (outer ++ [k]).
Definition ok (outer : list nat) (k : nat) : bool :=
  match w with Some w => get false w (outer ++ [k]) | None => true end.
Definition init_v : val := match initial with Some v => v | None => VNegInf end.

(* the masked maximum of one outer slice *)
Definition slice_max (outer : list nat) : val :=
  fold_right vmax init_v (map (fun k => if ok outer k then row outer k else VNegInf) (seq 0 n)).

Lemma shape_max : shape (max_last_keepdims b initial w) = front ++ [1].
Proof. unfold max_last_keepdims. simpl. now rewrite Hshape, removelast_app_single. Qed.

Lemma get_max outer : in_bounds front outer ->
  get VUndef (max_last_keepdims b initial w) (outer ++ [0]) = slice_max outer.
Proof.
  intros Hb. unfold max_last_keepdims. rewrite Hshape, removelast_app_single.
  unfold last_dim. rewrite last_app_single.
  rewrite get_tabulate by (apply in_bounds_app; [exact Hb|simpl; lia]).
  rewrite removelast_app_single. unfold slice_max, init_v, ok, row.
  f_equal. apply map_ext. intros k. destruct w; reflexivity.
Qed.

Lemma shape_eq : shape (arr_eq b (max_last_keepdims b initial w)) = front ++ [n].
Proof.
  unfold arr_eq. rewrite shape_amap2_bcast, shape_max, Hshape. apply bshape_keep.
Qed.

Lemma shape_mask :
  shape (match w with
         | Some w0 => arr_and (arr_eq b (max_last_keepdims b initial w)) w0
         | None => arr_eq b (max_last_keepdims b initial w) end) = front ++ [n].
Proof.
  pose proof shape_eq as He. destruct w as [w0|]; [|exact He].
  unfold arr_and. rewrite shape_amap2_bcast, He, Hw. apply bshape_same.
Qed.

Lemma get_eq outer k : in_bounds front outer -> k < n ->
  get false (arr_eq b (max_last_keepdims b initial w)) (outer ++ [k])
  = veqb_num (row outer k) (slice_max outer).
Proof.
  intros Hb Hk. unfold arr_eq, amap2_bcast.
  assert (Hin : in_bounds (front ++ [n]) (outer ++ [k])) by (apply in_bounds_app; [exact Hb|simpl; lia]).
  rewrite shape_max, Hshape, bshape_keep.
  rewrite get_tabulate by exact Hin.
  rewrite bget_same by (rewrite Hshape; exact Hin).
  unfold bget. rewrite shape_max, bidx_keep by exact Hb.
  rewrite get_max by exact Hb. reflexivity.
Qed.

Lemma get_mask outer k : in_bounds front outer -> k < n ->
  get false (match w with
             | Some w0 => arr_and (arr_eq b (max_last_keepdims b initial w)) w0
             | None => arr_eq b (max_last_keepdims b initial w) end) (outer ++ [k])
  = veqb_num (row outer k) (slice_max outer) && ok outer k.
Proof.
  intros Hb Hk.
  assert (Hin : in_bounds (front ++ [n]) (outer ++ [k])) by (apply in_bounds_app; [exact Hb|simpl; lia]).
  pose proof shape_eq as Hs. pose proof (@get_eq outer k Hb Hk) as Ge. pose proof Hw as Hw'.
  unfold ok. destruct w as [w0|].
  - unfold arr_and, amap2_bcast.
    rewrite Hs, Hw', bshape_same. rewrite get_tabulate by exact Hin.
    rewrite bget_same by (rewrite Hs; exact Hin).
    rewrite bget_same by (rewrite Hw'; exact Hin).
    rewrite Ge. reflexivity.
  - rewrite Ge. now rewrite andb_true_r.
Qed.

Definition hits (outer : list nat) : list bool :=
  map (fun k => veqb_num (row outer k) (slice_max outer) && ok outer k) (seq 0 n).

Theorem core_argmax outer : in_bounds front outer ->
  get 0 (fst (core b initial w)) outer = first_true (hits outer).
Proof.
  intros Hb. unfold core. cbn [fst]. unfold argmax_last.
  rewrite shape_mask, removelast_app_single. unfold last_dim. rewrite last_app_single.
  rewrite get_tabulate by exact Hb. unfold hits. f_equal.
  apply map_ext_in. intros k Hk. apply in_seq in Hk. apply get_mask; [exact Hb|lia].
Qed.

Theorem core_max outer : in_bounds front outer ->
  get VUndef (snd (core b initial w)) outer = slice_max outer.
Proof.
  intros Hb. unfold core. cbn [snd]. unfold argmax_last at 1. cbn [shape tabulate].
  rewrite shape_mask, removelast_app_single.
  rewrite get_reshape. rewrite <- (@get_max outer Hb). rewrite get_as_nth, shape_max.
  rewrite ravel_app by (now apply in_bounds_length). simpl. f_equal. lia.
Qed.

Theorem core_shapes :
  shape (fst (core b initial w)) = front /\ shape (snd (core b initial w)) = front.
Proof.
  unfold core. cbn [fst snd]. unfold argmax_last. cbn [shape tabulate reshape].
  now rewrite shape_mask, removelast_app_single.
Qed.
End Core.

(* Proofs/C05_VariableInfo.v — the regenerated get_variable_info (Gen/VariableInfo.v): the rows of variable_info are the model's   *)
(* variables grouped as filter-restricted states, filter-restricted choices, unrestricted discrete states, unrestricted discrete   *)
(* choices, continuous states, continuous choices — each group in declaration order.  This order is the axis order of C05.          *)
From Coq Require Import Lia.
From LCM Require Import Base.Prelude Model.PyVocab Gen.ChoiceAxes Gen.VariableInfo.
From LCM Require Import Proofs.PyVocabLemmas.
Local Open Scope nat_scope.

(* ---- dict assignment of fresh keys appends ----------------------------------------------------------------------------- *)
Lemma fold_dict_set_fresh {A} : forall (l d : list (string * A)), NoDup (map fst l) ->
  (forall k, In k (map fst l) -> ~ In k (map fst d)) ->
  fold_left (fun d kv => dict_set d (fst kv) (snd kv)) l d = (d ++ l)%list.
Proof.
  induction l as [|[k0 v0] r IH]; intros d Hn Hd; [now rewrite app_nil_r|]. inversion Hn as [|? ? Hk Hn']; subst. cbn [fold_left fst snd].
  assert (E : dict_set d k0 v0 = (d ++ [(k0, v0)])%list).
  { unfold dict_set. replace (mem_str k0 (map fst d)) with false; [reflexivity|].
    symmetry. apply Bool.not_true_iff_false. intros H. apply mem_str_In in H. apply (Hd k0); [now left|exact H]. }
  rewrite E, IH; [now rewrite <- app_assoc|exact Hn'|].
  intros k Hin. rewrite map_app. cbn [map fst]. intros H. apply in_app_or in H. destruct H as [H|[<-|[]]].
  - apply (Hd k); [now right|exact H].
  - contradiction.
Qed.

Lemma dict_set_nodup {A} k (v : A) d : NoDup (map fst d) -> NoDup (map fst (dict_set d k v)).
Proof.
  intros Hn. rewrite dict_set_keys. destruct (mem_str k (map fst d)) eqn:M; [exact Hn|].
  assert (G : forall l : list string, NoDup l -> ~ In k l -> NoDup (l ++ [k])).
  { induction l as [|x r IH]; intros Hl Hk; [constructor; [intros []|constructor]|]. inversion Hl as [|? ? Hx Hr]; subst. cbn [app]. constructor.
    - intros H. apply in_app_or in H. destruct H as [H|[<-|[]]]; [contradiction|]. apply Hk. now left.
    - apply IH; [exact Hr|]. intros H. apply Hk. now right. }
  apply G; [exact Hn|]. intros H. apply mem_str_In in H. congruence.
Qed.

Lemma fold_dict_set_nodup {A} : forall (l d : list (string * A)), NoDup (map fst d) ->
  NoDup (map fst (fold_left (fun d kv => dict_set d (fst kv) (snd kv)) l d)).
Proof. induction l as [|x r IH]; intros d Hn; [exact Hn|]. cbn [fold_left]. apply IH. now apply dict_set_nodup. Qed.

(* ---- looking rows up by name ---------------------------------------------------------------------------------------------- *)
Lemma find_by_name (info : list varinfo) r : NoDup (map vname info) -> In r info ->
  find (fun x => String.eqb (vname x) (vname r)) info = Some r.
Proof.
  induction info as [|x rest IH]; intros Hn Hin; [destruct Hin|]. inversion Hn as [|? ? Hx Hn']; subst. cbn [find].
  destruct Hin as [->|Hin]; [now rewrite String.eqb_refl|].
  destruct (String.eqb_spec (vname x) (vname r)) as [E|N]; [|now apply IH].
  exfalso. apply Hx. rewrite E. now apply in_map.
Qed.

Lemma loc_filter (info : list varinfo) (q : varinfo -> bool) : NoDup (map vname info) ->
  map (loc info) (map vname (filter q info)) = filter q info.
Proof.
  intros Hn. rewrite map_map. rewrite <- (map_id (filter q info)) at 2. apply map_ext_in. intros r Hr.
  apply filter_In in Hr. destruct Hr as [Hin _]. unfold loc. now rewrite (find_by_name info r Hn Hin).
Qed.

Lemma nodup_app_parts (l1 l2 : list string) : NoDup (l1 ++ l2) -> NoDup l1 /\ NoDup l2 /\ (forall x, In x l1 -> ~ In x l2).
Proof.
  induction l1 as [|a r IH]; intros H; [repeat split; [constructor|exact H|intros x []]|]. cbn [app] in H. inversion H as [|? ? Ha Hr]; subst.
  destruct (IH Hr) as (H1 & H2 & H3). repeat split.
  - constructor; [|exact H1]. intros Hin. apply Ha. apply in_or_app. now left.
  - exact H2.
  - intros x [<-|Hx]; [intros Hin; apply Ha; apply in_or_app; now right|now apply H3].
Qed.

Section VariableInfo.
Variables (is_stochastic_next : string -> bool) (auxiliary_variables filtered_variables : list string).
Variables (states choices : list (string * bool)).

Definition vi_variables : list (string * bool) :=
  fold_left (fun d kv => dict_set d (fst kv) (snd kv)) choices (fold_left (fun d kv => dict_set d (fst kv) (snd kv)) states []).
Definition vi_row (var : string * bool) : varinfo :=
  mkVarinfo (fst var) (mem_str (fst var) (map fst states)) (negb (mem_str (fst var) (map fst states))) (snd var) (negb (snd var))
            (mem_str (fst var) (map fst states) && is_stochastic_next ("next_" ++ fst var))
            (mem_str (fst var) auxiliary_variables) (mem_str (fst var) filtered_variables) (negb (mem_str (fst var) filtered_variables)).
Definition vi_rows : list varinfo := map vi_row vi_variables.

Definition q1 := fun v => (is_sparse v && is_state v).
Definition q2 := fun v => (is_sparse v && is_choice v).
Definition q3 := fun v => ((is_dense v && is_discrete v) && is_state v).
Definition q4 := fun v => ((is_dense v && is_discrete v) && is_choice v).
Definition q5 := fun v => ((is_dense v && is_continuous v) && is_state v).
Definition q6 := fun v => ((is_dense v && is_continuous v) && is_choice v).

Lemma rows_nodup : NoDup (map vname vi_rows).
Proof.
  unfold vi_rows. rewrite map_map. cbn [vname vi_row]. change (map (fun x : string * bool => fst x) vi_variables) with (map fst vi_variables).
  unfold vi_variables. apply fold_dict_set_nodup. apply fold_dict_set_nodup. constructor.
Qed.

Lemma one_group r : In r vi_rows -> q1 r || q2 r || q3 r || q4 r || q5 r || q6 r = true.
Proof.
  intros Hin. unfold vi_rows in Hin. apply in_map_iff in Hin. destruct Hin as (var & <- & _).
  unfold q1, q2, q3, q4, q5, q6, vi_row. cbn [is_sparse is_state is_choice is_dense is_discrete is_continuous].
  destruct (mem_str (fst var) filtered_variables), (mem_str (fst var) (map fst states)), (snd var); reflexivity.
Qed.

Theorem get_variable_info_is_canonical :
  get_variable_info is_stochastic_next auxiliary_variables filtered_variables states choices
  = Some (filter q1 vi_rows ++ filter q2 vi_rows ++ filter q3 vi_rows ++ filter q4 vi_rows ++ filter q5 vi_rows ++ filter q6 vi_rows)%list.
Proof.
  unfold get_variable_info. fold vi_variables. 
  change (map _ vi_variables) with vi_rows.
  fold q1 q2 q3 q4 q5 q6.
  set (order := (map vname (filter q1 vi_rows) ++ map vname (filter q2 vi_rows) ++ map vname (filter q3 vi_rows) ++ map vname (filter q4 vi_rows)
                 ++ map vname (filter q5 vi_rows) ++ map vname (filter q6 vi_rows))%list).
  assert (Hset : set_eqb order (map vname vi_rows) = true).
  { unfold set_eqb. apply andb_true_intro. split; apply forallb_forall; intros x Hx; apply mem_str_In.
    - unfold order in Hx. repeat (apply in_app_or in Hx; destruct Hx as [Hx|Hx]);
        apply in_map_iff in Hx; destruct Hx as (r & <- & Hr); apply filter_In in Hr; apply in_map; tauto.
    - apply in_map_iff in Hx. destruct Hx as (r & <- & Hr). pose proof (one_group r Hr) as G. unfold order.
      repeat (apply Bool.orb_true_iff in G; destruct G as [G|G]).
      + apply in_or_app; left. apply in_map. apply filter_In. tauto.
      + apply in_or_app; right; apply in_or_app; left. apply in_map. apply filter_In. tauto.
      + do 2 (apply in_or_app; right). apply in_or_app; left. apply in_map. apply filter_In. tauto.
      + do 3 (apply in_or_app; right). apply in_or_app; left. apply in_map. apply filter_In. tauto.
      + do 4 (apply in_or_app; right). apply in_or_app; left. apply in_map. apply filter_In. tauto.
      + do 5 (apply in_or_app; right). apply in_map. apply filter_In. tauto. }
  rewrite Hset. cbn [negb]. f_equal. unfold order. rewrite !map_app, !(loc_filter vi_rows _ rows_nodup). reflexivity.
Qed.

(* with distinct names (a variable is a state or a choice, declared once) the variables are the states followed by the choices, in declaration order *)
Theorem variables_in_declaration_order : NoDup (map fst states ++ map fst choices) -> vi_variables = (states ++ choices)%list.
Proof.
  intros Hn. unfold vi_variables. destruct (nodup_app_parts _ _ Hn) as (Hs & Hc & Hd).
  rewrite (fold_dict_set_fresh states [] Hs) by (intros k _ []). cbn [app].
  apply fold_dict_set_fresh; [exact Hc|]. intros k Hk Hks. exact (Hd k Hks Hk).
Qed.

(* ---- the state axes (C05): restricted states, unrestricted discrete states, continuous states — each in declaration order ---- *)
Definition restricted (var : string * bool) : bool := mem_str (fst var) filtered_variables.

Lemma filter_filter {A} (p q : A -> bool) l : filter p (filter q l) = filter (fun x => q x && p x) l.
Proof. induction l as [|x r IH]; [reflexivity|]. cbn [filter]. destruct (q x); cbn [filter andb]; [destruct (p x)|]; now rewrite IH. Qed.

Lemma filter_none {A} (p : A -> bool) l : (forall x, In x l -> p x = false) -> filter p l = [].
Proof. induction l as [|x r IH]; intros H; [reflexivity|]. cbn [filter]. rewrite (H x (or_introl eq_refl)). apply IH. intros y Hy. apply H. now right. Qed.

Lemma state_part (q : varinfo -> bool) (q' : string * bool -> bool) : NoDup (map fst states ++ map fst choices) ->
  (forall var, In var states -> (q (vi_row var) && is_state (vi_row var)) = q' var) ->
  map vname (filter is_state (filter q vi_rows)) = map fst (filter q' states).
Proof.
  intros Hn Hq. destruct (nodup_app_parts _ _ Hn) as (_ & _ & Hd).
  unfold vi_rows. rewrite (variables_in_declaration_order Hn), map_app, filter_filter, filter_app, map_app.
  rewrite (filter_none _ (map vi_row choices)).
  2:{ intros r Hr. apply in_map_iff in Hr. destruct Hr as (var & <- & Hv). cbn [is_state vi_row].
      replace (mem_str (fst var) (map fst states)) with false; [apply Bool.andb_false_r|].
      symmetry. apply Bool.not_true_iff_false. intros H. apply mem_str_In in H. apply (Hd (fst var) H). now apply in_map. }
  cbn [map]. rewrite app_nil_r. rewrite filter_map_comm, map_map. cbn [vname vi_row].
  change (map (fun x : string * bool => fst x)) with (map (@fst string bool)). f_equal. apply filter_ext_in. intros var Hv. now apply Hq.
Qed.

Theorem state_axes_in_declaration_order : NoDup (map fst states ++ map fst choices) ->
  exists vi, get_variable_info is_stochastic_next auxiliary_variables filtered_variables states choices = Some vi /\
  map vname (filter is_state vi)
  = (map fst (filter restricted states)
     ++ map fst (filter (fun var => negb (restricted var) && negb (snd var)) states)
     ++ map fst (filter (fun var => negb (restricted var) && snd var) states))%list.
Proof.
  intros Hn. eexists. split; [apply get_variable_info_is_canonical|].
  assert (Hst : forall var, In var states -> mem_str (fst var) (map fst states) = true).
  { intros var Hv. apply mem_str_In. now apply in_map. }
  rewrite !filter_app, !map_app.
  rewrite (state_part q1 restricted Hn).
  2:{ intros var Hv. unfold q1, restricted. cbn [is_sparse is_state vi_row]. rewrite (Hst var Hv). now destruct (mem_str (fst var) filtered_variables). }
  rewrite (state_part q2 (fun _ => false) Hn).
  2:{ intros var Hv. unfold q2. cbn [is_sparse is_choice is_state vi_row]. rewrite (Hst var Hv). cbn [negb]. now rewrite !Bool.andb_false_r. }
  rewrite (state_part q3 (fun var => negb (restricted var) && negb (snd var)) Hn).
  2:{ intros var Hv. unfold q3, restricted. cbn [is_dense is_discrete is_state vi_row]. rewrite (Hst var Hv). now rewrite !Bool.andb_true_r. }
  rewrite (state_part q4 (fun _ => false) Hn).
  2:{ intros var Hv. unfold q4. cbn [is_dense is_discrete is_choice is_state vi_row]. rewrite (Hst var Hv). cbn [negb]. now rewrite !Bool.andb_false_r. }
  rewrite (state_part q5 (fun var => negb (restricted var) && snd var) Hn).
  2:{ intros var Hv. unfold q5, restricted. cbn [is_dense is_continuous is_state vi_row]. rewrite (Hst var Hv). now rewrite !Bool.andb_true_r. }
  rewrite (state_part q6 (fun _ => false) Hn).
  2:{ intros var Hv. unfold q6. cbn [is_dense is_continuous is_choice is_state vi_row]. rewrite (Hst var Hv). cbn [negb]. now rewrite !Bool.andb_false_r. }
  assert (E : forall l : list (string * bool), filter (fun _ => false) l = []) by (induction l; auto).
  rewrite !E. cbn [map app]. rewrite ?app_nil_r. reflexivity.
Qed.
End VariableInfo.

(* Proofs/C05_SolveLoop.v — the backward-induction driver lcm.solve_brute.solve, as regenerated from *)
(* the source (Gen/SolveBrute.v), returns one array per period in chronological order; the array of   *)
(* period t is computed by period t's own space, grids, indexers, ccv function and emax calculator     *)
(* from the array of period t+1, and from None in the last period.                                     *)
From Coq Require Import List Arith Lia.
Import ListNotations.
From LCM Require Import Gen.SolveBrute.

Section BackwardFold.
Context {A : Type} (body : option A -> nat -> A) (d : A).

(* shaped like the translator's output: fun '(rs, vf) p => ... *)
Definition step (acc : list A * option A) : nat -> list A * option A :=
  let '(rs, vf) := acc in fun p => let v := body vf p in (rs ++ [v], Some v).

Definition back (t k : nat) : list A * option A := fold_right (fun p acc => step acc p) ([], None) (seq t k).

Lemma back_S t k : back t (S k) = step (back (S t) k) t.
Proof. reflexivity. Qed.

Lemma back_spec : forall k t,
  length (fst (back t k)) = k /\
  snd (back t k) = match k with O => None | S _ => Some (nth 0 (rev (fst (back t k))) d) end /\
  forall j, j < k ->
    nth j (rev (fst (back t k))) d
    = body (if S j =? k then None else Some (nth (S j) (rev (fst (back t k))) d)) (t + j).
Proof.
  induction k as [|k IH]; intros t.
  - repeat split; intros; lia.
  - rewrite back_S. destruct (IH (S t)) as (Hl & Hv & Hn). destruct (back (S t) k) as [rs vf]. cbn [fst snd] in *.
    unfold step. cbn [fst snd]. rewrite rev_app_distr. cbn [rev app]. split; [|split].
    + rewrite app_length. simpl. lia.
    + reflexivity.
    + intros [|j] Hj.
      * cbn [nth]. rewrite Nat.add_0_r. f_equal. rewrite Hv. destruct k as [|k']; [reflexivity|].
        replace (1 =? S (S k')) with false by (symmetry; apply Nat.eqb_neq; lia). reflexivity.
      * cbn [nth]. rewrite (Hn j) by lia. replace (S t + j) with (t + S j) by lia.
        reflexivity.
Qed.

Definition run (n : nat) : list A := rev (fst (fold_left step (rev (seq 0 n)) ([], None))).

Lemma run_back n : run n = rev (fst (back 0 n)).
Proof.
  unfold run, back. f_equal. f_equal.
  rewrite <- (rev_involutive (seq 0 n)) at 2. symmetry.
  exact (fold_left_rev_right (fun p acc => step acc p) (rev (seq 0 n)) ([], None)).
Qed.

Theorem run_length n : length (run n) = n.
Proof. rewrite run_back, rev_length. apply back_spec. Qed.

Theorem run_nth n t : t < n ->
  nth t (run n) d = body (if S t =? n then None else Some (nth (S t) (run n) d)) t.
Proof. intros Ht. rewrite run_back. destruct (back_spec n 0) as (_ & _ & Hn). exact (Hn t Ht). Qed.
End BackwardFold.

Section Solve.
Variables T_params T_space T_indexers T_grids T_ccv T_emax T_arr T_ccvals : Type.
Variables (d_space : T_space) (d_indexers : T_indexers) (d_grids : T_grids) (d_ccv : T_ccv) (d_emax : T_emax).
Variable solve_continuous_problem : T_space -> T_ccv -> T_grids -> option T_arr -> T_indexers -> T_params -> T_ccvals.
Variable apply_calculate_emax : T_emax -> T_ccvals -> T_params -> T_arr.
Variables (params : T_params) (spaces : list T_space) (indexers : list T_indexers) (grids : list T_grids)
          (ccvs : list T_ccv) (emaxs : list T_emax).

Let sol := solve T_params T_space T_indexers T_grids T_ccv T_emax T_arr T_ccvals
                 d_space d_indexers d_grids d_ccv d_emax solve_continuous_problem apply_calculate_emax
                 params spaces indexers grids ccvs emaxs.

(* what period t computes from the array of the next period *)
Definition period_array (t : nat) (vnext : option T_arr) : T_arr :=
  apply_calculate_emax (nth t emaxs d_emax)
    (solve_continuous_problem (nth t spaces d_space) (nth t ccvs d_ccv) (nth t grids d_grids) vnext
                              (nth t indexers d_indexers) params) params.

Lemma solve_is_run : sol = run (fun vnext t => period_array t vnext) (length spaces).
Proof.
  unfold sol, solve, run. cbv zeta.
  change (fold_left _ (rev (seq 0 (length spaces))) ([], None))
    with (fold_left (step (fun vnext t => period_array t vnext)) (rev (seq 0 (length spaces))) ([], None)).
  destruct (fold_left _ _ _). reflexivity.
Qed.

Theorem solve_one_array_per_period : length sol = length spaces.
Proof. rewrite solve_is_run. exact (run_length _ (period_array 0 None) _). Qed.

Theorem solve_is_backward_induction d t : t < length spaces ->
  nth t sol d = period_array t (if S t =? length spaces then None else Some (nth (S t) sol d)).
Proof. intros Ht. rewrite solve_is_run. now apply (run_nth (fun vnext t => period_array t vnext)). Qed.
End Solve.

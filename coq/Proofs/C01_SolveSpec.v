(* Proofs/C01_SolveSpec.v — lcm's solve IS the specification's solve_spec (models without filter-restricted   *)
(* variables whose value function is finite everywhere): every entry of every period's array that             *)
(* get_lcm_function(model, "solve") returns -- regenerated driver and glue with the per-period components of   *)
(* Proofs/C01_Period.v -- is the entry of the specification's table for that period and state.                 *)
From Coq Require Import Lqa Lia Permutation.
From LCM Require Import Base.Prelude Base.Arr Base.ArrOps Model.Dispatchers Model.DispatchersG.
From LCM Require Import Spec.Interp Spec.Lang Spec.Bellman Proofs.ArrLemmas Proofs.ArrLemmas2 Proofs.Spec_Algebra Proofs.Spec_Bellman
                        Proofs.C11_Affine Proofs.C11_Horizon Proofs.C10_Choices Proofs.C14_Refine Proofs.C14_OnLayout
                        Proofs.C01_Compose Proofs.C01_MaxCompose Proofs.C01_Period Proofs.C01_Solve.
Local Open Scope nat_scope.

(* ---- the value function of the next period matters only on its grid ---------------------------------------- *)
Lemma is_label_lt v n k : is_label v n = Some k -> k < n.
Proof.
  unfold is_label. destruct (Qeqb _ v && (0 <=? Qfloor v)%Z && (Qfloor v <? Z.of_nat n)%Z) eqn:E; [|discriminate].
  intros H. injection H as <-. apply andb_true_iff in E. destruct E as [E1 E3]. apply andb_true_iff in E1. destruct E1 as [_ E2].
  apply Z.leb_le in E2. apply Z.ltb_lt in E3. lia.
Qed.

Lemma vblend_veq w0 w1 x y x' y' : veq x' x -> veq y' y -> veq (vblend w0 x' w1 y') (vblend w0 x w1 y).
Proof.
  intros Hx Hy. destruct x as [| |a], y as [| |b], x' as [| |a'], y' as [| |b']; simpl in *; try tauto. now rewrite Hx, Hy.
Qed.

Lemma vread_veq_on_grid : forall sts f g vals, grids_valid sts ->
  (forall idx, in_bounds (map (fun sg : string * grid => grid_size (snd sg)) sts) idx -> veq (g idx) (f idx)) ->
  veq (vread sts g vals) (vread sts f vals).
Proof.
  induction sts as [|[x gr] r IH]; intros f g vals Hv H.
  - destruct vals; simpl; [apply H; exact I|exact I].
  - inversion Hv as [|? ? Hg Hv']; subst. destruct gr as [n|lo hi n]; destruct vals as [|v vs]; cbn [vread]; try exact I.
    + destruct (is_label v n) as [k|] eqn:Ek; [|exact I]. apply IH; [exact Hv'|]. intros idx Hb. apply H. cbn. split; [now apply (is_label_lt v)|exact Hb].
    + cbn [snd] in Hg. destruct Hg as [_ Hn]. destruct (cell_lo_in_range (spec_lin_coord lo hi n v) n Hn) as [L1 L2].
      apply vblend_veq; (apply IH; [exact Hv'|]; intros idx Hb; apply H; cbn; split; [assumption|exact Hb]).
Qed.

Section OnGrid.
Variables (m : model) (p : params).
Hypothesis Hvalid : grids_valid (states m).
Variables (vnext vnext' : list nat -> val).
Hypothesis Hv : forall idx, in_bounds (state_shape m) idx -> veq (vnext' idx) (vnext idx).

Lemma continuation_veq_on_grid e : veq (continuation m p vnext' e) (continuation m p vnext e).
Proof.
  rewrite !continuation_as_expect. destruct (nodes m p e (stoch_states m)) as [nds|]; [|exact I].
  assert (Hrd : forall l, veq (node_value m p vnext' e l) (vaff 1 0 (node_value m p vnext e l))).
  { intros l. rewrite vaff_one_zero. unfold node_value. destruct (omap _ (states m)); [|exact I].
    apply vread_veq_on_grid; [exact Hvalid|exact Hv]. }
  pose proof (expect_affine 1 0 _ _ nds Hrd) as E.
  pose proof (expect_not_neginf (node_value m p vnext e) nds) as N1.
  pose proof (expect_not_neginf (node_value m p vnext' e) nds) as N2.
  destruct (expect (node_value m p vnext e) nds), (expect (node_value m p vnext' e) nds); try tauto; try exact I.
  simpl. eapply Qeq_trans; [exact E|ring].
Qed.

Lemma objective_veq_on_grid last e : veq (objective m p last vnext' e) (objective m p last vnext e).
Proof.
  unfold objective. destruct (eval_fun (depth m) m p e "utility"); [|exact I].
  destruct last; [reflexivity|]. pose proof (continuation_veq_on_grid e) as E.
  destruct (continuation m p vnext e), (continuation m p vnext' e); simpl in E; try tauto; try exact I.
  simpl. rewrite E. reflexivity.
Qed.

(* also: the state may be given by any environment with the same bindings *)
Lemma value_at_veq_on_grid t last sigma sigma' : env_equiv sigma' sigma ->
  veq (value_at m p t last vnext' sigma') (value_at m p t last vnext sigma).
Proof.
  intros He. unfold value_at. apply vmaxl_compat. apply Forall2_map_in. intros gamma _. cbv zeta.
  assert (He' : env_equiv (sigma' ++ gamma ++ [(period_name, Qofnat t)]) (sigma ++ gamma ++ [(period_name, Qofnat t)])).
  { intros a. rewrite !assoc_app, (He a). reflexivity. }
  rewrite (feasible_env m p _ _ He'), (objective_env m p _ _ He' last vnext').
  destruct (feasible m p _); [apply objective_veq_on_grid|reflexivity].
Qed.
End OnGrid.

(* in the last period the next value function does not matter at all *)
Lemma value_at_last_any_next m p t vnext vnext' sigma sigma' : env_equiv sigma' sigma ->
  veq (value_at m p t true vnext' sigma') (value_at m p t true vnext sigma).
Proof.
  intros He. unfold value_at. apply vmaxl_compat. apply Forall2_map_in. intros gamma _. cbv zeta.
  assert (He' : env_equiv (sigma' ++ gamma ++ [(period_name, Qofnat t)]) (sigma ++ gamma ++ [(period_name, Qofnat t)])).
  { intros a. rewrite !assoc_app, (He a). reflexivity. }
  rewrite (feasible_env m p _ _ He'), (objective_env m p _ _ He' true vnext').
  destruct (feasible m p _); [|reflexivity]. unfold objective. destruct (eval_fun _ _ _ _ _); reflexivity.
Qed.

(* ---- the state at a position of the code's array is the state of the specification's table ------------------ *)
Lemma state_env_is_env_of_idx m idx : state_env m idx = env_of_idx (states m) idx.
Proof. reflexivity. Qed.

Lemma parts_permutation : forall sts idx,
  Permutation (env_of_idx sts idx) (env_of_idx (dstates sts) (dpart sts idx) ++ env_of_idx (cstates sts) (cpart sts idx)).
Proof.
  induction sts as [|[x g] r IH]; intros idx; [destruct idx; apply Permutation_refl|].
  destruct idx as [|k i].
  - destruct g; cbn [dpart cpart]; unfold env_of_idx; rewrite !combine_nil; constructor.
  - destruct g as [n|a b n].
    + change (dstates ((x, GDisc n) :: r)) with ((x, GDisc n) :: dstates r). change (cstates ((x, GDisc n) :: r)) with (cstates r).
      cbn [dpart cpart env_of_idx combine map app fst snd]. apply perm_skip. apply IH.
    + change (dstates ((x, GLin a b n) :: r)) with (dstates r). change (cstates ((x, GLin a b n) :: r)) with ((x, GLin a b n) :: cstates r).
      cbn [dpart cpart env_of_idx combine map fst snd]. apply Permutation_cons_app. apply IH.
Qed.

Lemma parts_in_bounds : forall sts idx, in_bounds (map (fun sg : string * grid => grid_size (snd sg)) sts) idx ->
  in_bounds (sizes (dstates sts)) (dpart sts idx) /\ in_bounds (sizes (cstates sts)) (cpart sts idx).
Proof.
  induction sts as [|[x g] r IH]; intros [|k i] H; cbn in H; try contradiction; [split; exact I|].
  destruct H as [Hk Hr]. destruct (IH i Hr) as [H1 H2]. destruct g as [n|a b n].
  - change (dstates ((x, GDisc n) :: r)) with ((x, GDisc n) :: dstates r). change (cstates ((x, GDisc n) :: r)) with (cstates r).
    cbn [dpart cpart sizes map snd grid_size in_bounds]. cbn in Hk. tauto.
  - change (dstates ((x, GLin a b n) :: r)) with (dstates r). change (cstates ((x, GLin a b n) :: r)) with ((x, GLin a b n) :: cstates r).
    cbn [dpart cpart sizes map snd grid_size in_bounds]. cbn in Hk. tauto.
Qed.

Lemma keys_env_of_idx vars idx : length idx = length vars -> map fst (env_of_idx vars idx) = map fst vars.
Proof.
  revert idx. induction vars as [|[x g] r IH]; intros [|k i] H; try discriminate; [reflexivity|].
  cbn [env_of_idx combine map fst]. f_equal. apply IH. simpl in H. lia.
Qed.

Lemma code_state_is_spec_state m idx : NoDup (map fst (states m)) -> in_bounds (state_shape m) idx ->
  env_equiv (env_of_idx (dstates (states m)) (dpart (states m) idx) ++ env_of_idx (cstates (states m)) (cpart (states m) idx))
            (state_env m idx).
Proof.
  intros Hnd Hb a. symmetry. rewrite state_env_is_env_of_idx. apply assoc_perm; [apply parts_permutation|].
  rewrite keys_env_of_idx; [exact Hnd|]. rewrite (in_bounds_length _ _ Hb). unfold state_shape. now rewrite map_length.
Qed.

(* ---- whether the next table can be read does not depend on its entries --------------------------------------- *)
Lemma qread_some_indep : forall sts F F' vals q, qread sts F vals = Some q -> exists q', qread sts F' vals = Some q'.
Proof.
  induction sts as [|[x g] r IH]; intros F F' vals q H.
  - destruct vals; [|discriminate]. eexists. reflexivity.
  - destruct g as [n|a b n]; destruct vals as [|v vs]; try discriminate; cbn [qread] in *.
    + destruct (is_label v n) as [k|]; [|discriminate]. exact (IH _ _ _ _ H).
    + destruct (qread r (fun idx => F (cell_lo (spec_lin_coord a b n v) n :: idx)) vs) as [x0|] eqn:E0; [|discriminate].
      destruct (qread r (fun idx => F (S (cell_lo (spec_lin_coord a b n v) n) :: idx)) vs) as [x1|] eqn:E1; [|discriminate].
      destruct (IH _ (fun idx => F' (cell_lo (spec_lin_coord a b n v) n :: idx)) _ _ E0) as (y0 & ->).
      destruct (IH _ (fun idx => F' (S (cell_lo (spec_lin_coord a b n v) n) :: idx)) _ _ E1) as (y1 & ->).
      eexists. reflexivity.
Qed.

Lemma evaluates_at_indep m p F F' e : evaluates_at m p F e -> evaluates_at m p F' e.
Proof.
  intros (H1 & H2 & H3 & H4). repeat split; try assumption.
  intros idx Hb. destruct (H4 idx Hb) as (q & Hq). exact (qread_some_indep _ F F' _ q Hq).
Qed.

(* ---- THE THEOREM ------------------------------------------------------------------------------------------------ *)
Section SolveIsSpec.
Variables (m : model) (p : params) (dch cch : list (string * grid)).
Let n := n_periods m.
Let sts := states m.
Let dst := dstates sts.
Let cst := cstates sts.
Hypothesis Hperm : Permutation (dch ++ cch) (choices m).
Hypothesis Hnd : NoDup (map fst (choices m)).
Hypothesis Hnds : NoDup (map fst sts).
Hypothesis Hvalid : grids_valid sts.
Hypothesis Hnames : NoDup (map fst (dst ++ dch ++ cst ++ cch)).
(* the model evaluates at every grid point of every period *)
Hypothesis Heval : forall t, S t < n -> forall ds dc cs cc,
  in_bounds (sizes dst) ds -> in_bounds (sizes dch) dc -> in_bounds (sizes cst) cs -> in_bounds (sizes cch) cc ->
  evaluates_at m p (fun _ => 0%Q) (spec_env t dst dch cst cch ds dc cs cc).
Hypothesis Hlast : forall t, S t = n -> forall ds dc cs cc,
  in_bounds (sizes dst) ds -> in_bounds (sizes dch) dc -> in_bounds (sizes cst) cs -> in_bounds (sizes cch) cc ->
  exists u, eval_fun (depth m) m p (spec_env t dst dch cst cch ds dc cs cc) "utility" = Some u.
(* the specification's value function is finite on the grid (every state has an admissible choice) *)
Hypothesis Hfin : forall t idx, t < n -> in_bounds (state_shape m) idx ->
  exists q, get VUndef (nth t (solve_spec m p) (scalar VUndef)) idx = VFin q.

Let Vc := code_solve m p n dch cch.
Let Vs := solve_spec m p.

Lemma spec_entry t idx : t < n -> in_bounds (state_shape m) idx ->
  get VUndef (nth t Vs (scalar VUndef)) idx
  = vred (value_at m p t (S t =? n) (fun i => get VUndef (nth (S t) Vs (scalar VUndef)) i) (state_env m idx)).
Proof.
  intros Ht Hb. unfold Vs. rewrite (solve_spec_is_backward_induction m p t Ht). unfold value_table.
  now rewrite get_tabulate by exact Hb.
Qed.

Theorem code_solve_is_solve_spec : forall k t idx, t + k = n - 1 -> t < n -> in_bounds (state_shape m) idx ->
  veq (get VUndef (nth t Vc (scalar VUndef)) (dpart sts idx ++ cpart sts idx))
      (get VUndef (nth t Vs (scalar VUndef)) idx).
Proof.
  induction k as [|k IH]; intros t idx Hk Ht Hb.
  - (* the last period *)
    assert (E : S t = n) by lia.
    destruct (parts_in_bounds sts idx Hb) as [Hds Hcs].
    rewrite (spec_entry t idx Ht Hb), vred_veq.
    pose proof (code_solve_satisfies_the_bellman_equation m p n dch cch Hperm Hnd Hnds Hvalid Hnames t (dpart sts idx) (cpart sts idx) Ht) as B.
    specialize (B ltac:(intros; lia) (fun _ => Hlast t E) Hds Hcs). unfold Vc. eapply veq_trans; [exact B|]. clear B.
    replace (t =? n - 1) with true by (symmetry; apply Nat.eqb_eq; lia).
    replace (S t =? n) with true by (symmetry; apply Nat.eqb_eq; lia).
    apply value_at_last_any_next. exact (code_state_is_spec_state m idx Hnds Hb).
  - assert (E : S t < n) by lia.
    destruct (parts_in_bounds sts idx Hb) as [Hds Hcs].
    rewrite (spec_entry t idx Ht Hb), vred_veq.
    pose proof (code_solve_satisfies_the_bellman_equation m p n dch cch Hperm Hnd Hnds Hvalid Hnames t (dpart sts idx) (cpart sts idx) Ht) as B.
    specialize (B (fun _ ds' dc cs' cc H1 H2 H3 H4 => evaluates_at_indep m p _ _ _ (Heval t E ds' dc cs' cc H1 H2 H3 H4))
                  ltac:(intros; lia) Hds Hcs). unfold Vc. eapply veq_trans; [exact B|]. clear B.
    replace (t =? n - 1) with false by (symmetry; apply Nat.eqb_neq; lia).
    replace (S t =? n) with false by (symmetry; apply Nat.eqb_neq; lia).
    apply (value_at_veq_on_grid m p Hvalid); [|exact (code_state_is_spec_state m idx Hnds Hb)].
    intros i Hi. unfold next_table, table_of.
    pose proof (IH (S t) i ltac:(lia) E Hi) as V. destruct (Hfin (S t) i E Hi) as (q & Hq). fold Vs in Hq. rewrite Hq in *.
    fold Vc. change (states m) with sts.
    destruct (get VUndef (nth (S t) Vc (scalar VUndef)) (dpart sts i ++ cpart sts i)); simpl in V; try contradiction.
    exact V.
Qed.
End SolveIsSpec.

(* the statement for all periods at once *)
Theorem lcm_solve_is_the_specifications_solve (m : model) (p : params) (dch cch : list (string * grid)) :
  Permutation (dch ++ cch) (choices m) -> NoDup (map fst (choices m)) -> NoDup (map fst (states m)) -> grids_valid (states m) ->
  NoDup (map fst (dstates (states m) ++ dch ++ cstates (states m) ++ cch)) ->
  (forall t, S t < n_periods m -> forall ds dc cs cc,
     in_bounds (sizes (dstates (states m))) ds -> in_bounds (sizes dch) dc -> in_bounds (sizes (cstates (states m))) cs -> in_bounds (sizes cch) cc ->
     evaluates_at m p (fun _ => 0%Q) (spec_env t (dstates (states m)) dch (cstates (states m)) cch ds dc cs cc)) ->
  (forall t, S t = n_periods m -> forall ds dc cs cc,
     in_bounds (sizes (dstates (states m))) ds -> in_bounds (sizes dch) dc -> in_bounds (sizes (cstates (states m))) cs -> in_bounds (sizes cch) cc ->
     exists u, eval_fun (depth m) m p (spec_env t (dstates (states m)) dch (cstates (states m)) cch ds dc cs cc) "utility" = Some u) ->
  (forall t idx, t < n_periods m -> in_bounds (state_shape m) idx ->
     exists q, get VUndef (nth t (solve_spec m p) (scalar VUndef)) idx = VFin q) ->
  forall t idx, t < n_periods m -> in_bounds (state_shape m) idx ->
  veq (get VUndef (nth t (code_solve m p (n_periods m) dch cch) (scalar VUndef)) (dpart (states m) idx ++ cpart (states m) idx))
      (get VUndef (nth t (solve_spec m p) (scalar VUndef)) idx).
Proof.
  intros H1 H2 H3 H4 Hn H5 H6 H7 t idx Ht Hb.
  apply (code_solve_is_solve_spec m p dch cch H1 H2 H3 H4 Hn H5 H6 H7 (n_periods m - 1 - t) t idx); [lia|exact Ht|exact Hb].
Qed.

(* ---- decision procedures for the hypotheses (for concrete models) ---------------------------------------------- *)
Definition evaluates_in_all_periodsb (m : model) (p : params) (dch cch : list (string * grid)) : bool :=
  forallb (fun t => evaluates_everywhereb m p t (fun _ => 0%Q) (dstates (states m)) dch (cstates (states m)) cch)
          (seq 0 (n_periods m - 1)).
Lemma evaluates_in_all_periodsb_sound m p dch cch : evaluates_in_all_periodsb m p dch cch = true ->
  forall t, S t < n_periods m -> forall ds dc cs cc,
  in_bounds (sizes (dstates (states m))) ds -> in_bounds (sizes dch) dc -> in_bounds (sizes (cstates (states m))) cs -> in_bounds (sizes cch) cc ->
  evaluates_at m p (fun _ => 0%Q) (spec_env t (dstates (states m)) dch (cstates (states m)) cch ds dc cs cc).
Proof.
  unfold evaluates_in_all_periodsb. intros H t Ht. rewrite forallb_forall in H.
  apply evaluates_everywhereb_sound. apply H. apply in_seq. lia.
Qed.

Definition utility_defined_everywhereb (m : model) (p : params) (t : nat) (dch cch : list (string * grid)) : bool :=
  forallb (fun ds => forallb (fun dc => forallb (fun cs => forallb (fun cc =>
    is_some (eval_fun (depth m) m p (spec_env t (dstates (states m)) dch (cstates (states m)) cch ds dc cs cc) "utility"))
    (indices (sizes cch))) (indices (sizes (cstates (states m))))) (indices (sizes dch))) (indices (sizes (dstates (states m)))).
Lemma utility_defined_everywhereb_sound m p t dch cch : utility_defined_everywhereb m p t dch cch = true ->
  forall ds dc cs cc,
  in_bounds (sizes (dstates (states m))) ds -> in_bounds (sizes dch) dc -> in_bounds (sizes (cstates (states m))) cs -> in_bounds (sizes cch) cc ->
  exists u, eval_fun (depth m) m p (spec_env t (dstates (states m)) dch (cstates (states m)) cch ds dc cs cc) "utility" = Some u.
Proof.
  unfold utility_defined_everywhereb. intros H ds dc cs cc H1 H2 H3 H4.
  rewrite forallb_forall in H. specialize (H ds (proj2 (in_indices _ ds) H1)).
  rewrite forallb_forall in H. specialize (H dc (proj2 (in_indices _ dc) H2)).
  rewrite forallb_forall in H. specialize (H cs (proj2 (in_indices _ cs) H3)).
  rewrite forallb_forall in H. specialize (H cc (proj2 (in_indices _ cc) H4)).
  destruct (eval_fun _ _ _ _ _) as [u|]; [now exists u|discriminate].
Qed.

Definition spec_finite_everywhereb (m : model) (p : params) : bool :=
  forallb (fun t => forallb (fun idx => match get VUndef (nth t (solve_spec m p) (scalar VUndef)) idx with VFin _ => true | _ => false end)
                            (indices (state_shape m))) (seq 0 (n_periods m)).
Lemma spec_finite_everywhereb_sound m p : spec_finite_everywhereb m p = true ->
  forall t idx, t < n_periods m -> in_bounds (state_shape m) idx ->
  exists q, get VUndef (nth t (solve_spec m p) (scalar VUndef)) idx = VFin q.
Proof.
  unfold spec_finite_everywhereb. intros H t idx Ht Hb. rewrite forallb_forall in H.
  specialize (H t ltac:(apply in_seq; lia)). rewrite forallb_forall in H. specialize (H idx (proj2 (in_indices _ idx) Hb)).
  destruct (get VUndef _ idx) as [| |q]; try discriminate. now exists q.
Qed.

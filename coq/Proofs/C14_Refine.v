(* Proofs/C14_Refine.v — the function representation of lcm (Model/FunctionRepresentation.v) computes *)
(* the specification's read of a value table (Spec.Bellman.vread): exact in discrete states,            *)
(* multilinear in continuous ones with the outermost cells extended — provided the array holds the      *)
(* table in the documented layout (the hypothesis Hlayout, which is C05's contract).                    *)
From Coq Require Import Lqa Lia.
From LCM Require Import Base.Prelude Base.Arr Base.QKernel Gen.GridHelpersQ Model.Ndimage Model.FunctionRepresentation.
From LCM Require Import Spec.Interp Spec.Lang Spec.Bellman Proofs.C14_FunRep Proofs.C15_Lin.
Local Open Scope Q_scope.

(* ---- the specification's read, on finite tables, in Q ------------------------------------------- *)
Fixpoint qread (sts : list (string * grid)) (F : list nat -> Q) (vals : list Q) : option Q :=
  match sts, vals with
  | [], [] => Some (F [])
  | (_, GDisc n) :: r, v :: vs =>
      match is_label v n with
      | Some k => qread r (fun idx => F (k :: idx)) vs
      | None => None
      end
  | (_, GLin a b n) :: r, v :: vs =>
      let c := spec_lin_coord a b n v in
      match qread r (fun idx => F (cell_lo c n :: idx)) vs, qread r (fun idx => F (S (cell_lo c n) :: idx)) vs with
      | Some x, Some y => Some ((1 - cell_w c n) * x + cell_w c n * y)
      | _, _ => None
      end
  | _, _ => None
  end.

Lemma vread_finite : forall sts F vals,
  vread sts (fun idx => VFin (F idx)) vals = match qread sts F vals with Some q => VFin q | None => VUndef end.
Proof.
  induction sts as [|[x g] r IH]; intros F vals.
  - destruct vals; reflexivity.
  - destruct g as [n|a b n]; destruct vals as [|v vs]; cbn [vread qread]; try reflexivity.
    + destruct (is_label v n); [apply IH|reflexivity].
    + rewrite (IH (fun idx => F (cell_lo (spec_lin_coord a b n v) n :: idx)) vs),
              (IH (fun idx => F (S (cell_lo (spec_lin_coord a b n v) n) :: idx)) vs).
      destruct (qread r _ vs), (qread r _ vs); reflexivity.
Qed.

(* ---- select the discrete labels, then interpolate over the continuous axes ----------------------- *)
(* the index in declaration order from the discrete labels and the continuous node indices *)
Fixpoint merge (sts : list (string * grid)) (dl cidx : list nat) : list nat :=
  match sts with
  | [] => []
  | (_, GDisc _) :: r => match dl with k :: dl' => k :: merge r dl' cidx | [] => [] end
  | (_, GLin _ _ _) :: r => match cidx with i :: ci' => i :: merge r dl ci' | [] => [] end
  end.
Fixpoint disc_labels (sts : list (string * grid)) (vals : list Q) : option (list nat) :=
  match sts, vals with
  | [], [] => Some []
  | (_, GDisc n) :: r, v :: vs => do k <- is_label v n ;; do l <- disc_labels r vs ;; Some (k :: l)
  | (_, GLin _ _ _) :: r, _ :: vs => disc_labels r vs
  | _, _ => None
  end.
Fixpoint cont_sizes (sts : list (string * grid)) : list nat :=
  match sts with
  | [] => []
  | (_, GDisc _) :: r => cont_sizes r
  | (_, GLin _ _ n) :: r => n :: cont_sizes r
  end.
Fixpoint cont_coords (sts : list (string * grid)) (vals : list Q) : list Q :=
  match sts, vals with
  | (_, GDisc _) :: r, _ :: vs => cont_coords r vs
  | (_, GLin a b n) :: r, v :: vs => spec_lin_coord a b n v :: cont_coords r vs
  | _, _ => []
  end.

Lemma interp_ext f g sh : forall cs, (forall idx, f idx = g idx) -> interp f sh cs = interp g sh cs.
Proof.
  revert f g. induction sh as [|n sh IH]; intros f g cs H; [destruct cs; apply H|].
  destruct cs as [|c cs]; [apply H|]. cbn [interp].
  rewrite (IH (fun idx => f (cell_lo c n :: idx)) (fun idx => g (cell_lo c n :: idx))) by (intros; apply H).
  rewrite (IH (fun idx => f (S (cell_lo c n) :: idx)) (fun idx => g (S (cell_lo c n) :: idx))) by (intros; apply H).
  reflexivity.
Qed.

Theorem qread_is_select_then_interp : forall sts F vals q dl,
  qread sts F vals = Some q -> disc_labels sts vals = Some dl ->
  q = interp (fun cidx => F (merge sts dl cidx)) (cont_sizes sts) (cont_coords sts vals).
Proof.
  induction sts as [|[x g] r IH]; intros F vals q dl Hq Hd.
  - destruct vals; [|discriminate]. cbn in *. now injection Hq as <-.
  - destruct g as [n|a b n]; destruct vals as [|v vs]; try discriminate; cbn [qread disc_labels] in Hq, Hd.
    + destruct (is_label v n) as [k|]; [|discriminate]. cbn [obind] in Hd.
      destruct (disc_labels r vs) as [l|] eqn:El; [|discriminate]. cbn [obind] in Hd. injection Hd as <-.
      cbn [cont_sizes cont_coords]. rewrite (IH (fun idx => F (k :: idx)) vs q l Hq El).
      apply interp_ext. intros idx. reflexivity.
    + cbn [cont_sizes cont_coords interp].
      destruct (qread r (fun idx => F (cell_lo (spec_lin_coord a b n v) n :: idx)) vs) as [x1|] eqn:E1; [|discriminate].
      destruct (qread r (fun idx => F (S (cell_lo (spec_lin_coord a b n v) n) :: idx)) vs) as [x2|] eqn:E2; [|discriminate].
      injection Hq as <-.
      rewrite (IH _ vs x1 dl E1 Hd), (IH _ vs x2 dl E2 Hd). reflexivity.
Qed.

(* ---- interp respects == in the values and in the coordinates ------------------------------------- *)
Lemma cell_lo_compat c c' n : c == c' -> cell_lo c n = cell_lo c' n.
Proof. intros H. unfold cell_lo. now rewrite H. Qed.
Lemma cell_w_compat c c' n : c == c' -> cell_w c n == cell_w c' n.
Proof. intros H. unfold cell_w. rewrite (cell_lo_compat c c' n H), H. reflexivity. Qed.

Lemma interp_compat : forall sh f g cs cs',
  (forall idx, f idx == g idx) -> Forall2 Qeq cs cs' -> interp f sh cs == interp g sh cs'.
Proof.
  induction sh as [|n sh IH]; intros f g cs cs' Hf Hc.
  - destruct cs, cs'; apply Hf.
  - inversion Hc as [|c c' r r' Hcc Hr]; subst; [apply Hf|]. cbn [interp].
    rewrite (cell_w_compat c c' n Hcc), (cell_lo_compat c c' n Hcc).
    rewrite (IH (fun idx => f (cell_lo c' n :: idx)) (fun idx => g (cell_lo c' n :: idx)) r r') by (trivial; intros; apply Hf).
    rewrite (IH (fun idx => f (S (cell_lo c' n) :: idx)) (fun idx => g (S (cell_lo c' n) :: idx)) r r') by (trivial; intros; apply Hf).
    reflexivity.
Qed.

(* interp only looks at in-bounds entries (cells are clipped into the grid) *)
Lemma cell_lo_in_range c n : (2 <= n)%nat -> (cell_lo c n < n /\ S (cell_lo c n) < n)%nat.
Proof.
  intros H. unfold cell_lo, Zclip. 
  destruct (Z.ltb_spec (Qfloor c) 0); [rewrite Z2Nat.inj_0 || simpl; lia|].
  destruct (Z.ltb_spec (Z.of_nat n - 2) (Qfloor c)); lia.
Qed.

Lemma interp_compat_in_bounds : forall sh f g cs,
  Forall (fun n => (2 <= n)%nat) sh -> length cs = length sh ->
  (forall idx, in_bounds sh idx -> f idx == g idx) -> interp f sh cs == interp g sh cs.
Proof.
  induction sh as [|n sh IH]; intros f g cs Hn Hl Hf.
  - destruct cs; [|discriminate]. apply Hf. exact I.
  - destruct cs as [|c cs]; [discriminate|]. inversion Hn as [|? ? H2 Hn']; subst. cbn [interp].
    destruct (cell_lo_in_range c n H2) as [L1 L2].
    rewrite (IH (fun idx => f (cell_lo c n :: idx)) (fun idx => g (cell_lo c n :: idx)) cs Hn')
      by (simpl in Hl; try lia; intros idx Hi; apply Hf; split; assumption).
    rewrite (IH (fun idx => f (S (cell_lo c n) :: idx)) (fun idx => g (S (cell_lo c n) :: idx)) cs Hn')
      by (simpl in Hl; try lia; intros idx Hi; apply Hf; split; assumption).
    reflexivity.
Qed.

(* ---- the refinement ------------------------------------------------------------------------------- *)
(* the continuous axes handed to the function representation: grid description and next value *)
Fixpoint conts_of (sts : list (string * grid)) (vals : list Q) : list cont_axis :=
  match sts, vals with
  | (_, GDisc _) :: r, _ :: vs => conts_of r vs
  | (_, GLin a b n) :: r, v :: vs => mkCont a b n v :: conts_of r vs
  | _, _ => []
  end.

Definition grids_valid (sts : list (string * grid)) : Prop :=
  Forall (fun sg : string * grid => match snd sg with GLin a b n => a < b /\ (2 <= n)%nat | GDisc _ => True end) sts.

Lemma coords_of_conts sts : forall vals, grids_valid sts -> length vals = length sts ->
  Forall2 Qeq (coords (conts_of sts vals)) (cont_coords sts vals).
Proof.
  induction sts as [|[x g] r IH]; intros vals Hg Hl.
  - destruct vals; constructor.
  - destruct vals as [|v vs]; [discriminate|]. inversion Hg as [|? ? H1 Hg']; subst. simpl in Hl.
    destruct g as [n|a b n]; cbn [conts_of cont_coords].
    + apply IH; [exact Hg'|lia].
    + cbn [snd] in H1. destruct H1 as [Hab Hn]. unfold coords. cbn [map c_value c_start c_stop c_n]. constructor.
      * now apply lin_coord_is_spec.
      * apply IH; [exact Hg'|lia].
Qed.

Lemma length_conts_of sts : forall vals, length vals = length sts -> length (conts_of sts vals) = length (cont_sizes sts).
Proof.
  induction sts as [|[x g] r IH]; intros vals Hl; [destruct vals; reflexivity|].
  destruct vals as [|v vs]; [discriminate|]. simpl in Hl. destruct g; cbn [conts_of cont_sizes length]; [|f_equal]; apply IH; lia.
Qed.

Lemma cont_sizes_ge2 sts : grids_valid sts -> Forall (fun n => (2 <= n)%nat) (cont_sizes sts).
Proof.
  induction sts as [|[x g] r IH]; intros Hg; [constructor|]. inversion Hg as [|? ? H1 Hg']; subst.
  destruct g as [n|a b n]; cbn [cont_sizes]; [now apply IH|]. constructor; [exact (proj2 H1)|now apply IH].
Qed.

Section Refinement.
Variables (sts : list (string * grid)) (F : list nat -> Q) (vals : list Q) (q : Q) (dl : list nat).
Variables (vf : arr Q) (indexer : option (arr Z)) (rlabels dlabels : list Z).
Hypothesis Hvalid : grids_valid sts.
Hypothesis Hlen : length vals = length sts.
Hypothesis Hq : qread sts F vals = Some q.
Hypothesis Hd : disc_labels sts vals = Some dl.
Hypothesis Hcont : conts_of sts vals <> [].
(* the array, after indexing with the state index and the discrete labels, has the continuous axes *)
Hypothesis Hshape : cont_shape vf indexer rlabels dlabels = cont_sizes sts.
(* C05's layout contract: the array holds the table *)
Hypothesis Hlayout : forall cidx, in_bounds (cont_sizes sts) cidx ->
  get 0 vf (positions vf indexer rlabels dlabels ++ cidx) == F (merge sts dl cidx).

Theorem function_representation_is_spec_read :
  function_representation vf indexer rlabels dlabels (conts_of sts vals) == q.
Proof.
  rewrite (funrep_is_interpolation vf indexer rlabels dlabels (conts_of sts vals) Hcont).
  - rewrite Hshape.
    rewrite (qread_is_select_then_interp sts F vals q dl Hq Hd).
    transitivity (interp (fun cidx => F (merge sts dl cidx)) (cont_sizes sts) (coords (conts_of sts vals))).
    + apply interp_compat_in_bounds.
      * now apply cont_sizes_ge2.
      * unfold coords. rewrite map_length. now apply length_conts_of.
      * intros idx Hi. rewrite (selected_entries vf indexer rlabels dlabels idx) by (now rewrite Hshape). now apply Hlayout.
    + apply interp_compat; [intros; reflexivity|]. now apply coords_of_conts.
  - rewrite Hshape. now apply length_conts_of.
  - rewrite Hshape. now apply cont_sizes_ge2.
Qed.

(* hence: what the code reads is what the specification reads (finite tables) *)
Corollary function_representation_is_vread :
  vread sts (fun idx => VFin (F idx)) vals
  = VFin q /\ function_representation vf indexer rlabels dlabels (conts_of sts vals) == q.
Proof. split; [rewrite vread_finite; now rewrite Hq|exact function_representation_is_spec_read]. Qed.
End Refinement.

(* no continuous state: the function representation is the table entry at the labels *)
Section DiscreteOnly.
Variables (sts : list (string * grid)) (F : list nat -> Q) (vals : list Q) (q : Q) (dl : list nat).
Variables (vf : arr Q) (indexer : option (arr Z)) (rlabels dlabels : list Z).
Hypothesis Hq : qread sts F vals = Some q.
Hypothesis Hd : disc_labels sts vals = Some dl.
Hypothesis Hcont : cont_sizes sts = [].
Hypothesis Hshape : cont_shape vf indexer rlabels dlabels = [].
Hypothesis Hlayout : get 0 vf (positions vf indexer rlabels dlabels) == F (merge sts dl []).

Lemma conts_of_nil : forall s v, cont_sizes s = [] -> conts_of s v = [].
Proof.
  induction s as [|[x g] r IH]; intros v H; [destruct v; reflexivity|].
  destruct g as [n|a b n]; [|discriminate]. destruct v as [|v0 vs]; [reflexivity|]. cbn [conts_of]. now apply IH.
Qed.

Theorem function_representation_discrete_only :
  function_representation vf indexer rlabels dlabels (conts_of sts vals) == q.
Proof.
  rewrite (conts_of_nil sts vals Hcont). unfold function_representation.
  change (get 0 (jax_lookup 0 vf (match indexer with
            | Some ix => [get (-1)%Z (jax_lookup (-1)%Z ix rlabels) []] | None => [] end ++ dlabels)) [])
    with (get 0 (selected vf indexer rlabels dlabels) []).
  rewrite (selected_entries vf indexer rlabels dlabels []) by (rewrite Hshape; exact I).
  rewrite app_nil_r, Hlayout.
  rewrite (qread_is_select_then_interp sts F vals q dl Hq Hd). rewrite Hcont.
  destruct (cont_coords sts vals); reflexivity.
Qed.
End DiscreteOnly.

(* Proofs/C02_SimulateSparseSpec.v — END TO END WITH FILTERS: every row of simulate is optimal for the specification's own      *)
(* solution: the all-rows theorem with filters composed with "what solve returns is solve_spec at the remaining states".         *)
From Coq Require Import Lqa Lia Permutation ZArith.
From LCM Require Import Base.Prelude Base.Arr Base.ArrOps Model.RandomChoice Model.StateSpace.
From LCM Require Import Spec.Lang Spec.Bellman Spec.Layout Proofs.ArrLemmas Proofs.Spec_Algebra Proofs.C11_Affine Proofs.C11_Horizon Proofs.C10_Choices
                        Proofs.C14_Refine Proofs.C14_OnLayoutIx Proofs.C18_Segment Proofs.C04_SimulateLoop
                        Proofs.C01_Compose Proofs.C01_MaxCompose Proofs.C01_Period Proofs.C01_Agents Proofs.C01_Solve Proofs.C01_SolveSpec
                        Proofs.C01_Sparse Proofs.C01_SparseSolve Proofs.C01_SparseSpec
                        Proofs.C02_Decision Proofs.C02_SparseDecision Proofs.C02_DataRows Proofs.C02_SimulateAllSparse.
Local Open Scope nat_scope.

(* "the model evaluates at e" depends on e only through its bindings *)
Lemma node_vals_ext sts is_st (det det' : string -> Q) : (forall s, det s = det' s) -> forall idx, node_vals sts is_st det idx = node_vals sts is_st det' idx.
Proof.
  intros H. induction sts as [|[s g] r IH]; intros idx; [reflexivity|]. cbn [node_vals].
  destruct (is_st s); [destruct idx; [reflexivity|now rewrite IH]|now rewrite H, IH].
Qed.

Lemma evaluates_at_ix_env m p F isr remaining e e' : env_equiv e e' ->
  evaluates_at_ix m p F isr remaining e -> evaluates_at_ix m p F isr remaining e'.
Proof.
  intros He (((u & Hu) & Hdet & (rows & Hrows & Hlen) & Hread) & Hrem).
  assert (Ed : forall s, det_of m p e s = det_of m p e' s).
  { intros s. unfold det_of, next_det. now rewrite (eval_fun_env m p e e' He). }
  split; [repeat split|].
  - exists u. now rewrite <- (eval_fun_env m p e e' He).
  - intros sg Hin Hs. destruct (Hdet sg Hin Hs) as (q & Hq). exists q. unfold next_det in *. now rewrite <- (eval_fun_env m p e e' He).
  - exists rows. split; [|exact Hlen]. rewrite <- Hrows. clear -He. induction (stoch_states m) as [|sg r IH]; [reflexivity|].
    cbn [omap]. now rewrite (weight_row_env m p e e' He), IH.
  - intros idx Hb. rewrite <- (node_vals_ext _ _ _ _ Ed). exact (Hread idx Hb).
  - intros idx dl Hb Hd. rewrite <- (node_vals_ext _ _ _ _ Ed) in Hd. exact (Hrem idx dl Hb Hd).
Qed.

Lemma Forall2_flat_map' {X} (l1 : list X) (f g : X -> list val) :
  (forall x, In x l1 -> Forall2 veq (f x) (g x)) -> Forall2 veq (flat_map f l1) (flat_map g l1).
Proof.
  induction l1 as [|x r IHl]; intros H; [constructor|]. cbn [flat_map].
  apply Forall2_app; [apply H; left; reflexivity|apply IHl; intros y Hy; apply H; right; exact Hy].
Qed.

Section SimulateSparseSpec.
Variables (m : model) (p : params) (dch cch : list (string * grid)).
Let n := Lang.n_periods m.
Let sts := states m.
Let isr := is_restricted m.
Let rs := restricted_states m.
Let rc := restricted_choices m.
Let dst := free_discrete_states m.
Let cst := free_continuous_states m.
Hypothesis Hperm : Permutation (rc ++ dch ++ cch) (choices m).
Hypothesis Hnd : NoDup (map fst (choices m)).
Hypothesis Hnodup : NoDup (map fst (rs ++ rc)).
Hypothesis Hrs : rs <> [].
Hypothesis Hfree : forall x, In x (map fst (dst ++ cst ++ dch ++ cch)) -> is_restricted m x = false.
Hypothesis Hnds : NoDup (map fst sts).
Hypothesis Hvalid : grids_valid sts.
Hypothesis Hdisc : forall sg, In sg sts -> isr (fst sg) = true -> is_cont (snd sg) = false.
Hypothesis Hnames : NoDup (map fst (rc ++ dst ++ dch ++ cst ++ cch)).
Hypothesis Hsparse_name : ~ In "__sparse__"%string (map fst (rc ++ dch ++ cch)).
Hypothesis Hall_names : NoDup (map fst (rs ++ rc ++ dst ++ cst ++ dch ++ cch) ++ [period_name]).
Hypothesis Hn : 1 <= n.
(* the hypotheses of "solve with filters is solve_spec" *)
Hypothesis Heval : forall t, S t < n -> forall si ci ds dc cs cidx,
  in_bounds (sizes rs) si -> in_bounds (sizes rc) ci -> in_bounds (sizes dst) ds -> in_bounds (sizes dch) dc ->
  in_bounds (sizes cst) cs -> in_bounds (sizes cch) cidx ->
  evaluates_at_ix m p (fun _ => 0%Q) isr (rem_at m p (S t)) (sp_env t rs rc dst dch cst cch si ci ds dc cs cidx).
Hypothesis Hlast : forall t, S t = n -> forall si ci ds dc cs cidx,
  in_bounds (sizes rs) si -> in_bounds (sizes rc) ci -> in_bounds (sizes dst) ds -> in_bounds (sizes dch) dc ->
  in_bounds (sizes cst) cs -> in_bounds (sizes cch) cidx ->
  exists u, eval_fun (depth m) m p (sp_env t rs rc dst dch cst cch si ci ds dc cs cidx) "utility" = Some u.
Hypothesis Hfin : forall t idx, t < n -> in_bounds (state_shape m) idx -> In (rpart isr sts idx) (rem_at m p t) ->
  exists q, get VUndef (nth t (solve_spec m p) (scalar VUndef)) idx = VFin q.

Variable nag : nat.
Variable trans : S3 -> list (list nat * list nat * list nat) -> nat -> list key -> S3.
Variables (initial : S3) (seed : nat) (prng : nat -> key) (n_stoch : nat).

Theorem every_simulated_row_with_filters_is_optimal_for_the_specifications_solution t a :
  t < n -> a < nag -> S t < n ->
  let '(stRs, stDst, stCst) := sp_states_at m p n dch cch nag trans initial seed prng n_stoch t in
  let keepA := keep_of m p t rs rc dst cst stRs stDst stCst in
  let colsA := data_colsA rc nag keepA stRs stDst in
  let colsC := data_colsC rc nag keepA stCst in
  length stRs = length rs -> length stDst = length dst -> length stCst = length cst -> (colsA ++ colsC)%list <> [] ->
  (exists ci, in_bounds (sizes rc) ci /\ keepA a ci = true) ->
  (forall row dc cc, row < length (data_rows rc nag keepA) -> in_bounds (sizes dch) dc -> in_bounds (sizes cch) cc ->
     evaluates_at_ix m p (fun _ => 0%Q) isr (rem_at m p (S t))
                     (env_of_vals6 t rs rc dst dch cst cch (agent_vals dch cch colsA colsC row dc cc))) ->
  let vspec := fun idx => get VUndef (nth (S t) (solve_spec m p) (scalar VUndef)) idx in
  let sigma := agent_sigma rs dst cst stRs stDst stCst a in
  veq (sp_row_value m p n dch cch nag trans initial seed prng n_stoch t a) (value_at m p t false vspec sigma) /\
  (sp_row_value m p n dch cch nag trans initial seed prng n_stoch t a <> VNegInf ->
   let '(ci, red, cidx) := sp_row_choice m p n dch cch nag trans initial seed prng n_stoch t a in
   in_bounds (sizes rc) ci /\ in_bounds (sizes dch) red /\ in_bounds (sizes cch) cidx /\
   feasible m p (sigma ++ (env_of_idx rc ci ++ env_of_idx dch red ++ env_of_idx cch cidx) ++ [(period_name, Qofnat t)])%list = true /\
   veq (objective m p false vspec (sigma ++ (env_of_idx rc ci ++ env_of_idx dch red ++ env_of_idx cch cidx) ++ [(period_name, Qofnat t)])%list)
       (sp_row_value m p n dch cch nag trans initial seed prng n_stoch t a)).
Proof.
  intros Ht Ha Ht'.
  assert (Hfree2 : forall x, In x (map fst (dch ++ cch)) -> is_restricted m x = false).
  { intros x Hx. apply Hfree. rewrite !map_app in *. apply in_app_or in Hx. destruct Hx; repeat (apply in_or_app; (now left) || right); assumption. }
  pose proof (every_simulated_row_with_filters_is_a_feasible_maximiser m p n dch cch Hperm Hnd Hnodup Hrs Hfree Hnds Hvalid Hdisc Hnames Hsparse_name
                Hall_names Hn nag trans initial seed prng n_stoch t a Ht Ha) as ALL.
  destruct (sp_states_at m p n dch cch nag trans initial seed prng n_stoch t) as [[stRs stDst] stCst]. cbv zeta in *.
  intros L1 L2 L3 Hne Hex Hev0.
  set (keepA := keep_of m p t rs rc dst cst stRs stDst stCst) in *.
  set (colsA := data_colsA rc nag keepA stRs stDst) in *. set (colsC := data_colsC rc nag keepA stCst) in *.
  assert (Hev : forall row dc cc, row < length (data_rows rc nag keepA) -> in_bounds (sizes dch) dc -> in_bounds (sizes cch) cc ->
            evaluates_at_ix m p (next_table_sparse m p n dch cch t) isr (rem_at m p (S t))
                            (env_of_vals6 t rs rc dst dch cst cch (agent_vals dch cch colsA colsC row dc cc))).
  { intros row dc cc H1 H2 H3. exact (evaluates_at_ix_indep m p _ _ _ _ _ (Hev0 row dc cc H1 H2 H3)). }
  destruct (ALL L1 L2 L3 Hne Hex Ht' Hev) as (_ & HV & HM). clear ALL.
  set (sigma := agent_sigma rs dst cst stRs stDst stCst a) in *.
  set (vc := fun idx => VFin (next_table_sparse m p n dch cch t idx)) in *.
  set (vs := fun idx => get VUndef (nth (S t) (solve_spec m p) (scalar VUndef)) idx).
  (* the two next value functions agree where the specification reads *)
  assert (Hv : forall i, in_bounds (state_shape m) i -> In (rpart isr sts i) (rem_at m p (S t)) -> veq (vc i) (vs i)).
  { intros i Hi Hr. apply (next_tables_agree m p dch cch Hdisc Hfin t Ht'); [|exact Hi|exact Hr].
    intros s ds cs Hs Hds Hcs.
    exact (code_solve_sparse_is_solve_spec m p dch cch Hperm Hnd Hnodup Hrs Hfree Hnds Hvalid Hdisc Hnames Hsparse_name Heval Hlast Hfin
             (n - 1 - S t) (S t) ltac:(lia) Ht' s ds cs Hs Hds Hcs). }
  (* the structure of the data rows of agent a *)
  destruct (data_cols_lengths rc nag keepA stRs stDst stCst rs dst cst L1 L2 L3) as [HlA HlC].
  destruct (data_rows_structure rc nag keepA stRs stDst stCst a Ha) as [Hrows Hstored].
  assert (La : forall cols : list (list Q), length (at_row cols a) = length cols) by (intros; unfold at_row; apply map_length).
  (* at the environment of a kept combination the model evaluates (transfer from the row's bound environment) *)
  assert (Hkept : forall ci dc cidx, in_bounds (sizes rc) ci -> in_bounds (sizes dch) dc -> in_bounds (sizes cch) cidx -> keepA a ci = true ->
            evaluates_at_ix m p (next_table_sparse m p n dch cch t) isr (rem_at m p (S t))
              (sigma ++ (env_of_idx rc ci ++ env_of_idx dch dc ++ env_of_idx cch cidx) ++ [(period_name, Qofnat t)])%list).
  { intros ci dc cidx Hci Hdc Hc Hk. destruct (Hstored ci Hci Hk) as (row & Hrow & Er).
    destruct (Hrows row Hrow) as [_ Hris]. rewrite Er in Hris.
    assert (Hr : row < length (data_rows rc nag keepA)) by (apply in_rows in Hrow; rewrite data_ids_length in Hrow; lia).
    apply (evaluates_at_ix_env m p _ isr _ (env_of_vals6 t rs rc dst dch cst cch (agent_vals dch cch colsA colsC row dc cidx))); [|exact (Hev row dc cidx Hr Hdc Hc)].
    intros x. rewrite (env6_of_row t rs rc dst dch cst cch Hall_names colsA colsC HlA HlC row dc cidx Hdc Hc x).
    exact (row_env_equiv t rs rc dst dch cst cch Hall_names colsA colsC (at_row stRs a) (at_row stDst a) (at_row stCst a)
             (eq_trans (La stRs) L1) (eq_trans (La stDst) L2) (eq_trans (La stCst) L3) row ci dc cidx Hris Hci Hdc Hc x). }
  assert (Hdrop : forall ci dc cidx, keepA a ci = false ->
            feasible m p (sigma ++ (env_of_idx rc ci ++ env_of_idx dch dc ++ env_of_idx cch cidx) ++ [(period_name, Qofnat t)])%list = false).
  { intros ci dc cidx Ek.
    exact (dropped_on_data_rows m p t rs rc dst dch cst cch stRs stDst stCst Hfree2 a ci dc cidx Ek). }
  assert (HV' : veq (sp_row_value m p n dch cch nag trans initial seed prng n_stoch t a) (value_at m p t false vc sigma)) by exact HV.
  clear HV Hrows Hstored Hev Hev0 Hex.
  split.
  - eapply veq_trans; [exact HV'|].
    rewrite (value_at_three_groups m p t false vc sigma rc dch cch Hperm Hnd), (value_at_three_groups m p t false vs sigma rc dch cch Hperm Hnd).
    apply vmaxl_compat.
    apply Forall2_flat_map'. intros ci Hci. apply in_indices in Hci. apply Forall2_flat_map'. intros dc Hdc. apply in_indices in Hdc.
    apply Forall2_map_in. intros cidx Hc. apply in_indices in Hc. unfold cand3. cbv zeta.
    destruct (keepA a ci) eqn:Ek.
    + destruct (feasible m p _); [|reflexivity].
      exact (objective_veq_on_remaining m p _ isr (rem_at m p (S t)) _ Hnds Hvalid (Hkept ci dc cidx Hci Hdc Hc Ek) vs vc Hv).
    + rewrite (Hdrop ci dc cidx Ek). reflexivity.
  - intros Hneq. specialize (HM Hneq).
    destruct (sp_row_choice m p n dch cch nag trans initial seed prng n_stoch t a) as [[ci red] cidx].
    destruct HM as (B1 & B2 & B3 & B4 & B5). split; [exact B1|]. split; [exact B2|]. split; [exact B3|]. split; [exact B4|].
    eapply veq_trans; [|exact B5]. apply veq_sym.
    assert (Hk : keepA a ci = true).
    { destruct (keepA a ci) eqn:Ek; [reflexivity|].
      assert (B4' : feasible m p (sigma ++ (env_of_idx rc ci ++ env_of_idx dch red ++ env_of_idx cch cidx) ++ [(period_name, Qofnat t)])%list = true) by exact B4.
      rewrite (Hdrop ci red cidx Ek) in B4'. discriminate. }
    exact (objective_veq_on_remaining m p _ isr (rem_at m p (S t)) _ Hnds Hvalid (Hkept ci red cidx B1 B2 B3 Hk) vs vc Hv).
Qed.
End SimulateSparseSpec.

(* Proofs/C01_Bridge.v — the expectation computed by the regenerated Bellman operator of the code   *)
(* (sum over the node grid of value x product of weights, Proofs/C11_ModelFunctions.v) is the         *)
(* specification's continuation value (Spec/Bellman.v), PROVIDED the two hand-modelled components      *)
(* deliver what their own properties say: the weight arrays hold the transition rows the Spec selects  *)
(* (C07/C03) and the product-mapped function representation holds the Spec's reads of V_{t+1} at the   *)
(* nodes (C14).  The hypotheses name exactly what is not regenerated.                                  *)
From Coq Require Import Lqa Lia.
From LCM Require Import Base.Prelude Base.Arr Base.ArrOps Model.Dispatchers Model.QOps.
From LCM Require Import Spec.Lang Spec.Bellman Proofs.ArrLemmas Proofs.C11_Affine Proofs.C11_ModelFunctions.
Local Open Scope Q_scope.

(* the weight of the node idx: product of the rows' entries, nested like jnp.prod / like Spec.nodes *)
Definition wprod (rows : list (list Q)) (idx : list nat) : Q :=
  qprod_list (map (fun ri : list Q * nat => nth (snd ri) (fst ri) 0) (combine rows idx)).
Definition node_labels (ss : list (string * grid)) (idx : list nat) : env :=
  combine (map fst ss) (map Qofnat idx).

Lemma map_flat_map {A B C} (f : B -> C) (g : A -> list B) l : map f (flat_map g l) = flat_map (fun x => map f (g x)) l.
Proof. induction l as [|x r IH]; simpl; [reflexivity|]. now rewrite map_app, IH. Qed.

Lemma flat_map_ext' {A B} (f g : A -> list B) l : (forall x, f x = g x) -> flat_map f l = flat_map g l.
Proof. intros H. induction l as [|x r IH]; simpl; [reflexivity|]. now rewrite H, IH. Qed.

(* Spec.nodes enumerates the node grid in row-major order *)
Lemma nodes_enumeration m p e : forall ss rows,
  omap (fun sg : string * grid => weight_row m p e (fst sg)) ss = Some rows ->
  nodes m p e ss
  = Some (map (fun idx => (node_labels ss idx, wprod rows idx)) (indices (map (fun sg => grid_size (snd sg)) ss))).
Proof.
  induction ss as [|[s g] r IH]; intros rows H.
  - cbn in H. injection H as <-. reflexivity.
  - cbn [omap fst] in H. destruct (weight_row m p e s) as [row|] eqn:Ew; [|discriminate]. cbn [obind] in H.
    destruct (omap _ r) as [rows'|] eqn:Er; [|discriminate]. cbn [obind] in H. injection H as <-.
    cbn [nodes]. rewrite Ew. cbn [obind]. rewrite (IH rows' eq_refl). cbn [obind].
    cbn [map snd indices]. f_equal. rewrite map_flat_map. apply flat_map_ext'. intros k.
    rewrite !map_map. apply map_ext. intros idx. cbn [fst snd]. unfold node_labels, wprod. cbn [map combine fst snd qprod_list fold_right].
    reflexivity.
Qed.

Lemma wprod_as_seq rows idx : length idx = length rows ->
  wprod rows idx = qprod_list (map (fun i => nth (nth i idx 0%nat) (nth i rows []) 0) (seq 0 (length rows))).
Proof.
  intros H. unfold wprod. f_equal. revert idx H. induction rows as [|row r IH]; intros idx H; [reflexivity|].
  destruct idx as [|k idx]; [discriminate|]. cbn [combine map length seq fst snd nth]. f_equal.
  rewrite <- seq_shift, map_map. rewrite IH by (simpl in H; lia). reflexivity.
Qed.

Section Bridge.
Variables (m : model) (p : params) (e : env) (vnext : list nat -> val).
Let ss := stoch_states m.
Variable rows : list (list Q).
Hypothesis Hrows : omap (fun sg : string * grid => weight_row m p e (fst sg)) ss = Some rows.

(* what the code has in its arrays *)
Variables (ccvs : qarr) (ws : list qarr).
Let shape_ := map (fun sg : string * grid => grid_size (snd sg)) ss.
(* C07/C03: the weight arrays hold the rows the specification selects *)
Hypothesis Hws : length ws = length rows /\
  forall i k, (i < length rows)%nat -> qget (nth i ws dflt_arr) [k] = nth k (nth i rows []) 0.
(* C14: the product-mapped function representation holds the specification's reads at the nodes *)
Hypothesis Hccvs : forall idx, in_bounds shape_ idx ->
  exists q, node_value m p vnext e (node_labels ss idx) = VFin q /\ q == qget ccvs idx.

Theorem code_expectation_is_spec_continuation :
  exists c, continuation m p vnext e = VFin c /\
            c == qsum (map (fun idx => qget ccvs idx *
                                       qprod_list (map (fun i => qget (nth i ws dflt_arr) [nth i idx 0%nat]) (seq 0 (length rows))))
                           (indices shape_)).
Proof.
  rewrite continuation_as_expect. fold ss. rewrite (nodes_enumeration m p e ss rows Hrows). fold shape_.
  assert (Hlen : length rows = length ss).
  { clear -Hrows. revert rows Hrows. induction ss as [|sg r IH]; intros rows H; [cbn in H; now injection H as <-|].
    cbn [omap] in H. destruct (weight_row m p e (fst sg)); [|discriminate]. cbn [obind] in H.
    destruct (omap _ r) as [rows'|]; [|discriminate]. cbn [obind] in H. injection H as <-. simpl. f_equal. now apply IH. }
  (* reads are finite on the whole node grid *)
  set (nds := map (fun idx => (node_labels ss idx, wprod rows idx)) (indices shape_)).
  assert (E : exists c, expect (node_value m p vnext e) nds = VFin c /\
                        c == qsum (map (fun idx => qget ccvs idx * wprod rows idx) (indices shape_))).
  { unfold nds. clear nds. generalize (fun idx (H : In idx (indices shape_)) => Hccvs idx (proj1 (in_indices shape_ idx) H)).
    generalize (indices shape_). intros L HL. induction L as [|idx L IH].
    - exists 0. split; reflexivity.
    - destruct IH as (c & Hc & Ec); [intros i Hi; apply HL; now right|].
      destruct (HL idx (or_introl eq_refl)) as (q & Hq & Eq).
      exists (c + wprod rows idx * q). unfold expect in *. cbn [map fold_right fst snd].
      rewrite Hq, Hc. split; [reflexivity|]. unfold qsum in *. cbn [map fold_right]. rewrite Ec, Eq. ring. }
  destruct E as (c & Hc & Ec). exists c. split; [exact Hc|]. rewrite Ec. unfold qsum.
  assert (Hmap : forall L, (forall idx, In idx L -> in_bounds shape_ idx) ->
            fold_right Qplus 0 (map (fun idx => qget ccvs idx * wprod rows idx) L)
            == fold_right Qplus 0 (map (fun idx => qget ccvs idx *
                 qprod_list (map (fun i => qget (nth i ws dflt_arr) [nth i idx 0%nat]) (seq 0 (length rows)))) L)).
  { induction L as [|idx L IH]; intros HL; [reflexivity|]. cbn [map fold_right]. rewrite IH by (intros; apply HL; now right).
    rewrite wprod_as_seq.
    2:{ rewrite (in_bounds_length _ _ (HL idx (or_introl eq_refl))). unfold shape_. now rewrite map_length, Hlen. }
    replace (map (fun i => qget (nth i ws dflt_arr) [nth i idx 0%nat]) (seq 0 (length rows)))
      with (map (fun i => nth (nth i idx 0%nat) (nth i rows []) 0) (seq 0 (length rows))); [reflexivity|].
    apply map_ext_in. intros i Hi. apply in_seq in Hi. symmetry. apply (proj2 Hws). lia. }
  apply Hmap. intros idx. apply in_indices.
Qed.

(* hence the specification's objective of a non-last period is  utility + beta * (the code's sum) *)
Theorem spec_objective_from_code_sum u : eval_fun (depth m) m p e "utility" = Some u ->
  exists v, objective m p false vnext e = VFin v /\
            v == u + beta p *
                 qsum (map (fun idx => qget ccvs idx *
                                       qprod_list (map (fun i => qget (nth i ws dflt_arr) [nth i idx 0%nat]) (seq 0 (length rows))))
                           (indices shape_)).
Proof.
  intros Hu. destruct code_expectation_is_spec_continuation as (c & Hc & Ec).
  exists (u + beta p * c). unfold objective. rewrite Hu, Hc. split; [reflexivity|]. now rewrite Ec.
Qed.
End Bridge.

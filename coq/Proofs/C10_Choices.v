(* Proofs/C10_Choices.v — the solution of the specification does not depend on the declaration      *)
(* order of the choice variables: permuting them changes the order in which the admissible choices   *)
(* are enumerated and the order of the entries of each environment, nothing else.                    *)
From Coq Require Import Lqa Permutation.
From LCM Require Import Base.Prelude Base.Arr Spec.Lang Spec.Bellman.
From LCM Require Import Proofs.Spec_Algebra Proofs.Spec_Restrictions Proofs.Spec_Bellman
                        Proofs.C11_Affine Proofs.C11_Horizon Proofs.C10_Rewrite.
Local Open Scope Q_scope.

(* ---- the maximum of a list depends only on the set of its values --------------------------------- *)
Lemma vmax_idem x : veq (vmax x x) x.
Proof. destruct x as [| |q]; simpl; auto. destruct (Qleb q q); reflexivity. Qed.

Lemma vmaxl_absorb x l : In x l -> veq (vmax x (vmaxl l)) (vmaxl l).
Proof.
  unfold vmaxl. induction l as [|y r IH]; intros Hin; [contradiction|]. simpl.
  destruct Hin as [->|Hin].
  - rewrite vmax_assoc. apply vmax_compat; [apply vmax_idem|reflexivity].
  - rewrite vmax_assoc, (vmax_comm x y), <- vmax_assoc. apply vmax_compat; [reflexivity|now apply IH].
Qed.

Lemma vmaxl_absorb_veq x y l : veq x y -> In y l -> veq (vmax x (vmaxl l)) (vmaxl l).
Proof. intros E Hin. rewrite (vmax_compat x y (vmaxl l) (vmaxl l) E (veq_refl _)). now apply vmaxl_absorb. Qed.

Lemma vmaxl_below l l' : (forall x, In x l -> exists y, In y l' /\ veq x y) -> veq (vmax (vmaxl l) (vmaxl l')) (vmaxl l').
Proof.
  induction l as [|x r IH]; intros H.
  - change (vmaxl []) with VNegInf. rewrite vmax_neginf_l. reflexivity.
  - change (vmaxl (x :: r)) with (vmax x (vmaxl r)). rewrite <- vmax_assoc.
    rewrite (vmax_compat x x _ (vmaxl l') (veq_refl x) (IH (fun z Hz => H z (or_intror Hz)))).
    destruct (H x (or_introl eq_refl)) as (y & Hy & E). now apply (vmaxl_absorb_veq x y).
Qed.

Theorem vmaxl_same_values l l' :
  (forall x, In x l -> exists y, In y l' /\ veq x y) ->
  (forall y, In y l' -> exists x, In x l /\ veq y x) ->
  veq (vmaxl l) (vmaxl l').
Proof.
  intros H1 H2. rewrite <- (vmaxl_below l l' H1). rewrite <- (vmaxl_below l' l H2) at 1. apply vmax_comm.
Qed.

(* ---- everything reads the environment through assoc only ----------------------------------------- *)
Definition env_equiv (e e' : env) : Prop := forall a, assoc a e = assoc a e'.

Section EnvEquiv.
Variables (m : model) (p : params) (e e' : env).
Hypothesis He : env_equiv e e'.

Lemma eval_fun_env : forall fuel name, eval_fun fuel m p e name = eval_fun fuel m p e' name.
Proof.
  induction fuel as [|fuel IH]; intros name; [reflexivity|]. cbn [eval_fun].
  destruct (find_fun m name) as [f|]; [|reflexivity].
  rewrite (omap_ext_in _ (fun a => match assoc a e' with
                                 | Some v => Some v
                                 | None => match find_fun m a with
                                           | Some _ => eval_fun fuel m p e' a
                                           | None => Some (par p (fname f) a) end end) (fargs f)); [reflexivity|].
  intros a _. rewrite (He a). destruct (assoc a e'); [reflexivity|]. destruct (find_fun m a); [apply IH|reflexivity].
Qed.

Lemma feasible_env : feasible m p e = feasible m p e'.
Proof.
  unfold feasible.
  assert (Hh : forall f, holds m p e f = holds m p e' f) by (intros f; unfold holds; now rewrite eval_fun_env).
  now rewrite !(forallb_ext_all _ _ _ Hh).
Qed.

Lemma weight_row_env s : weight_row m p e s = weight_row m p e' s.
Proof.
  unfold weight_row. destruct (find_fun m ("next_" ++ s)) as [f|]; [|reflexivity]. cbn [obind].
  destruct (assoc s (shocks p)); [|reflexivity]. cbn [obind].
  rewrite (omap_ext_in _ (fun d => let v := look e' d in
                                   if Qeqb (inject_Z (Qfloor v)) v && (0 <=? Qfloor v)%Z
                                   then Some (Z.to_nat (Qfloor v)) else None) (fargs f)); [reflexivity|].
  intros d _. cbv zeta. unfold look. now rewrite (He d).
Qed.

Lemma nodes_env : forall ss, nodes m p e ss = nodes m p e' ss.
Proof. induction ss as [|[s g] r IH]; [reflexivity|]. cbn [nodes]. now rewrite weight_row_env, IH. Qed.

Lemma continuation_env vnext : continuation m p vnext e = continuation m p vnext e'.
Proof.
  unfold continuation. rewrite nodes_env. destruct (nodes m p e' (stoch_states m)); [|reflexivity].
  apply fold_right_ext_local. intros [labels w] acc.
  rewrite (omap_ext_in _ (fun sg : string * grid => match assoc (fst sg) labels with
                                  | Some l => Some l | None => next_det m p e' (fst sg) end) (states m)); [reflexivity|].
  intros sg _. destruct (assoc (fst sg) labels); [reflexivity|]. unfold next_det. apply eval_fun_env.
Qed.

Lemma objective_env last vnext : objective m p last vnext e = objective m p last vnext e'.
Proof. unfold objective. now rewrite eval_fun_env, continuation_env. Qed.
End EnvEquiv.

(* ---- value tables that agree up to == give values that agree up to == ---------------------------- *)
Lemma vaff_one_zero x : veq (vaff 1 0 x) x.
Proof. destruct x; simpl; auto. ring. Qed.

Lemma expect_not_neginf rd nds : expect rd nds <> VNegInf.
Proof.
  destruct nds as [|[l w] r]; [discriminate|]. unfold expect. cbn [fold_right fst snd].
  destruct (rd l); try discriminate.
  match goal with |- context [match ?x with _ => _ end] => destruct x; discriminate end.
Qed.

Lemma continuation_veq m p vnext vnext' e :
  (forall idx, veq (vnext' idx) (vnext idx)) -> veq (continuation m p vnext' e) (continuation m p vnext e).
Proof.
  intros H. rewrite !continuation_as_expect. destruct (nodes m p e (stoch_states m)) as [nds|]; [|exact I].
  assert (Hrd : forall l, veq (node_value m p vnext' e l) (vaff 1 0 (node_value m p vnext e l))).
  { intros l. unfold node_value. destruct (omap _ (states m)); [|exact I]. apply vread_affine.
    intros idx. rewrite vaff_one_zero. apply H. }
  pose proof (expect_affine 1 0 _ _ nds Hrd) as E.
  pose proof (expect_not_neginf (node_value m p vnext e) nds) as N1.
  pose proof (expect_not_neginf (node_value m p vnext' e) nds) as N2.
  destruct (expect (node_value m p vnext e) nds), (expect (node_value m p vnext' e) nds); try tauto; try exact I.
  simpl. eapply Qeq_trans; [exact E|ring].
Qed.

Lemma objective_veq m p last vnext vnext' e :
  (forall idx, veq (vnext' idx) (vnext idx)) -> veq (objective m p last vnext' e) (objective m p last vnext e).
Proof.
  intros H. unfold objective. destruct (eval_fun (depth m) m p e "utility"); [|exact I].
  destruct last; [reflexivity|]. pose proof (continuation_veq m p vnext vnext' e H) as E.
  destruct (continuation m p vnext e), (continuation m p vnext' e); simpl in E; try tauto; try exact I.
  simpl. rewrite E. reflexivity.
Qed.

(* ---- permuted choices ----------------------------------------------------------------------------- *)
Lemma assoc_app {A} a (l1 l2 : list (string * A)) :
  assoc a (l1 ++ l2) = match assoc a l1 with Some v => Some v | None => assoc a l2 end.
Proof. induction l1 as [|[k v] r IH]; simpl; [reflexivity|]. destruct (String.eqb a k); [reflexivity|exact IH]. Qed.

Lemma assoc_perm {A} a (l l' : list (string * A)) : Permutation l l' -> NoDup (map fst l) -> assoc a l = assoc a l'.
Proof.
  intros P. induction P as [|[k v] l l' P IH|[k1 v1] [k2 v2] l|l l' l'' P1 IH1 P2 IH2]; intros ND.
  - reflexivity.
  - simpl. inversion ND; subst. destruct (String.eqb a k); [reflexivity|now apply IH].
  - simpl. destruct (String.eqb_spec a k2) as [E2|E2], (String.eqb_spec a k1) as [E1|E1]; try reflexivity.
    exfalso. inversion ND as [|? ? Hnin _]; subst. apply Hnin. simpl. now left.
  - rewrite IH1 by exact ND. apply IH2. eapply Permutation_NoDup; [|exact ND]. now apply Permutation_map.
Qed.

Lemma assignment_keys vars e :
  Forall2 (fun (xv : string * list Q) (kv : string * Q) => fst kv = fst xv /\ In (snd kv) (snd xv)) vars e ->
  map fst e = map fst vars.
Proof. induction 1 as [|xv kv vars e [Hk _] _ IH]; simpl; [reflexivity|]. now rewrite Hk, IH. Qed.

Lemma permuted_assignment vars vars' gamma :
  Permutation vars vars' -> NoDup (map fst vars) -> In gamma (assignments vars) ->
  exists gamma', In gamma' (assignments vars') /\ env_equiv gamma gamma'.
Proof.
  intros P ND Hin. apply in_assignments in Hin.
  destruct (Permutation_Forall2 P Hin) as (gamma' & Pg & F).
  exists gamma'. split; [now apply in_assignments|]. intros a. apply assoc_perm; [exact Pg|].
  now rewrite (assignment_keys _ _ Hin).
Qed.

Section Choices.
Variables (m m2 : model) (p : params).
Hypothesis Hsf : same_functions m m2.
Hypothesis Hperm : Permutation (choices m) (choices m2).
Hypothesis Hnd : NoDup (map fst (choices m)).

Let cand (mm : model) t last vnext (sigma gamma : env) : val :=
  let e := (sigma ++ gamma ++ [(period_name, Qofnat t)])%list in
  if feasible mm p e then objective mm p last vnext e else VNegInf.

Lemma cand_related t last vnext vnext' sigma gamma gamma' :
  (forall idx, veq (vnext' idx) (vnext idx)) -> env_equiv gamma gamma' ->
  veq (cand m2 t last vnext' sigma gamma') (cand m t last vnext sigma gamma).
Proof.
  intros Hv Hg. unfold cand. cbv zeta.
  assert (He : env_equiv (sigma ++ gamma' ++ [(period_name, Qofnat t)]) (sigma ++ gamma ++ [(period_name, Qofnat t)])).
  { intros a. rewrite !assoc_app, (Hg a). reflexivity. }
  rewrite (feasible_equiv m m2 p Hsf), (objective_equiv m m2 p Hsf).
  rewrite (feasible_env m p _ _ He), (objective_env m p _ _ He).
  destruct (feasible m p _); [|reflexivity]. now apply objective_veq.
Qed.

Lemma var_points_perm : Permutation (var_points (choices m)) (var_points (choices m2)).
Proof. unfold var_points. now apply Permutation_map. Qed.
Lemma var_points_keys l : map fst (var_points l) = map fst l.
Proof. unfold var_points. rewrite map_map. reflexivity. Qed.

Lemma value_at_choice_order t last vnext vnext' sigma :
  (forall idx, veq (vnext' idx) (vnext idx)) ->
  veq (value_at m2 p t last vnext' sigma) (value_at m p t last vnext sigma).
Proof.
  intros Hv. unfold value_at.
  change (vmaxl (map (cand m2 t last vnext' sigma) (assignments (var_points (choices m2)))))
    with (vmaxl (map (cand m2 t last vnext' sigma) (assignments (var_points (choices m2))))).
  apply vmaxl_same_values.
  - intros x Hx. apply in_map_iff in Hx. destruct Hx as (g2 & <- & Hg2).
    destruct (permuted_assignment _ _ g2 (Permutation_sym var_points_perm)) as (g & Hg & Eq); [|exact Hg2|].
    { rewrite var_points_keys. eapply Permutation_NoDup; [|exact Hnd]. now apply Permutation_map. }
    exists (cand m t last vnext sigma g). split; [apply in_map_iff; now exists g|].
    apply (cand_related t last vnext vnext' sigma g g2 Hv). intros a. symmetry. apply Eq.
  - intros y Hy. apply in_map_iff in Hy. destruct Hy as (g & <- & Hg).
    destruct (permuted_assignment _ _ g var_points_perm) as (g2 & Hg2 & Eq); [|exact Hg|].
    { now rewrite var_points_keys. }
    exists (cand m2 t last vnext' sigma g2). split; [apply in_map_iff; now exists g2|].
    symmetry. now apply (cand_related t last vnext vnext' sigma g g2 Hv).
Qed.

Definition tables_agree (tab tab' : arr val) : Prop :=
  shape tab' = shape tab /\ forall j, veq (nth j (data tab') VUndef) (nth j (data tab) VUndef).

Lemma value_table_choice_order t last vnext vnext' :
  tables_agree vnext vnext' -> tables_agree (value_table m p t last vnext) (value_table m2 p t last vnext').
Proof.
  intros [Hs Hd]. unfold tables_agree, value_table, state_shape, state_env. rewrite (sf_states _ _ Hsf).
  cbn [shape data tabulate]. split; [reflexivity|]. intros j.
  destruct (Nat.lt_ge_cases j (length (indices (map (fun sg => grid_size (snd sg)) (states m))))) as [L|L].
  - rewrite !(nth_map_lt _ _ j VUndef []) by exact L. rewrite !vred_veq.
    apply value_at_choice_order. intros idx. unfold get. rewrite Hs. apply Hd.
  - rewrite !nth_overflow by (now rewrite map_length). exact I.
Qed.

Lemma tables_agree_refl tab : tables_agree tab tab.
Proof. split; [reflexivity|]. intros j. reflexivity. Qed.

Theorem solve_from_choice_order : forall k t j,
  tables_agree (nth j (solve_from m p t k) (scalar VUndef)) (nth j (solve_from m2 p t k) (scalar VUndef)).
Proof.
  induction k as [|k IH]; intros t j.
  - simpl. destruct j; apply tables_agree_refl.
  - destruct k as [|k'].
    + cbn [solve_from]. destruct j as [|j]; cbn [nth].
      * apply value_table_choice_order, tables_agree_refl.
      * destruct j; apply tables_agree_refl.
    + change (solve_from m p t (S (S k'))) with
        (value_table m p t false (hd (scalar VUndef) (solve_from m p (S t) (S k'))) :: solve_from m p (S t) (S k')).
      change (solve_from m2 p t (S (S k'))) with
        (value_table m2 p t false (hd (scalar VUndef) (solve_from m2 p (S t) (S k'))) :: solve_from m2 p (S t) (S k')).
      destruct j as [|j]; cbn [nth]; [|apply IH].
      apply value_table_choice_order.
      assert (Hh : forall l : list (arr val), hd (scalar VUndef) l = nth 0 l (scalar VUndef)) by (intros [|? ?]; reflexivity).
      rewrite !Hh. apply IH.
Qed.

Theorem choice_order_is_irrelevant t idx : n_periods m2 = n_periods m ->
  veq (get VUndef (nth t (solve_spec m2 p) (scalar VUndef)) idx) (get VUndef (nth t (solve_spec m p) (scalar VUndef)) idx).
Proof.
  intros Hn. unfold solve_spec. rewrite Hn.
  destruct (solve_from_choice_order (n_periods m) 0 t) as [Hs Hd]. unfold get. rewrite Hs. apply Hd.
Qed.
End Choices.

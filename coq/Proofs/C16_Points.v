(* Proofs/C16_Points.v — what an accepted continuous grid materialises as           *)
(* (jnp.linspace in exact arithmetic: Spec.GridRules.lin_points; the log grid over R *)
(* is Proofs.C15_Log.log_point) and the discrete-grid validator.                     *)
From Coq Require Import Lqa Setoid Reals.
From LCM Require Import Base.Prelude Base.PyVal Spec.Interp Spec.GridRules Proofs.QLemmas.
From LCM Require Import Proofs.C15_Lin Proofs.C15_Log Model.Grids.
Local Open Scope Q_scope.

Lemma lin_points_length a b n : length (lin_points a b n) = n.
Proof. unfold lin_points. now rewrite map_length, seq_length. Qed.

Lemma lin_points_nth a b n i : (i < n)%nat ->
  nth i (lin_points a b n) 0 = lin_point a b n (Qofnat i).
Proof.
  intros H. unfold lin_points.
  rewrite (nth_indep _ 0 (lin_point a b n (Qofnat 0))) by (now rewrite map_length, seq_length).
  rewrite (map_nth (fun i => lin_point a b n (Qofnat i)) (seq 0 n) 0%nat i).
  now rewrite seq_nth.
Qed.


Lemma lin_point_0 a b n : lin_point a b n 0 == a.
Proof. unfold lin_point. ring. Qed.

Lemma lin_points_first a b n : (1 <= n)%nat -> nth 0 (lin_points a b n) 0 == a.
Proof. intros H. rewrite lin_points_nth by lia. apply lin_point_0. Qed.

Lemma lin_points_last a b n : (2 <= n)%nat -> nth (n - 1) (lin_points a b n) 0 == b.
Proof.
  intros H. rewrite lin_points_nth by lia. unfold lin_point.
  assert (E : Qofnat (n - 1) == Qofnat n - 1).
  { unfold Qofnat. rewrite Nat2Z.inj_sub by lia. rewrite inject_Z_minus. reflexivity. }
  rewrite E. pose proof (Qofnat_ge2 H). field. lra.
Qed.

Lemma lin_points_step a b n i : (2 <= n)%nat -> (S i < n)%nat ->
  nth (S i) (lin_points a b n) 0 - nth i (lin_points a b n) 0 == (b - a) / (Qofnat n - 1).
Proof.
  intros H Hi. rewrite !lin_points_nth by lia. unfold lin_point.
  assert (E : Qofnat (S i) == Qofnat i + 1) by (unfold Qofnat; apply inject_Z_of_nat_S).
  rewrite E. pose proof (Qofnat_ge2 H). field. lra.
Qed.

Lemma lin_points_increasing a b n i : a < b -> (2 <= n)%nat -> (S i < n)%nat ->
  nth i (lin_points a b n) 0 < nth (S i) (lin_points a b n) 0.
Proof.
  intros Hab H Hi. pose proof (@lin_points_step a b n i H Hi) as S.
  pose proof (Qofnat_ge2 H) as G.
  assert (0 < (b - a) / (Qofnat n - 1)).
  { apply Qlt_shift_div_l; lra. }
  lra.
Qed.

(* ---- discrete grids ------------------------------------------------------------- *)
(* the model of _validate_discrete_grid is Model/Grids.v *)
(* the specification: codes are numerically 0, 1, 2, ... in declaration order *)
Definition numerically (v : pyval) (k : Z) : Prop :=
  match py_num v with Some (FFin q) => q == inject_Z k | _ => False end.

Fixpoint codes_from (k : Z) (values : list pyval) : Prop :=
  match values with
  | [] => True
  | v :: r => numerically v k /\ codes_from (k + 1) r
  end.

Lemma py_eq_int v k : py_eq v (PInt k) = true <-> numerically v k.
Proof.
  unfold py_eq, numerically. destruct (py_num v) as [[q| | |]|]; simpl;
    try (split; [discriminate|tauto]).
  apply Qeqb_eq.
Qed.

Lemma py_list_eq_range_from values : forall k,
  py_list_eq values (map (fun i => PInt (Z.of_nat i)) (seq k (length values))) = true
  <-> codes_from (Z.of_nat k) values.
Proof.
  induction values as [|v r IH]; intros k; simpl; [tauto|].
  rewrite andb_true_iff, py_eq_int, IH.
  replace (Z.of_nat (S k)) with (Z.of_nat k + 1)%Z by lia. tauto.
Qed.

Lemma codes_from_numeric values : forall k, codes_from k values ->
  existsb (fun v => negb (py_isinstance_int_float v)) values = false.
Proof.
  induction values as [|v r IH]; intros k H; simpl; [reflexivity|].
  destruct H as [Hv Hr]. rewrite (IH _ Hr), orb_false_r.
  unfold numerically in Hv. destruct v; simpl in *; try reflexivity; tauto.
Qed.

Lemma codes_from_count values : forall k v j, codes_from k values -> numerically v j ->
  (j < k)%Z -> py_count v values = 0%nat.
Proof.
  induction values as [|x r IH]; intros k v j H Hv Hj; simpl; [reflexivity|].
  destruct H as [Hx Hr]. rewrite (IH (k + 1)%Z v j Hr Hv) by lia.
  unfold py_eq, numerically in *.
  destruct (py_num x) as [[qx| | |]|]; try tauto.
  destruct (py_num v) as [[qv| | |]|]; try tauto. simpl.
  destruct (Qeqb qx qv) eqn:E; [|reflexivity]. apply Qeqb_eq in E.
  assert (E2 : inject_Z k == inject_Z j) by (rewrite <- Hx, <- Hv; exact E).
  apply (proj1 (inject_Z_injective _ _)) in E2. exfalso. lia.
Qed.

Lemma codes_from_ge vs : forall k1 v, codes_from k1 vs -> In v vs ->
  exists j, numerically v j /\ (k1 <= j)%Z.
Proof.
  induction vs as [|y r IH]; intros k1 v H Hin; [destruct Hin|].
  simpl in H. destruct H as [Hy Hr]. destruct Hin as [->|Hin].
  - exists k1. split; [exact Hy|lia].
  - destruct (IH _ _ Hr Hin) as (j & Hj & Hle). exists j. split; [exact Hj|lia].
Qed.

Lemma py_eq_distinct x v k j : numerically x k -> numerically v j -> k <> j -> py_eq x v = false.
Proof.
  unfold py_eq, numerically. intros Hx Hv Hne.
  destruct (py_num x) as [[qx| | |]|]; try tauto.
  destruct (py_num v) as [[qv| | |]|]; try tauto. simpl.
  destruct (Qeqb qx qv) eqn:E; [|reflexivity]. apply Qeqb_eq in E.
  assert (E2 : inject_Z k == inject_Z j) by (rewrite <- Hx, <- Hv; exact E).
  apply (proj1 (inject_Z_injective _ _)) in E2. congruence.
Qed.

Lemma py_eq_same v k : numerically v k -> py_eq v v = true.
Proof.
  unfold py_eq, numerically. destruct (py_num v) as [[q| | |]|]; try tauto.
  intros _. simpl. apply Qeqb_eq. reflexivity.
Qed.

Lemma codes_from_unique values : forall k, codes_from k values ->
  existsb (fun v => Nat.ltb 1 (py_count v values)) values = false.
Proof.
  assert (G : forall vs k, codes_from k vs ->
            forall v, In v vs -> py_count v vs = 1%nat).
  { clear values. induction vs as [|x r IH]; intros k H v Hin; [destruct Hin|].
    simpl in H. destruct H as [Hx Hr]. simpl. destruct Hin as [->|Hin].
    - rewrite (codes_from_count r (k + 1)%Z v k Hr Hx) by lia.
      now rewrite (@py_eq_same v k Hx).
    - rewrite (IH _ Hr v Hin).
      destruct (codes_from_ge r _ v Hr Hin) as (j & Hj & Hle).
      rewrite (@py_eq_distinct x v k j Hx Hj) by lia. reflexivity. }
  intros k H. apply not_true_is_false. intro E. apply existsb_exists in E.
  destruct E as (v & Hin & Hc). rewrite (G _ _ H v Hin) in Hc. discriminate.
Qed.

Theorem validate_discrete_iff is_dc values :
  validate_discrete_grid is_dc values = true
  <-> is_dc = true /\ values <> [] /\ codes_from 0 values.
Proof.
  unfold validate_discrete_grid. destruct is_dc; simpl; [|split; [discriminate|tauto]].
  rewrite negb_true_iff, !orb_false_iff, negb_false_iff.
  unfold py_range. rewrite (py_list_eq_range_from values 0).
  change (Z.of_nat 0) with 0%Z. split.
  - intros (((E1 & _) & _) & E4). repeat split; auto. destruct values; [discriminate|discriminate].
  - intros (_ & Hne & Hc). repeat split; auto.
    + destruct values; [congruence|reflexivity].
    + eapply codes_from_numeric; eauto.
    + eapply codes_from_unique; eauto.
Qed.

(* ---- packaged statements used by Properties/C16.v ------------------------------- *)
Theorem linear_grid a b n : a < b -> (1 <= n)%nat ->
  length (lin_points a b n) = n /\
  nth 0 (lin_points a b n) 0 == a /\
  ((2 <= n)%nat -> nth (n - 1) (lin_points a b n) 0 == b) /\
  (forall i, (S i < n)%nat ->
     nth i (lin_points a b n) 0 < nth (S i) (lin_points a b n) 0 /\
     nth (S i) (lin_points a b n) 0 - nth i (lin_points a b n) 0 == (b - a) / (Qofnat n - 1)).
Proof.
  intros Hab Hn. split; [apply lin_points_length|]. split; [now apply lin_points_first|].
  split; [apply lin_points_last|].
  intros i Hi. assert (2 <= n)%nat by lia. split.
  - now apply lin_points_increasing.
  - now apply lin_points_step.
Qed.

Local Open Scope R_scope.
Theorem log_grid a b n : 0 < a -> a < b -> (2 <= n)%Z ->
  log_point a b n 0 = a /\ log_point a b n (IZR n - 1) = b /\
  (forall i j, i < j -> log_point a b n i < log_point a b n j) /\
  (forall i, log_point a b n (i + 1) / log_point a b n i = exp ((ln b - ln a) / (IZR n - 1))).
Proof.
  intros Ha Hab Hn. split; [now apply log_point_first|]. split; [now apply log_point_last|].
  split; [intros i j Hij; now apply log_point_increasing|].
  intros i. unfold log_point. unfold Rdiv at 1. rewrite <- exp_Ropp, <- exp_plus. f_equal. ring.
Qed.

Lemma codes_fromb_iff values : forall k, codes_fromb k values = true <-> codes_from k values.
Proof.
  induction values as [|v r IH]; intros k; simpl; [tauto|].
  unfold numerically. destruct (py_num v) as [[q| | |]|]; try (split; [discriminate|tauto]).
  rewrite andb_true_iff, IH, Qeqb_eq. tauto.
Qed.

Theorem spec_discrete_iff is_dc values :
  spec_accepts_discrete is_dc values = true
  <-> is_dc = true /\ values <> [] /\ codes_from 0 values.
Proof.
  unfold spec_accepts_discrete. rewrite !andb_true_iff, codes_fromb_iff.
  destruct values as [|v r].
  - split; [intros [[_ H] _]; discriminate|intros (_ & H & _); congruence].
  - split.
    + intros [[H _] H2]. split; [exact H|]. split; [discriminate|exact H2].
    + intros (H & _ & H2). split; [split; [exact H|reflexivity]|exact H2].
Qed.

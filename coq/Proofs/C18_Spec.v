(* Proofs/C18_Spec.v — the masked arg-max (translated from lcm/argmax.py) returns the masked  *)
(* maximum and the first flattened position of an unmasked element attaining it.              *)
From LCM Require Import Base.Prelude Base.Arr Base.ArrOps Gen.Argmax.
From LCM Require Import Proofs.ArrLemmas Proofs.ArrLemmas2 Proofs.C18_Core Proofs.C18_Moved.
Local Open Scope nat_scope.
Set Implicit Arguments.

Lemma veqb_num_refl v : defined v -> veqb_num v v = true.
Proof.
  unfold defined. destruct v; simpl; try congruence; try reflexivity.
  intros _. apply Qeq_bool_iff. reflexivity.
Qed.

Lemma vle_neginf v : defined v -> vle v VNegInf -> v = VNegInf.
Proof. unfold defined. destruct v; simpl; tauto. Qed.

Lemma get_defined (a : arr val) idx :
  wf a -> Forall defined (data a) -> in_bounds (shape a) idx -> defined (get VUndef a idx).
Proof.
  intros Hwf Hd Hb. unfold get. rewrite Forall_forall in Hd. apply Hd. apply nth_In.
  rewrite Hwf. now apply ravel_lt.
Qed.

Section Spec.
Variables (a : arr val) (mask : arr bool) (axes : list nat).
Hypothesis Hwf : wf a.
Hypothesis Hdef : Forall defined (data a).
Hypothesis Hms : shape mask = shape a.

Let sh := shape a.
Let N := size (inner_shape sh axes).
(* the index of [a] addressed by an outer index and a flattened inner position *)
Definition at_ (outer : list nat) (k : nat) : list nat :=
  orig_index (length sh) axes outer (unravel (inner_shape sh axes) k).
Definition val_ outer k : val := get VUndef a (at_ outer k).
Definition ok_ outer k : bool := get false mask (at_ outer k).

Let res := argmax a (Some axes) (Some VNegInf) (Some mask).

Lemma at_in_bounds outer k : in_bounds (front_shape sh axes) outer -> k < N ->
  in_bounds sh (at_ outer k).
Proof. intros Ho Hk. apply orig_index_in_bounds; [exact Ho|now apply unravel_in_bounds]. Qed.

Lemma val_defined outer k : in_bounds (front_shape sh axes) outer -> k < N -> defined (val_ outer k).
Proof. intros Ho Hk. apply get_defined; auto. now apply at_in_bounds. Qed.

(* rows of the moved array are the addressed entries *)
Lemma row_is_val outer k : in_bounds (front_shape sh axes) outer -> k < N ->
  row (moved VUndef a axes) outer k = val_ outer k.
Proof. intros Ho Hk. unfold row, val_, at_. now apply moved_get. Qed.

Lemma ok_is_ok outer k : in_bounds (front_shape sh axes) outer -> k < N ->
  ok (Some (moved false mask axes)) outer k = ok_ outer k.
Proof.
  intros Ho Hk. unfold ok, ok_, at_. subst sh N. rewrite <- Hms in *. now apply moved_get.
Qed.

Let b := moved VUndef a axes.
Let w := Some (moved false mask axes).

Lemma res_is_core : res = core b (Some VNegInf) w.
Proof. unfold res. now rewrite argmax_is_core. Qed.

Lemma b_shape : shape b = front_shape sh axes ++ [N].
Proof. apply moved_shape. Qed.
Lemma w_shape : match w with Some w0 => shape w0 = front_shape sh axes ++ [N] | None => True end.
Proof. unfold w. rewrite moved_shape. subst sh N. now rewrite Hms. Qed.

Definition masked_vals outer : list val :=
  map (fun k => if ok_ outer k then val_ outer k else VNegInf) (seq 0 N).

Lemma slice_max_eq outer : in_bounds (front_shape sh axes) outer ->
  slice_max b (Some VNegInf) w N outer = fold_right vmax VNegInf (masked_vals outer).
Proof.
  intros Ho. unfold slice_max, masked_vals, init_v. f_equal. apply map_ext_in.
  intros k Hk. apply in_seq in Hk. unfold w, b.
  rewrite ok_is_ok, row_is_val by (auto; lia). reflexivity.
Qed.

Lemma masked_vals_defined outer : in_bounds (front_shape sh axes) outer ->
  Forall defined (masked_vals outer).
Proof.
  intros Ho. unfold masked_vals. apply Forall_forall. intros x Hx. apply in_map_iff in Hx.
  destruct Hx as (k & <- & Hk). apply in_seq in Hk.
  destruct (ok_ outer k); [apply val_defined; auto; lia|discriminate].
Qed.

(* --- the returned maximum ------------------------------------------------------------ *)
Theorem argmax_max_spec outer : in_bounds (front_shape sh axes) outer ->
  let M := get VUndef (snd res) outer in
  M = fold_right vmax VNegInf (masked_vals outer) /\
  defined M /\
  (forall k, k < N -> ok_ outer k = true -> vle (val_ outer k) M) /\
  (M = VNegInf \/ exists k, k < N /\ ok_ outer k = true /\ val_ outer k = M).
Proof.
  intros Ho M. unfold M. rewrite res_is_core.
  rewrite (core_max b (Some VNegInf) w _ _ b_shape w_shape _ Ho), slice_max_eq by exact Ho.
  split; [reflexivity|].
  assert (Hdn : defined VNegInf) by discriminate.
  destruct (@fold_vmax_spec VNegInf _ Hdn (@masked_vals_defined outer Ho)) as (Hd & _ & Hub & Hmem).
  split; [exact Hd|]. split.
  - intros k Hk Hok. apply Hub. unfold masked_vals. apply in_map_iff. exists k.
    rewrite Hok. split; [reflexivity|apply in_seq; lia].
  - destruct Hmem as [E|Hin]; [now left|].
    unfold masked_vals in Hin at 2. apply in_map_iff in Hin. destruct Hin as (k & E & Hk).
    apply in_seq in Hk. destruct (ok_ outer k) eqn:Hok; [|now left].
    right. exists k. repeat split; auto; lia.
Qed.

(* --- the returned position ----------------------------------------------------------- *)
Definition attains outer (M : val) (k : nat) : bool := veqb_num (val_ outer k) M && ok_ outer k.

Lemma hits_eq outer : in_bounds (front_shape sh axes) outer ->
  hits b (Some VNegInf) w N outer
  = map (attains outer (get VUndef (snd res) outer)) (seq 0 N).
Proof.
  intros Ho. unfold hits, attains. apply map_ext_in. intros k Hk. apply in_seq in Hk.
  rewrite res_is_core, (core_max b (Some VNegInf) w _ _ b_shape w_shape _ Ho).
  unfold w, b. rewrite ok_is_ok, row_is_val by (auto; lia). reflexivity.
Qed.

Theorem argmax_pos_spec outer : in_bounds (front_shape sh axes) outer ->
  let M := get VUndef (snd res) outer in
  let p := get 0 (fst res) outer in
  ((exists k, k < N /\ ok_ outer k = true) ->
     p < N /\ ok_ outer p = true /\ veqb_num (val_ outer p) M = true /\
     forall k, k < p -> attains outer M k = false) /\
  ((forall k, k < N -> ok_ outer k = false) -> p = 0 /\ M = VNegInf).
Proof.
  intros Ho M p.
  assert (Hp : p = first_true (map (attains outer M) (seq 0 N))).
  { unfold p, M. rewrite res_is_core at 1.
    rewrite (core_argmax b (Some VNegInf) w _ _ b_shape w_shape _ Ho). now rewrite hits_eq. }
  destruct (@argmax_max_spec outer Ho) as (_ & HdM & Hub & Hmem). fold M in HdM, Hub, Hmem.
  pose proof (first_true_spec (map (attains outer M) (seq 0 N))) as [F1 F2].
  rewrite map_length, seq_length in F1.
  split.
  - intros (k0 & Hk0 & Hok0).
    (* some unmasked element attains M *)
    assert (Hex : existsb (fun x => x) (map (attains outer M) (seq 0 N)) = true).
    { apply existsb_id_nth. rewrite map_length, seq_length.
      destruct Hmem as [E|(k & Hk & Hok & Ev)].
      - exists k0. split; [exact Hk0|].
        rewrite (nth_indep _ false (attains outer M 0)) by (now rewrite map_length, seq_length).
        rewrite (map_nth (attains outer M)), seq_nth by exact Hk0. simpl. unfold attains.
        rewrite Hok0, andb_true_r.
        assert (val_ outer k0 = VNegInf).
        { apply vle_neginf; [now apply val_defined|]. rewrite <- E. now apply Hub. }
        rewrite H, E. reflexivity.
      - exists k. split; [exact Hk|].
        rewrite (nth_indep _ false (attains outer M 0)) by (now rewrite map_length, seq_length).
        rewrite (map_nth (attains outer M)), seq_nth by exact Hk. simpl. unfold attains.
        rewrite Hok, andb_true_r, Ev. now apply veqb_num_refl. }
    destruct (F1 Hex) as (Hlt & Hnth & Hfirst). rewrite <- Hp in *.
    rewrite (nth_indep _ false (attains outer M 0)) in Hnth by (now rewrite map_length, seq_length).
    rewrite (map_nth (attains outer M)), seq_nth in Hnth by exact Hlt. simpl in Hnth.
    unfold attains in Hnth. apply andb_true_iff in Hnth. destruct Hnth as [H1 H2].
    split; [exact Hlt|]. split; [exact H2|]. split; [exact H1|].
    intros k Hk. specialize (Hfirst k Hk).
    rewrite (nth_indep _ false (attains outer M 0)) in Hfirst by (rewrite map_length, seq_length; lia).
    rewrite (map_nth (attains outer M)), seq_nth in Hfirst by lia. exact Hfirst.
  - intros Hall.
    assert (Hex : existsb (fun x => x) (map (attains outer M) (seq 0 N)) = false).
    { apply not_true_is_false. intro E. apply existsb_id_nth in E. destruct E as (k & Hk & E).
      rewrite map_length, seq_length in Hk.
      rewrite (nth_indep _ false (attains outer M 0)) in E by (now rewrite map_length, seq_length).
      rewrite (map_nth (attains outer M)), seq_nth in E by exact Hk. simpl in E.
      unfold attains in E. rewrite (Hall k Hk), andb_false_r in E. discriminate. }
    split; [rewrite Hp; now apply F2|].
    destruct Hmem as [E|(k & Hk & Hok & _)]; [exact E|]. rewrite (Hall k Hk) in Hok. discriminate.
Qed.

Theorem argmax_shapes :
  shape (fst res) = front_shape sh axes /\ shape (snd res) = front_shape sh axes.
Proof. rewrite res_is_core. apply (core_shapes b (Some VNegInf) w _ _ b_shape w_shape). Qed.
End Spec.

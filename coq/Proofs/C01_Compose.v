(* Proofs/C01_Compose.v — one Bellman step of the CODE is one Bellman step of the SPECIFICATION      *)
(* (models without filter-restricted states): the regenerated u_and_f (Gen/ModelFunctions.v), wired     *)
(* with the regenerated weight function, the function representation on the documented layout of the     *)
(* next period's (finite) table and the next states the specification computes, returns the              *)
(* specification's objective  utility + beta * E[V_{t+1}].                                               *)
From Coq Require Import Lqa Lia.
From LCM Require Import Base.Prelude Base.Arr Base.ArrOps Base.QKernel Model.Dispatchers Model.QOps Model.FunctionRepresentation.
From LCM Require Import Gen.ModelFunctions Spec.Interp Spec.Lang Spec.Bellman.
From LCM Require Import Proofs.ArrLemmas Proofs.ArrLemmas2 Proofs.C19_Dispatch Proofs.C11_Affine Proofs.C11_ModelFunctions
                        Proofs.C01_Bridge Proofs.C14_Refine Proofs.C14_OnLayout Proofs.C14_OnLayoutIx.
Local Open Scope Q_scope.

(* ---- the next state at a node: labels of the node for the stochastic states, the deterministic ------ *)
(* ---- transition elsewhere, in declaration order ------------------------------------------------------ *)
Fixpoint node_vals (sts : list (string * grid)) (is_st : string -> bool) (det : string -> Q) (idx : list nat) : list Q :=
  match sts with
  | [] => []
  | (s, _) :: r =>
      if is_st s then match idx with k :: idx' => Qofnat k :: node_vals r is_st det idx' | [] => [] end
      else det s :: node_vals r is_st det idx
  end.

(* the arrays handed to the product-mapped value function: all labels for a stochastic state, the value *)
Definition next_array (is_st : string -> bool) (det : string -> Q) (sg : string * grid) : qarr :=
  if is_st (fst sg) then vec (map Qofnat (seq 0 (grid_size (snd sg)))) else scalar (det (fst sg)).

Fixpoint stoch_positions (sts : list (string * grid)) (is_st : string -> bool) (k : nat) : list nat :=
  match sts with
  | [] => []
  | (s, _) :: r => if is_st s then k :: stoch_positions r is_st (S k) else stoch_positions r is_st (S k)
  end.

Lemma qslice_vec l j : qslice (vec l) j = scalar (nth j l 0).
Proof.
  unfold qslice, slice, vec, tabulate, scalar, get. cbn [shape data tl indices map ravel size].
  now rewrite Nat.mul_1_r, Nat.add_0_r.
Qed.

Lemma upd_app_at (pre : list qarr) x rest v : upd (pre ++ x :: rest) (length pre) v = (pre ++ v :: rest)%list.
Proof. induction pre as [|a r IH]; [reflexivity|]. cbn [app length upd]. now rewrite IH. Qed.

Lemma nth_app_at (pre : list qarr) x rest : nth (length pre) (pre ++ x :: rest) dflt_arr = x.
Proof. induction pre as [|a r IH]; [reflexivity|exact IH]. Qed.

Lemma slice_all_at_nodes is_st det : forall sts pre idx,
  Forall2 (fun (sg : string * grid) k => (k < grid_size (snd sg))%nat) (filter (fun sg => is_st (fst sg)) sts) idx ->
  slice_all (pre ++ map (next_array is_st det) sts) (stoch_positions sts is_st (length pre)) idx
  = (pre ++ map (fun v => scalar v) (node_vals sts is_st det idx))%list.
Proof.
  induction sts as [|[s g] r IH]; intros pre idx H.
  - cbn [filter] in H. inversion H. reflexivity.
  - cbn [map stoch_positions node_vals filter fst] in *. unfold next_array at 1. cbn [fst snd].
    destruct (is_st s).
    + inversion H as [|? k ? idx' Hk Hr]; subst. cbn [slice_all]. unfold slice1.
      rewrite nth_app_at, upd_app_at, qslice_vec.
      rewrite (nth_indep _ 0 (Qofnat 0)) by (rewrite map_length, seq_length; exact Hk).
      rewrite map_nth, seq_nth by exact Hk. cbn [plus].
      change (pre ++ scalar (Qofnat k) :: map (next_array is_st det) r)%list
        with (pre ++ [scalar (Qofnat k)] ++ map (next_array is_st det) r)%list.
      rewrite app_assoc. replace (S (length pre)) with (length (pre ++ [scalar (Qofnat k)])) by (rewrite app_length; simpl; lia).
      rewrite (IH (pre ++ [scalar (Qofnat k)])%list idx' Hr). cbn [map]. now rewrite <- app_assoc.
    + change (pre ++ scalar (det s) :: map (next_array is_st det) r)%list
        with (pre ++ [scalar (det s)] ++ map (next_array is_st det) r)%list.
      rewrite app_assoc. replace (S (length pre)) with (length (pre ++ [scalar (det s)])) by (rewrite app_length; simpl; lia).
      rewrite (IH (pre ++ [scalar (det s)])%list idx H). cbn [map]. now rewrite <- app_assoc.
Qed.

(* ---- the specification's next values at a node ------------------------------------------------------- *)
Lemma assoc_combine_fresh {A} x (ks : list string) (vs : list A) : ~ In x ks -> assoc x (combine ks vs) = None.
Proof.
  revert vs. induction ks as [|k r IH]; intros vs H; [reflexivity|]. destruct vs as [|v vs]; [reflexivity|]. simpl.
  destruct (String.eqb_spec x k) as [->|Hne]; [exfalso; apply H; now left|]. apply IH. intros Hin. apply H. now right.
Qed.

Lemma spec_next_values_at_node (is_st : string -> bool) (det : string -> Q) (nd : string -> option Q) :
  forall sts idx, NoDup (map fst sts) ->
  length idx = length (filter (fun sg : string * grid => is_st (fst sg)) sts) ->
  (forall sg, In sg sts -> is_st (fst sg) = false -> nd (fst sg) = Some (det (fst sg))) ->
  omap (fun sg : string * grid =>
          match assoc (fst sg) (combine (map fst (filter (fun sg => is_st (fst sg)) sts)) (map Qofnat idx)) with
          | Some l => Some l | None => nd (fst sg) end) sts
  = Some (node_vals sts is_st det idx).
Proof.
  induction sts as [|[s g] r IH]; intros idx ND Hl Hd; [reflexivity|].
  inversion ND as [|? ? Hnotin ND']; subst. cbn [omap filter fst node_vals] in *.
  destruct (is_st s) eqn:Es.
  - destruct idx as [|k idx']; [discriminate|]. cbn [map combine assoc]. rewrite String.eqb_refl. cbn [obind].
    match goal with |- context [omap ?F r] =>
      rewrite (omap_ext_in F (fun sg : string * grid =>
        match assoc (fst sg) (combine (map fst (filter (fun sg => is_st (fst sg)) r)) (map Qofnat idx')) with
        | Some l => Some l | None => nd (fst sg) end) r) end.
    + rewrite (IH idx' ND') by (simpl in Hl; try lia; intros sg Hin; apply Hd; now right). reflexivity.
    + intros sg Hin. cbn [assoc fst]. destruct (String.eqb_spec (fst sg) s) as [E|E]; [|reflexivity].
      exfalso. apply Hnotin. rewrite <- E. now apply in_map.
  - assert (Hfresh : ~ In s (map fst (filter (fun sg : string * grid => is_st (fst sg)) r))).
    { intros Hin. apply Hnotin. apply in_map_iff in Hin. destruct Hin as (sg & <- & Hf). apply filter_In in Hf. apply in_map. tauto. }
    rewrite (assoc_combine_fresh s _ (map Qofnat idx) Hfresh).
    pose proof (Hd (s, g) (or_introl eq_refl) Es) as Hs. cbn [fst] in Hs. rewrite Hs. cbn [obind fst].
    rewrite (IH idx ND' Hl) by (intros sg Hin; apply Hd; now right). reflexivity.
Qed.

(* ---- names, positions, lookups -------------------------------------------------------------------------- *)
Definition next_name (s : string) : string := ("next_" ++ s)%string.

Lemma next_name_inj a b : next_name a = next_name b -> a = b.
Proof. unfold next_name. cbn [String.append]. intros H. now injection H. Qed.

Lemma index_of_app_fresh x pre r : ~ In x pre -> index_of x (pre ++ x :: r) = Some (length pre).
Proof.
  induction pre as [|y p IH]; intros H; cbn [app index_of length].
  - now rewrite String.eqb_refl.
  - destruct (String.eqb_spec x y) as [->|Hne]; [exfalso; apply H; now left|]. rewrite IH; [reflexivity|]. intros Hin. apply H. now right.
Qed.

Lemma positions_of_stochastic (is_st : string -> bool) : forall sts pre,
  NoDup (pre ++ map fst sts) ->
  map (fun s => match index_of (next_name s) (map next_name (pre ++ map fst sts)) with Some i => i | None => 0%nat end)
      (map fst (filter (fun sg : string * grid => is_st (fst sg)) sts))
  = stoch_positions sts is_st (length pre).
Proof.
  induction sts as [|[s g] r IH]; intros pre ND; [reflexivity|].
  cbn [map fst filter stoch_positions].
  assert (E : (pre ++ s :: map fst r = (pre ++ [s]) ++ map fst r)%list) by (now rewrite <- app_assoc).
  assert (IHr := IH (pre ++ [s])%list). rewrite <- E in IHr. rewrite app_length in IHr. cbn [length] in IHr.
  replace (length pre + 1)%nat with (S (length pre)) in IHr by lia.
  destruct (is_st s).
  - cbn [map]. f_equal; [|apply IHr; exact ND].
    rewrite map_app. cbn [map]. rewrite index_of_app_fresh; [now rewrite map_length|].
    intros Hin. apply in_map_iff in Hin. destruct Hin as (y & Ey & Hy). apply next_name_inj in Ey. subst y.
    apply NoDup_remove_2 in ND. apply ND. apply in_or_app. now left.
  - apply IHr. exact ND.
Qed.

Lemma assoc_mapped_key {A B} (key : A -> string) (val : A -> B) (l : list A) x :
  NoDup (map key l) -> In x l -> assoc (key x) (map (fun a => (key a, val a)) l) = Some (val x).
Proof.
  induction l as [|a r IH]; intros ND Hin; [contradiction|]. inversion ND as [|? ? Hn ND']; subst. cbn [map assoc].
  destruct Hin as [->|Hin]; [now rewrite String.eqb_refl|].
  destruct (String.eqb_spec (key x) (key a)) as [E|E]; [exfalso; apply Hn; rewrite <- E; now apply in_map|]. now apply IH.
Qed.

Lemma lead_vec (l : list Q) : lead (vec l) = length l.
Proof. reflexivity. Qed.

Lemma dims_at_stoch_positions is_st det : forall sts pre,
  dims (stoch_positions sts is_st (length pre)) (pre ++ map (next_array is_st det) sts)
  = map (fun sg : string * grid => grid_size (snd sg)) (filter (fun sg => is_st (fst sg)) sts).
Proof.
  induction sts as [|[s g] r IH]; intros pre; [reflexivity|].
  cbn [stoch_positions filter fst map].
  assert (E : forall x, (pre ++ x :: map (next_array is_st det) r = (pre ++ [x]) ++ map (next_array is_st det) r)%list)
    by (intros; now rewrite <- app_assoc).
  assert (L : forall x : qarr, S (length pre) = length (pre ++ [x])) by (intros; rewrite app_length; simpl; lia).
  destruct (is_st s) eqn:Es.
  - unfold dims. cbn [map snd]. f_equal.
    + rewrite nth_app_at. unfold next_array. cbn [fst snd]. rewrite Es, lead_vec, map_length, seq_length. reflexivity.
    + fold (dims (stoch_positions r is_st (S (length pre))) (pre ++ next_array is_st det (s, g) :: map (next_array is_st det) r)).
      rewrite E, (L (next_array is_st det (s, g))). apply IH.
  - rewrite E, (L (next_array is_st det (s, g))). apply IH.
Qed.

Lemma stoch_positions_ge is_st : forall sts k q, In q (stoch_positions sts is_st k) -> (k <= q)%nat.
Proof.
  induction sts as [|[s g] r IH]; intros k q H; [destruct H|]. cbn [stoch_positions] in H.
  destruct (is_st s); [destruct H as [<-|H]; [lia|]|]; specialize (IH (S k) q H); lia.
Qed.

Lemma stoch_positions_nodup is_st : forall sts k, NoDup (stoch_positions sts is_st k).
Proof.
  induction sts as [|[s g] r IH]; intros k; [constructor|]. cbn [stoch_positions].
  destruct (is_st s); [|apply IH]. constructor; [|apply IH]. intros H. apply stoch_positions_ge in H. lia.
Qed.

Lemma qread_some_disc_labels : forall sts F vals q, qread sts F vals = Some q -> exists dl, disc_labels sts vals = Some dl.
Proof.
  induction sts as [|[x g] r IH]; intros F vals q H.
  - destruct vals; [|discriminate]. now exists [].
  - destruct g as [n|a b n]; destruct vals as [|v vs]; try discriminate; cbn [qread disc_labels] in *.
    + destruct (is_label v n) as [k|]; [|discriminate]. destruct (IH _ _ _ H) as (dl & ->). now exists (k :: dl).
    + destruct (qread r (fun idx => F (cell_lo (spec_lin_coord a b n v) n :: idx)) vs) as [x1|] eqn:E1; [|discriminate].
      exact (IH _ _ _ E1).
Qed.

Lemma lookup_own_keys (l : list (string * qarr)) : NoDup (map fst l) -> map (lookup l) (map fst l) = map snd l.
Proof.
  induction l as [|[k v] r IH]; intros ND; [reflexivity|]. inversion ND as [|? ? Hn ND']; subst.
  cbn [map fst snd]. f_equal.
  - unfold lookup. cbn [assoc]. now rewrite String.eqb_refl.
  - rewrite <- (IH ND'). apply map_ext_in. intros k' Hk'. unfold lookup. cbn [assoc].
    destruct (String.eqb_spec k' k) as [->|E]; [contradiction|reflexivity].
Qed.

Lemma map_fst_combine {A B} (l1 : list A) (l2 : list B) : length l1 = length l2 -> map fst (combine l1 l2) = l1.
Proof. revert l2. induction l1 as [|x r IH]; intros [|y l2] H; try discriminate; [reflexivity|]. simpl. f_equal. apply IH. simpl in H. lia. Qed.
Lemma map_snd_combine {A B} (l1 : list A) (l2 : list B) : length l1 = length l2 -> map snd (combine l1 l2) = l2.
Proof. revert l2. induction l1 as [|x r IH]; intros [|y l2] H; try discriminate; [reflexivity|]. simpl. f_equal. apply IH. simpl in H. lia. Qed.

Lemma omap_length {A B} (f : A -> option B) l r : omap f l = Some r -> length r = length l.
Proof.
  revert r. induction l as [|x l IH]; intros r H; [cbn in H; now injection H as <-|]. cbn [omap] in H.
  destruct (f x); [|discriminate]. cbn [obind] in H. destruct (omap f l) as [r'|]; [|discriminate]. cbn [obind] in H.
  injection H as <-. simpl. f_equal. now apply IH.
Qed.

Lemma select_nil kw : select [] kw = [].
Proof. unfold select. induction kw as [|x r IH]; [reflexivity|]. cbn [filter mem_str existsb]. exact IH. Qed.

Lemma length_node_vals is_st det : forall sts idx,
  length idx = length (filter (fun sg : string * grid => is_st (fst sg)) sts) -> length (node_vals sts is_st det idx) = length sts.
Proof.
  induction sts as [|[s g] r IH]; intros idx H; [reflexivity|]. cbn [node_vals filter fst length] in *.
  destruct (is_st s); [destruct idx as [|k idx']; [discriminate|]|]; cbn [length]; f_equal; apply IH; simpl in H; lia.
Qed.

Lemma in_bounds_Forall2 {A} (size_of : A -> nat) (l : list A) idx : in_bounds (map size_of l) idx ->
  Forall2 (fun a k => (k < size_of a)%nat) l idx.
Proof.
  revert idx. induction l as [|a r IH]; intros [|k idx] H; simpl in H; try contradiction; constructor; [tauto|]. apply IH. tauto.
Qed.

Lemma qget_vec (row : list Q) k : qget (vec row) [k] = nth k row 0.
Proof. unfold qget, get, vec. cbn [shape data ravel size]. now rewrite Nat.mul_1_r, Nat.add_0_r. Qed.

Lemma leads_of_rows (l : list (string * grid)) (rs : list (list Q)) :
  Forall2 (fun (sg : string * grid) (row : list Q) => length row = grid_size (snd sg)) l rs ->
  map (fun row : list Q => lead (vec row)) rs = map (fun sg : string * grid => grid_size (snd sg)) l.
Proof. induction 1 as [|sg row l' rs' H _ IH]; [reflexivity|]. cbn [map]. now rewrite lead_vec, H, IH. Qed.

Section Step.
Variables (m : model) (p : params) (e : env) (F : list nat -> Q) (det : string -> Q) (rows : list (list Q)).
Variables (u : Q) (FE : Type) (fe : FE) (t : nat) (kwargs : list (string * qarr)).
Let sts := states m.
Let is_st := is_stochastic m.
Let ss := stoch_states m.
Let shape_ := map (fun sg : string * grid => grid_size (snd sg)) ss.
Let vnext := fun idx : list nat => VFin (F idx).
(* hypotheses about the model and the point of evaluation *)
Hypothesis Hnd : NoDup (map fst sts).
Hypothesis Hvalid : grids_valid sts.
Hypothesis Hu : eval_fun (depth m) m p e "utility" = Some u.
Hypothesis Hdet : forall sg, In sg sts -> is_st (fst sg) = false -> next_det m p e (fst sg) = Some (det (fst sg)).
Hypothesis Hrows : omap (fun sg : string * grid => weight_row m p e (fst sg)) ss = Some rows.
Hypothesis Hrowlen : Forall2 (fun (sg : string * grid) (row : list Q) => length row = grid_size (snd sg)) ss rows.
Hypothesis Hread : forall idx, in_bounds shape_ idx -> exists q, qread sts F (node_vals sts is_st det idx) = Some q.

(* what the concatenated model functions hand to u_and_f at this point *)
Definition next_states_kw : list (string * qarr) := map (fun sg => (next_name (fst sg), next_array is_st det sg)) sts.
Definition weights_kw : list (string * qarr) :=
  map (fun sr : (string * grid) * list Q => (("weight_next_" ++ fst (fst sr))%string, vec (snd sr))) (combine ss rows).
(* the scalar value function, as a function of the next values of all states in declaration order; what is
   needed of it: at every node it returns the value the specification reads (instantiated below with the
   function representation on the documented layout, with and without filter-restricted states) *)
Variable FR : list Q -> Q.
Hypothesis HFR : forall idx q, in_bounds shape_ idx ->
  qread sts F (node_vals sts is_st det idx) = Some q -> FR (node_vals sts is_st det idx) == q.
Definition svf : func := mkFunc (map next_name (map fst sts)) (fun args => scalar (FR (map (fun a => qget a []) args))).
Definition svars : list string := map fst ss.

Definition code_value : Q * FE :=
  u_and_f params FE beta (fun _ _ _ => (u, fe)) (fun _ _ _ => next_states_kw) (fun _ _ _ => weights_kw) svf
          [] [] svars [] t kwargs p.

Let ccvs := productmap svf (map (fun var => ("next_" ++ var)%string) svars) (next_states_kw ++ select [] kwargs).
Let names := multiply_weights_arg_names svars.
Let ws := map (lookup weights_kw) names.

Lemma rows_length : length rows = length ss.
Proof. exact (omap_length _ _ _ Hrows). Qed.

Lemma ss_is_filter : ss = filter (fun sg : string * grid => is_st (fst sg)) sts.
Proof. reflexivity. Qed.

Lemma nodup_ss : NoDup (map fst ss).
Proof.
  rewrite ss_is_filter. clear -Hnd. induction sts as [|[s g] r IH]; [constructor|]. inversion Hnd as [|? ? Hn ND]; subst.
  cbn [filter fst]. destruct (is_st s); [|now apply IH]. cbn [map fst]. constructor; [|now apply IH].
  intros Hin. apply Hn. apply in_map_iff in Hin. destruct Hin as (sg & <- & Hf). apply filter_In in Hf. apply in_map. tauto.
Qed.

Lemma names_are_keys : names = map fst weights_kw.
Proof.
  unfold names, multiply_weights_arg_names, svars, weights_kw. rewrite !map_map.
  rewrite <- (map_fst_combine ss rows) at 1 by (symmetry; apply rows_length). now rewrite map_map.
Qed.

Lemma nodup_names : NoDup names.
Proof.
  unfold names, multiply_weights_arg_names, svars. pose proof nodup_ss as N. induction (map fst ss) as [|s r IH]; [constructor|].
  inversion N as [|? ? Hn N']; subst. cbn [map]. constructor; [|now apply IH].
  intros Hin. apply in_map_iff in Hin. destruct Hin as (y & Ey & Hy). cbn [String.append] in Ey. injection Ey as ->. contradiction.
Qed.

Lemma ws_are_the_rows : ws = map (fun row => vec row) rows.
Proof.
  unfold ws. rewrite names_are_keys, lookup_own_keys by (rewrite <- names_are_keys; apply nodup_names).
  unfold weights_kw. rewrite map_map. cbn [snd]. rewrite <- (map_snd_combine ss rows) at 2 by (symmetry; apply rows_length).
  now rewrite map_map.
Qed.

Lemma node_shape_is_shape : node_shape svars weights_kw = shape_.
Proof.
  unfold node_shape. fold names. fold ws. rewrite ws_are_the_rows, map_map. unfold shape_.
  exact (leads_of_rows ss rows Hrowlen).
Qed.

Lemma args_of_svf : map (lookup (next_states_kw ++ select [] kwargs)) (Dispatchers.params svf) = map (next_array is_st det) sts.
Proof.
  rewrite select_nil, app_nil_r. cbn [Dispatchers.params svf].
  assert (K : map next_name (map fst sts) = map fst next_states_kw) by (unfold next_states_kw; now rewrite !map_map).
  rewrite K, lookup_own_keys; [unfold next_states_kw; now rewrite map_map|].
  rewrite <- K. clear -Hnd. induction (map fst sts) as [|s r IH]; [constructor|]. inversion Hnd as [|? ? Hn N]; subst.
  cbn [map]. constructor; [|now apply IH]. intros Hin. apply in_map_iff in Hin. destruct Hin as (y & Ey & Hy).
  apply next_name_inj in Ey. now subst.
Qed.

Lemma positions_of_svf : map (pos_of svf) (map (fun var => ("next_" ++ var)%string) svars) = stoch_positions sts is_st 0.
Proof.
  rewrite map_map. unfold svars. rewrite ss_is_filter.
  change (stoch_positions sts is_st 0) with (stoch_positions sts is_st (length (@nil string))).
  rewrite <- (positions_of_stochastic is_st sts [] Hnd). cbn [app]. apply map_ext. intros s. reflexivity.
Qed.

Lemma ccvs_unfold : ccvs = base_productmap (fn svf) (stoch_positions sts is_st 0) (map (next_array is_st det) sts).
Proof. unfold ccvs, productmap. now rewrite positions_of_svf, args_of_svf. Qed.

Lemma fn_svf_scalar : forall a, wf (fn svf a) /\ shape (fn svf a) = [].
Proof. intros a. split; reflexivity. Qed.

Lemma ccvs_shape : wf ccvs /\ shape ccvs = shape_.
Proof.
  rewrite ccvs_unfold.
  destruct (bpm_wf_shape (fn svf) [] (fun _ => True) (fun _ => True) (fun _ _ _ _ _ => I) (fun a _ => fn_svf_scalar a)
              (stoch_positions sts is_st 0) (map (next_array is_st det) sts) I (stoch_positions_nodup is_st sts 0))
    as [W S]; [apply Forall_forall; intros; exact I|].
  split; [exact W|]. rewrite S, app_nil_r. exact (dims_at_stoch_positions is_st det sts []).
Qed.

Lemma ccvs_entry idx : in_bounds shape_ idx -> qget ccvs idx = FR (node_vals sts is_st det idx).
Proof.
  intros Hb. rewrite ccvs_unfold. rewrite <- (app_nil_r idx) at 1.
  pose proof (dims_at_stoch_positions is_st det sts []) as D. cbn [length app] in D.
  pose proof (slice_all_at_nodes is_st det sts [] idx
                (in_bounds_Forall2 (fun sg : string * grid => grid_size (snd sg)) _ idx Hb)) as SA. cbn [length app] in SA.
  rewrite (bpm_get (fn svf) [] (fun _ => True) (fun _ => True) (fun _ _ _ _ _ => I) (fun a _ => fn_svf_scalar a)
             (stoch_positions sts is_st 0) (map (next_array is_st det) sts) idx [] I (stoch_positions_nodup is_st sts 0));
    [|apply Forall_forall; intros; exact I|rewrite D; exact Hb|exact I].
  rewrite SA. cbn [fn svf]. rewrite map_map. unfold qget at 1, get, scalar. cbn [shape data ravel nth]. f_equal.
  rewrite <- (map_id (node_vals sts is_st det idx)) at 2. apply map_ext. intros v. reflexivity.
Qed.

Lemma idx_length idx : in_bounds shape_ idx -> length idx = length (filter (fun sg : string * grid => is_st (fst sg)) sts).
Proof. intros Hb. rewrite (in_bounds_length _ _ Hb). unfold shape_. rewrite map_length. reflexivity. Qed.

Lemma node_read idx : in_bounds shape_ idx ->
  exists q, node_value m p vnext e (node_labels ss idx) = VFin q /\ q == qget ccvs idx.
Proof.
  intros Hb. destruct (Hread idx Hb) as (q & Hq). exists q. split.
  - assert (E : omap (fun sg : string * grid => match assoc (fst sg) (node_labels ss idx) with
                                                   | Some l => Some l | None => next_det m p e (fst sg) end) (states m)
                = Some (node_vals sts is_st det idx))
      by exact (spec_next_values_at_node is_st det (next_det m p e) sts idx Hnd (idx_length idx Hb) Hdet).
    unfold node_value. rewrite E. unfold vnext. fold sts. rewrite vread_finite. now rewrite Hq.
  - rewrite (ccvs_entry idx Hb). symmetry. now apply HFR.
Qed.

Theorem one_bellman_step_of_the_code_is_the_specifications :
  exists v, objective m p false vnext e = VFin v /\ fst code_value == v /\ snd code_value = fe.
Proof.
  destruct ccvs_shape as [Wc Sc].
  assert (Hvec : forall w, In w ws -> tl (shape w) = []).
  { intros w Hw. rewrite ws_are_the_rows in Hw. apply in_map_iff in Hw. destruct Hw as (row & <- & _). reflexivity. }
  assert (Hws : length ws = length rows /\
                forall i k, (i < length rows)%nat -> qget (nth i ws dflt_arr) [k] = nth k (nth i rows []) 0).
  { rewrite ws_are_the_rows, map_length. split; [reflexivity|]. intros i k Hi.
    rewrite (nth_indep _ dflt_arr (vec [])) by (now rewrite map_length).
    change (vec []) with ((fun row : list Q => vec row) []). rewrite map_nth. apply qget_vec. }
  destruct (spec_objective_from_code_sum m p e vnext rows Hrows ccvs ws Hws node_read u Hu) as (v & Hv & Ev).
  exists v. split; [exact Hv|].
  unfold code_value.
  rewrite (u_and_f_is_one_bellman_step params FE beta (fun _ _ _ => (u, fe)) (fun _ _ _ => next_states_kw)
             (fun _ _ _ => weights_kw) svf [] [] svars [] t kwargs p nodup_names Hvec
             (conj Wc (eq_trans Sc (eq_sym node_shape_is_shape)))).
  cbn [fst snd]. split; [|reflexivity]. rewrite Ev. fold ccvs. fold names. fold ws.
  rewrite node_shape_is_shape. fold shape_.
  replace (length names) with (length rows); [reflexivity|].
  unfold names, multiply_weights_arg_names, svars. rewrite !map_length. apply rows_length.
Qed.
End Step.

(* ---- instantiation 1: no filter-restricted states (no indexer) ----------------------------------------- *)
Definition FR_free (sts : list (string * grid)) (F : list nat -> Q) (vals : list Q) : Q :=
  match disc_labels sts vals with
  | Some dl => function_representation (layout_array sts F) None [] (map Z.of_nat dl) (conts_of sts vals)
  | None => 0
  end.

Lemma FR_free_reads sts F vals q : grids_valid sts -> length vals = length sts ->
  qread sts F vals = Some q -> FR_free sts F vals == q.
Proof.
  intros Hv Hl Hq. unfold FR_free. destruct (qread_some_disc_labels sts F vals q Hq) as (dl & Hd). rewrite Hd.
  apply (function_representation_on_the_layout_array sts F vals q dl Hv Hl Hq Hd).
Qed.

(* ---- instantiation 2: with filter-restricted states (rank axis + state indexer) -------------------------- *)
Definition FR_ix (isr : string -> bool) (remaining : list (list nat)) (sts : list (string * grid)) (F : list nat -> Q)
           (vals : list Q) : Q :=
  match disc_labels sts vals with
  | Some dl_all =>
      function_representation (layout_array_ix isr remaining sts F) (Some (indexer_array isr remaining sts))
                              (map Z.of_nat (fst (split_labels isr sts dl_all)))
                              (map Z.of_nat (snd (split_labels isr sts dl_all))) (conts_of sts vals)
  | None => 0
  end.

Lemma FR_ix_reads isr remaining sts F vals q dl_all : grids_valid sts -> length vals = length sts ->
  qread sts F vals = Some q -> disc_labels sts vals = Some dl_all ->
  In (fst (split_labels isr sts dl_all)) remaining -> FR_ix isr remaining sts F vals == q.
Proof.
  intros Hv Hl Hq Hd Hr. unfold FR_ix. rewrite Hd.
  apply (function_representation_on_the_indexed_layout isr remaining sts F vals q dl_all Hv Hl Hq Hd Hr).
Qed.

(* ---- the two instances ------------------------------------------------------------------------------------ *)
Section Instances.
Variables (m : model) (p : params) (e : env) (F : list nat -> Q) (det : string -> Q) (rows : list (list Q)).
Variables (u : Q) (FE : Type) (fe : FE) (t : nat) (kwargs : list (string * qarr)).
Hypothesis Hnd : NoDup (map fst (states m)).
Hypothesis Hvalid : grids_valid (states m).
Hypothesis Hu : eval_fun (depth m) m p e "utility" = Some u.
Hypothesis Hdet : forall sg, In sg (states m) -> is_stochastic m (fst sg) = false -> next_det m p e (fst sg) = Some (det (fst sg)).
Hypothesis Hrows : omap (fun sg : string * grid => weight_row m p e (fst sg)) (stoch_states m) = Some rows.
Hypothesis Hrowlen : Forall2 (fun (sg : string * grid) (row : list Q) => length row = grid_size (snd sg)) (stoch_states m) rows.
Hypothesis Hread : forall idx, in_bounds (map (fun sg : string * grid => grid_size (snd sg)) (stoch_states m)) idx ->
  exists q, qread (states m) F (node_vals (states m) (is_stochastic m) det idx) = Some q.

Lemma node_vals_length idx : in_bounds (map (fun sg : string * grid => grid_size (snd sg)) (stoch_states m)) idx ->
  length (node_vals (states m) (is_stochastic m) det idx) = length (states m).
Proof.
  intros Hb. apply length_node_vals. rewrite (in_bounds_length _ _ Hb), map_length. reflexivity.
Qed.

(* without filter-restricted states: the value array has no rank axis and there is no indexer *)
Theorem one_bellman_step_without_restricted_states :
  exists v, objective m p false (fun idx => VFin (F idx)) e = VFin v /\
            fst (code_value m p det rows u FE fe t kwargs (FR_free (states m) F)) == v /\
            snd (code_value m p det rows u FE fe t kwargs (FR_free (states m) F)) = fe.
Proof.
  apply (one_bellman_step_of_the_code_is_the_specifications m p e F det rows u FE fe t kwargs Hnd Hu Hdet Hrows Hrowlen Hread).
  intros idx q Hb Hq. apply FR_free_reads; [exact Hvalid|now apply node_vals_length|exact Hq].
Qed.

(* with filter-restricted states: rank axis + state indexer; every node's restricted combination remains *)
Variables (isr : string -> bool) (remaining : list (list nat)).
Hypothesis Hremain : forall idx dl_all, in_bounds (map (fun sg : string * grid => grid_size (snd sg)) (stoch_states m)) idx ->
  disc_labels (states m) (node_vals (states m) (is_stochastic m) det idx) = Some dl_all ->
  In (fst (split_labels isr (states m) dl_all)) remaining.

Theorem one_bellman_step_with_restricted_states :
  exists v, objective m p false (fun idx => VFin (F idx)) e = VFin v /\
            fst (code_value m p det rows u FE fe t kwargs (FR_ix isr remaining (states m) F)) == v /\
            snd (code_value m p det rows u FE fe t kwargs (FR_ix isr remaining (states m) F)) = fe.
Proof.
  apply (one_bellman_step_of_the_code_is_the_specifications m p e F det rows u FE fe t kwargs Hnd Hu Hdet Hrows Hrowlen Hread).
  intros idx q Hb Hq. destruct (qread_some_disc_labels _ _ _ _ Hq) as (dl_all & Hd).
  apply (FR_ix_reads isr remaining (states m) F _ q dl_all Hvalid (node_vals_length idx Hb) Hq Hd).
  exact (Hremain idx dl_all Hb Hd).
Qed.
End Instances.

(* Proofs/QLemmas.v — small facts about Q helpers used by several proofs.        *)
From Coq Require Import Lqa.
From LCM Require Import Base.Prelude Base.QKernel.
Local Open Scope Q_scope.

Lemma Qcompare_inject_Z a b : Qcompare (inject_Z a) (inject_Z b) = Z.compare a b.
Proof. unfold Qcompare; simpl. now rewrite !Z.mul_1_r. Qed.

Lemma Qmax_inject_Z a b : Qmax (inject_Z a) (inject_Z b) = inject_Z (Z.max a b).
Proof.
  unfold Qmax, GenericMinMax.gmax. rewrite Qcompare_inject_Z.
  unfold Z.max. destruct (Z.compare a b); reflexivity.
Qed.

Lemma Qmin_inject_Z a b : Qmin (inject_Z a) (inject_Z b) = inject_Z (Z.min a b).
Proof.
  unfold Qmin, GenericMinMax.gmin. rewrite Qcompare_inject_Z.
  unfold Z.min. destruct (Z.compare a b); reflexivity.
Qed.

Lemma Qclip_inject_Z x lo hi :
  Qclip (inject_Z x) (inject_Z lo) (inject_Z hi) = inject_Z (Zclip x lo hi).
Proof. unfold Qclip, Zclip. now rewrite Qmax_inject_Z, Qmin_inject_Z. Qed.

Lemma Qfloor_inject_Z z : Qfloor (inject_Z z) = z.
Proof. unfold Qfloor, inject_Z. simpl. apply Z.div_1_r. Qed.

Lemma Qceiling_inject_Z z : Qceiling (inject_Z z) = z.
Proof.
  unfold Qceiling.
  change (- inject_Z z) with (inject_Z (- z)).
  rewrite Qfloor_inject_Z. lia.
Qed.

Lemma Qtrunc_inject_Z z : Qtrunc (inject_Z z) = z.
Proof. unfold Qtrunc. destruct (Qltb _ _); [apply Qceiling_inject_Z | apply Qfloor_inject_Z]. Qed.

Lemma Qastype_int_inject_Z z : Qastype_int (inject_Z z) = inject_Z z.
Proof. unfold Qastype_int. now rewrite Qtrunc_inject_Z. Qed.

Lemma Qltb_lt a b : Qltb a b = true <-> a < b.
Proof.
  unfold Qltb. rewrite negb_true_iff. split.
  - intros H. apply Qnot_le_lt. intro Hle. apply Qle_bool_iff in Hle. congruence.
  - intros H. destruct (Qle_bool b a) eqn:E; [|reflexivity].
    apply Qle_bool_iff in E. exfalso. apply (Qlt_not_le _ _ H E).
Qed.

Lemma Qleb_le a b : Qleb a b = true <-> a <= b.
Proof. unfold Qleb. apply Qle_bool_iff. Qed.

Lemma Qeqb_eq a b : Qeqb a b = true <-> a == b.
Proof. unfold Qeqb. apply Qeq_bool_iff. Qed.

Lemma inject_Z_of_nat_S n : inject_Z (Z.of_nat (S n)) == inject_Z (Z.of_nat n) + 1.
Proof. rewrite Nat2Z.inj_succ. unfold Z.succ. rewrite inject_Z_plus. reflexivity. Qed.

Lemma inject_Z_minus x y : inject_Z (x - y) = inject_Z x - inject_Z y.
Proof. unfold Z.sub, Qminus. now rewrite inject_Z_plus, inject_Z_opp. Qed.

(* Proofs/C18_VarInfo.v — the variable_info table of a model: discrete states, discrete choices, continuous states,       *)
(* continuous choices (all dense, none auxiliary); with filters: the restricted states and choices first, sparse.            *)
From LCM Require Import Base.Prelude Gen.ChoiceAxes Spec.Lang.
Local Open Scope nat_scope.

Definition vinfo (st cont : bool) (sg : string * grid) : varinfo :=
  mkVarinfo (fst sg) st (negb st) cont (negb cont) false false false true.
Definition vi_of (dst dch cst cch : list (string * grid)) : list varinfo :=
  (map (vinfo true false) dst ++ map (vinfo false false) dch ++ map (vinfo true true) cst ++ map (vinfo false true) cch)%list.

Lemma filter_map_const {A B} (f : A -> B) (P : B -> bool) (b : bool) l :
  (forall x, P (f x) = b) -> filter P (map f l) = if b then map f l else [].
Proof.
  intros H. induction l as [|x r IH]; [now destruct b|]. cbn [map filter]. rewrite H, IH. now destruct b.
Qed.


Definition vinfo_sparse (st : bool) (sg : string * grid) : varinfo :=
  mkVarinfo (fst sg) st (negb st) false true false false true false.
Definition vi_sparse (rs rc dst dch cst cch : list (string * grid)) : list varinfo :=
  (map (vinfo_sparse true) rs ++ map (vinfo_sparse false) rc ++ vi_of dst dch cst cch)%list.


(* Proofs/C17_FilterMask.v — the regenerated create_filter_mask (Gen/FilterMask.v): the mask is the array over the grids of the     *)
(* subset's variables, in the order of model.grids, whose entry at idx is the concatenated filter at the idx-th grid values and the *)
(* fixed inputs.                                                                                                                   *)
From Coq Require Import Lia.
From LCM Require Import Base.Prelude Base.Arr Model.Dispatchers Model.PyVocab Gen.ChoiceAxes Gen.FilterMask.
From LCM Require Import Proofs.ArrLemmas Proofs.C19_Dispatch Proofs.PyVocabLemmas.
Local Open Scope nat_scope.

Fixpoint index_nat (q : nat) (l : list nat) : option nat :=
  match l with
  | [] => None
  | x :: r => if Nat.eqb q x then Some 0 else match index_nat q r with Some k => Some (S k) | None => None end
  end.

Lemma index_nat_None q l : ~ In q l -> index_nat q l = None.
Proof.
  induction l as [|x r IH]; intros H; [reflexivity|]. cbn [index_nat]. destruct (Nat.eqb_spec q x) as [->|N]; [exfalso; apply H; now left|].
  rewrite IH; [reflexivity|]. intros Hin. apply H. now right.
Qed.

Lemma length_slice_all' : forall ps args idx, length (slice_all args ps idx) = length args.
Proof.
  induction ps as [|p ps IH]; intros args idx; [reflexivity|]. destruct idx as [|i idx]; [reflexivity|]. cbn [slice_all].
  rewrite IH. unfold slice1. apply length_upd.
Qed.

(* the arguments after slicing every mapped position at its index *)
Lemma slice_all_nth : forall ps args idx q, NoDup ps -> length idx = length ps -> (forall p, In p ps -> p < length args) -> q < length args ->
  nth q (slice_all args ps idx) dflt_arr
  = match index_nat q ps with Some k => qslice (nth q args dflt_arr) (nth k idx 0) | None => nth q args dflt_arr end.
Proof.
  induction ps as [|p ps IH]; intros args idx q Hn Hl Hp Hq; [reflexivity|]. destruct idx as [|i idx]; [discriminate|].
  inversion Hn as [|? ? Hnotin Hn']; subst. cbn [slice_all index_nat].
  assert (Hlen : length (slice1 args p i) = length args) by (unfold slice1; apply length_upd).
  rewrite IH; [|exact Hn'|simpl in Hl; lia|intros p' Hp'; rewrite Hlen; apply Hp; now right|now rewrite Hlen].
  destruct (Nat.eqb_spec q p) as [->|N].
  - rewrite (index_nat_None p ps Hnotin). unfold slice1. rewrite nth_upd_same; [reflexivity|apply Hp; now left].
  - unfold slice1. rewrite nth_upd_other by congruence. destruct (index_nat q ps); reflexivity.
Qed.

Fixpoint index_str (k : string) (l : list string) : option nat := index_of k l.

Lemma index_nat_map_pos (sig axis : list string) (q : nat) : NoDup sig -> (forall a, In a axis -> In a sig) -> q < length sig ->
  index_nat q (map (fun a => match index_of a sig with Some i => i | None => 0 end) axis) = index_of (nth q sig ""%string) axis.
Proof.
  intros Hs Hin Hq. induction axis as [|a r IH]; [reflexivity|]. cbn [map index_nat index_of].
  assert (Ha : In a sig) by (apply Hin; now left).
  destruct (In_nth _ _ ""%string Ha) as (i & Hi & Ei).
  rewrite <- Ei at 1. rewrite (index_of_nth_nodup' sig i Hs Hi).
  destruct (Nat.eqb_spec q i) as [->|N].
  - rewrite Ei, String.eqb_refl. reflexivity.
  - destruct (String.eqb_spec (nth q sig ""%string) a) as [E|E].
    + exfalso. apply N. rewrite <- Ei in E.
      pose proof (index_of_nth_nodup' sig q Hs Hq) as E1. rewrite E, (index_of_nth_nodup' sig i Hs Hi) in E1. congruence.
    + rewrite IH; [reflexivity|]. intros a' Ha'. apply Hin. now right.
Qed.

Local Open Scope string_scope.
Section FilterMask.
Variables (sig : list string) (scalar_filter : list qarr -> qarr).
Hypothesis Hscalar : forall a, wf (scalar_filter a) /\ shape (scalar_filter a) = [].
Hypothesis Hsig : NoDup sig.
Variables (vi : list varinfo) (grids : list (string * list Q)) (subset : option (list string)) (fixed_inputs : option (list (string * qarr))).
Definition fm_subset : list string := match subset with None => map vname (filter (fun v => is_sparse v) vi) | Some s => s end.
Definition fm_fixed : list (string * qarr) := match fixed_inputs with None => [] | Some d => d end.
Definition fm_axis : list string := filter (fun name => mem_str name fm_subset) (map fst grids).
Definition fm_grid (name : string) : list Q := match assoc name grids with Some g => g | None => [] end.
Definition fm_shape : list nat := map (fun a => length (fm_grid a)) fm_axis.
Hypothesis Hgrids_nd : NoDup (map fst grids).
Hypothesis Hfixed_nd : NoDup (map fst fm_fixed).
Hypothesis Haxis_sig : forall a, In a fm_axis -> In a sig.
Hypothesis Haxis_fixed : forall a, In a fm_axis -> ~ In a (map fst fm_fixed).

(* the arguments of the concatenated filter at the combination idx *)
Definition fm_arg (idx : list nat) (p : string) : qarr :=
  match index_of p fm_axis with
  | Some k => scalar (nth (nth k idx 0%nat) (fm_grid p) 0%Q)
  | None => match assoc p fm_fixed with
            | Some v => v
            | None => match assoc p grids with Some g => vec g | None => dflt_arr end
            end
  end.
Definition fm_args (idx : list nat) : list qarr := map (fm_arg idx) sig.

Definition fm_kwargs : list (string * qarr) :=
  filter (fun kv => mem_str (fst kv) sig)
    (fold_left (fun d kv => dict_set d (fst kv) (snd kv)) fm_fixed
       (fold_left (fun d kv => dict_set d (fst kv) (snd kv)) (map (fun kv : string * list Q => (fst kv, vec (snd kv))) grids) [])).

Lemma fm_lookup p : In p sig ->
  lookup fm_kwargs p = match assoc p fm_fixed with
                       | Some v => v
                       | None => match assoc p grids with Some g => vec g | None => dflt_arr end
                       end.
Proof.
  intros Hp. unfold lookup, fm_kwargs. rewrite (assoc_filter_mem sig _ p Hp).
  rewrite (assoc_fold_dict_set (fun kv : string * qarr => snd kv) p fm_fixed _ Hfixed_nd).
  replace (map (fun kv : string * qarr => (fst kv, snd kv)) fm_fixed) with fm_fixed.
  2:{ symmetry. rewrite <- (map_id fm_fixed) at 2. apply map_ext. now intros []. }
  destruct (assoc p fm_fixed); [reflexivity|].
  rewrite (assoc_fold_dict_set (fun kv : string * qarr => snd kv) p).
  2:{ rewrite map_map. cbn [fst]. exact Hgrids_nd. }
  cbn [assoc]. rewrite map_map. cbn [fst snd].
  rewrite (assoc_map_val (fun g : list Q => vec g)). now destruct (assoc p grids).
Qed.

Definition fm_positions : list nat := map (pos_of (mkFunc sig scalar_filter)) fm_axis.

Lemma axis_nd : NoDup fm_axis.
Proof. unfold fm_axis. apply NoDup_filter. exact Hgrids_nd. Qed.

Lemma positions_nd : NoDup fm_positions.
Proof.
  unfold fm_positions. pose proof axis_nd as Hn. revert Haxis_sig. generalize fm_axis Hn. intros l Hl Hin.
  induction l as [|a r IH]; [constructor|]. inversion Hl as [|? ? Ha Hr]; subst. cbn [map]. constructor.
  - intros H. apply in_map_iff in H. destruct H as (b & E & Hb). apply Ha.
    assert (Hbs : In b sig) by (apply Hin; now right). assert (Has : In a sig) by (apply Hin; now left).
    unfold pos_of in E. cbn [params] in E.
    destruct (In_nth _ _ "" Hbs) as (i & Hi & Ei). destruct (In_nth _ _ "" Has) as (j & Hj & Ej).
    rewrite <- Ei, <- Ej, !(index_of_nth_nodup' sig _ Hsig) in E by assumption. subst j. rewrite <- Ej, Ei. exact Hb.
  - apply IH; [exact Hr|]. intros x Hx. apply Hin. now right.
Qed.

Lemma axis_lookup a : In a fm_axis -> lookup fm_kwargs a = vec (fm_grid a).
Proof.
  intros Ha. rewrite (fm_lookup a (Haxis_sig a Ha)). rewrite (assoc_None a fm_fixed (Haxis_fixed a Ha)).
  unfold fm_grid. destruct (assoc a grids) eqn:E; [reflexivity|].
  exfalso. unfold fm_axis in Ha. apply filter_In in Ha. destruct Ha as [Ha _]. apply in_map_iff in Ha. destruct Ha as ([k g] & Ek & Hin).
  cbn in Ek. subst k. rewrite (assoc_In_nodup a g grids Hgrids_nd Hin) in E. discriminate.
Qed.

Lemma dims_are : dims fm_positions (map (lookup fm_kwargs) sig) = fm_shape.
Proof.
  unfold dims, fm_positions, fm_shape. rewrite map_map. apply map_ext_in. intros a Ha.
  assert (Has : In a sig) by (now apply Haxis_sig). destruct (In_nth _ _ "" Has) as (i & Hi & Ei).
  unfold pos_of. cbn [params]. rewrite <- Ei at 1. rewrite (index_of_nth_nodup' sig i Hsig Hi).
  rewrite (nth_indep (map _ sig) dflt_arr (lookup fm_kwargs "")) by (now rewrite map_length). rewrite (map_nth (lookup fm_kwargs)), Ei.
  rewrite (axis_lookup a Ha). reflexivity.
Qed.

Lemma qslice_vec_at' l j : qslice (vec l) j = scalar (nth j l 0%Q).
Proof.
  unfold qslice, slice, vec, tabulate, scalar, get. cbn [shape data tl indices map ravel size].
  now rewrite Nat.mul_1_r, Nat.add_0_r.
Qed.

Lemma sliced_args idx : in_bounds fm_shape idx ->
  slice_all (map (lookup fm_kwargs) sig) fm_positions idx = fm_args idx.
Proof.
  intros Hb. apply (nth_ext _ _ dflt_arr dflt_arr).
  - rewrite length_slice_all'. unfold fm_args. now rewrite !map_length.
  - intros q Hq. rewrite length_slice_all', map_length in Hq.
    rewrite slice_all_nth; [|exact positions_nd| | |now rewrite map_length].
    2:{ rewrite (in_bounds_length _ _ Hb). unfold fm_shape, fm_positions. now rewrite !map_length. }
    2:{ intros p Hp. rewrite map_length. unfold fm_positions in Hp. apply in_map_iff in Hp. destruct Hp as (a & E & Ha). subst p.
        unfold pos_of. cbn [params]. destruct (In_nth _ _ "" (Haxis_sig a Ha)) as (i & Hi & Ei).
        rewrite <- Ei, (index_of_nth_nodup' sig i Hsig Hi). exact Hi. }
    unfold fm_positions, pos_of. cbn [params]. rewrite (index_nat_map_pos sig fm_axis q Hsig Haxis_sig Hq).
    unfold fm_args.
    rewrite (nth_indep (map (fm_arg idx) sig) dflt_arr (fm_arg idx "")) by (now rewrite map_length).
    rewrite (map_nth (fm_arg idx)).
    rewrite (nth_indep (map _ sig) dflt_arr (lookup fm_kwargs "")) by (now rewrite map_length). rewrite (map_nth (lookup fm_kwargs)).
    set (p := nth q sig ""). assert (Hp : In p sig) by (now apply nth_In).
    unfold fm_arg. destruct (index_of p fm_axis) as [k|] eqn:Ek.
    + destruct (index_of_Some_nth p fm_axis k Ek) as [En Hk]. assert (Ha : In p fm_axis) by (rewrite <- En; now apply nth_In).
      rewrite (axis_lookup p Ha). apply qslice_vec_at'.
    + apply fm_lookup. exact Hp.
Qed.

(* ---- what create_filter_mask returns ----------------------------------------------------------------------------------- *)
Theorem create_filter_mask_entries :
  let mask := create_filter_mask sig scalar_filter vi grids subset fixed_inputs in
  wf mask /\ shape mask = fm_shape /\
  forall idx, in_bounds fm_shape idx -> qget mask idx = qget (scalar_filter (fm_args idx)) [].
Proof.
  intros mask. unfold mask, create_filter_mask, productmap. cbn [params fn]. fold fm_subset. fold fm_fixed. fold fm_axis. fold fm_kwargs. fold fm_positions.
  destruct (bpm_wf_shape scalar_filter [] (fun _ => True) (fun _ => True) (fun _ _ _ _ _ => I) (fun a _ => Hscalar a)
              fm_positions (map (lookup fm_kwargs) sig) I positions_nd) as [Hw Hs].
  { apply Forall_forall. intros; exact I. }
  rewrite dims_are, app_nil_r in Hs. split; [exact Hw|]. split; [exact Hs|].
  intros idx Hb.
  pose proof (bpm_get scalar_filter [] (fun _ => True) (fun _ => True) (fun _ _ _ _ _ => I) (fun a _ => Hscalar a)
                fm_positions (map (lookup fm_kwargs) sig) idx [] I positions_nd) as G.
  rewrite app_nil_r in G. rewrite G; [|apply Forall_forall; intros; exact I|now rewrite dims_are|exact I].
  now rewrite (sliced_args idx Hb).
Qed.
End FilterMask.

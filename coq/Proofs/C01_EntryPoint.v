(* Proofs/C01_EntryPoint.v — the glue of lcm.entry_point.get_lcm_function, as regenerated from the  *)
(* source (Gen/EntryPoint.v): which component of which period ends up at which position of the lists *)
(* handed to solve and simulate.  In particular: period t gets ITS OWN state-choice space, choice     *)
(* segments, utility-and-feasibility function (built with period t and "is last" iff t = T-1), and    *)
(* the space info and state indexer OF PERIOD t+1 (empty in the last period).                         *)
From Coq Require Import List Arith Lia.
Import ListNotations.
From LCM Require Import Gen.EntryPoint.

Lemma fold_left_ext {A B} (f g : A -> B -> A) l : (forall a b, f a b = g a b) -> forall i, fold_left f l i = fold_left g l i.
Proof. intros H. induction l as [|x r IH]; intros i; simpl; [reflexivity|]. now rewrite H, IH. Qed.

Section Steps.
Context {A B C D : Type}.
Definition step4 (g1 : nat -> A) (g2 : nat -> B) (g3 : nat -> C) (g4 : nat -> D)
  (acc : list A * list B * list C * list D) (p : nat) :=
  let '(a, b, c, d) := acc in (a ++ [g1 p], b ++ [g2 p], c ++ [g3 p], d ++ [g4 p]).
Lemma fold_step4 g1 g2 g3 g4 l : forall a b c d,
  fold_left (step4 g1 g2 g3 g4) l (a, b, c, d) = (a ++ map g1 l, b ++ map g2 l, c ++ map g3 l, d ++ map g4 l).
Proof.
  induction l as [|x r IH]; intros a b c d; simpl; [now rewrite !app_nil_r|].
  rewrite IH, <- !app_assoc. reflexivity.
Qed.
Definition step3 (g1 : nat -> A) (g2 : nat -> B) (g3 : nat -> C) (acc : list A * list B * list C) (p : nat) :=
  let '(a, b, c) := acc in (a ++ [g1 p], b ++ [g2 p], c ++ [g3 p]).
Lemma fold_step3 g1 g2 g3 l : forall a b c,
  fold_left (step3 g1 g2 g3) l (a, b, c) = (a ++ map g1 l, b ++ map g2 l, c ++ map g3 l).
Proof.
  induction l as [|x r IH]; intros a b c; simpl; [now rewrite !app_nil_r|].
  rewrite IH, <- !app_assoc. reflexivity.
Qed.
End Steps.

Lemma nth_map_seq {A} (g : nat -> A) n t d : t < n -> nth t (map g (seq 0 n)) d = g t.
Proof.
  intros H. rewrite (nth_indep _ d (g 0)) by (now rewrite map_length, seq_length).
  rewrite map_nth, seq_nth by exact H. reflexivity.
Qed.

(* xs[1:] + [e] *)
Lemma nth_shifted {A} (g : nat -> A) n e t d : t < n ->
  nth t (tl (map g (seq 0 n)) ++ [e]) d = if S t <? n then g (S t) else e.
Proof.
  intros H. destruct n as [|n]; [lia|]. cbn [seq map tl]. rewrite <- seq_shift, map_map.
  destruct (Nat.ltb_spec (S t) (S n)) as [L|L].
  - rewrite app_nth1 by (rewrite map_length, seq_length; lia). rewrite nth_map_seq by lia. reflexivity.
  - rewrite app_nth2 by (rewrite map_length, seq_length; lia). rewrite map_length, seq_length.
    replace (t - n) with 0 by lia. reflexivity.
Qed.

Section Glue.
Variables T_choice_grids T_sc_space T_space_info T_state_indexer T_segments T_u_and_f T_compute_ccv T_compute_ccv_argmax T_calculator : Type.
Variable choice_grids : T_choice_grids.
Variables (empty_space_infos : T_space_info) (empty_state_indexers : T_state_indexer).
Variables (d_space_infos : T_space_info) (d_choice_segments : T_segments).
Variable create_state_choice_space : nat -> bool -> (T_sc_space * T_space_info * T_state_indexer * T_segments).
Variable get_utility_and_feasibility_function : T_space_info -> nat -> bool -> T_u_and_f.
Variable create_compute_conditional_continuation_value : T_u_and_f -> T_compute_ccv.
Variable create_compute_conditional_continuation_policy : T_u_and_f -> T_compute_ccv_argmax.
Variable get_solve_discrete_problem : bool -> T_segments -> T_calculator.
Variable n : nat.

Let built := build T_choice_grids T_sc_space T_space_info T_state_indexer T_segments T_u_and_f T_compute_ccv
  T_compute_ccv_argmax T_calculator choice_grids empty_space_infos empty_state_indexers d_space_infos d_choice_segments
  create_state_choice_space get_utility_and_feasibility_function create_compute_conditional_continuation_value
  create_compute_conditional_continuation_policy get_solve_discrete_problem n.

(* the components of period t *)
Definition is_last (t : nat) : bool := t =? n - 1.
Definition space_of (t : nat) := fst (fst (fst (create_state_choice_space t (is_last t)))).
Definition info_of (t : nat) := snd (fst (fst (create_state_choice_space t (is_last t)))).
Definition indexer_of (t : nat) := snd (fst (create_state_choice_space t (is_last t))).
Definition segments_of (t : nat) := snd (create_state_choice_space t (is_last t)).
(* what period t looks V_{t+1} up with *)
Definition next_info (t : nat) := if S t <? n then info_of (S t) else empty_space_infos.
Definition next_indexer (t : nat) := if S t <? n then indexer_of (S t) else empty_state_indexers.
Definition u_and_f_of (t : nat) := get_utility_and_feasibility_function (next_info t) t (is_last t).

Definition expected :=
  let infos := tl (map info_of (seq 0 n)) ++ [empty_space_infos] in
  let indexers := tl (map indexer_of (seq 0 n)) ++ [empty_state_indexers] in
  let uf t := get_utility_and_feasibility_function (nth t infos d_space_infos) t (is_last t) in
  ((map space_of (seq 0 n), indexers, repeat choice_grids n,
    map (fun t => create_compute_conditional_continuation_value (uf t)) (seq 0 n),
    map (fun t => get_solve_discrete_problem (is_last t) (nth t (map segments_of (seq 0 n)) d_choice_segments)) (seq 0 n)),
   (indexers, repeat choice_grids n,
    map (fun t => create_compute_conditional_continuation_policy (uf t)) (seq 0 n))).

Lemma build_closed_form : built = expected.
Proof.
  unfold built, build, expected. cbv zeta.
  erewrite (fold_left_ext _ (step4 space_of segments_of indexer_of info_of)).
  2:{ intros [[[a b] c] d] p. unfold step4, space_of, segments_of, indexer_of, info_of, is_last.
      destruct (create_state_choice_space p (p =? n - 1)) as [[[x y] z] w]. reflexivity. }
  rewrite fold_step4. cbn [app].
  erewrite (fold_left_ext _ (step3 _ _ _)).
  2:{ intros [[a b] c] p. unfold step3. reflexivity. }
  rewrite fold_step3. cbn [app]. reflexivity.
Qed.

(* projections of what is handed to solve and to simulate *)
Definition spaces := fst (fst (fst (fst (fst built)))).
Definition indexers := snd (fst (fst (fst (fst built)))).
Definition grids := snd (fst (fst (fst built))).
Definition ccvs := snd (fst (fst built)).
Definition emaxs := snd (fst built).
Definition sim_indexers := fst (fst (snd built)).
Definition sim_grids := snd (fst (snd built)).
Definition policies := snd (snd built).

Lemma shifted_length {A} (g : nat -> A) e : 1 <= n -> length (tl (map g (seq 0 n)) ++ [e]) = n.
Proof. intros H. rewrite app_length. destruct n; [lia|]. cbn [seq map tl]. rewrite map_length, seq_length. simpl. lia. Qed.

Theorem lists_have_one_entry_per_period : 1 <= n ->
  length spaces = n /\ length indexers = n /\ length grids = n /\ length ccvs = n /\ length emaxs = n /\
  length sim_indexers = n /\ length sim_grids = n /\ length policies = n.
Proof.
  intros H. unfold spaces, indexers, grids, ccvs, emaxs, sim_indexers, sim_grids, policies.
  rewrite build_closed_form. unfold expected. cbn [fst snd].
  rewrite !map_length, !seq_length, !repeat_length, !(shifted_length _ _ H). repeat split; reflexivity.
Qed.

Section Period.
Variable t : nat.
Hypothesis Ht : t < n.

Theorem period_space d : nth t spaces d = space_of t.
Proof. unfold spaces. rewrite build_closed_form. unfold expected. cbn [fst snd]. now apply nth_map_seq. Qed.

Theorem period_indexer d : nth t indexers d = next_indexer t.
Proof. unfold indexers. rewrite build_closed_form. unfold expected. cbn [fst snd]. now apply nth_shifted. Qed.

Theorem period_grids d : nth t grids d = choice_grids.
Proof.
  unfold grids. rewrite build_closed_form. unfold expected. cbn [fst snd].
  clear -Ht. revert t Ht. induction n as [|k IH]; intros t Ht; [lia|]. destruct t; simpl; [reflexivity|]. apply IH. lia.
Qed.

Lemma uf_at : get_utility_and_feasibility_function
                (nth t (tl (map info_of (seq 0 n)) ++ [empty_space_infos]) d_space_infos) t (is_last t) = u_and_f_of t.
Proof. unfold u_and_f_of, next_info. now rewrite nth_shifted. Qed.

Theorem period_ccv d : nth t ccvs d = create_compute_conditional_continuation_value (u_and_f_of t).
Proof.
  unfold ccvs. rewrite build_closed_form. unfold expected. cbn [fst snd].
  rewrite (nth_map_seq (fun t0 => create_compute_conditional_continuation_value _) n t d Ht). now rewrite uf_at.
Qed.

Theorem period_emax d : nth t emaxs d = get_solve_discrete_problem (is_last t) (segments_of t).
Proof.
  unfold emaxs. rewrite build_closed_form. unfold expected. cbn [fst snd].
  rewrite (nth_map_seq (fun t0 => get_solve_discrete_problem _ _) n t d Ht). now rewrite nth_map_seq.
Qed.

Theorem period_policy d : nth t policies d = create_compute_conditional_continuation_policy (u_and_f_of t).
Proof.
  unfold policies. rewrite build_closed_form. unfold expected. cbn [fst snd].
  rewrite (nth_map_seq (fun t0 => create_compute_conditional_continuation_policy _) n t d Ht). now rewrite uf_at.
Qed.
End Period.

(* simulate is handed the same indexers and grids as solve *)
Theorem simulate_shares_solve_lists : sim_indexers = indexers /\ sim_grids = grids.
Proof. unfold sim_indexers, indexers, sim_grids, grids. rewrite build_closed_form. split; reflexivity. Qed.

(* ... and its policy functions are built from the utility-and-feasibility functions solve used *)
Theorem simulate_built_from_what_solve_used :
  fst (fst (snd built)) = snd (fst (fst (fst (fst built)))) /\
  snd (fst (snd built)) = snd (fst (fst (fst built))) /\
  forall t d d', t < n ->
    exists uf, nth t (snd (fst (fst built))) d = create_compute_conditional_continuation_value uf /\
               nth t (snd (snd built)) d' = create_compute_conditional_continuation_policy uf.
Proof.
  split; [apply simulate_shares_solve_lists|split; [apply simulate_shares_solve_lists|]].
  intros t d d' Ht. exists (u_and_f_of t). split; [now apply period_ccv|now apply period_policy].
Qed.
End Glue.

(* ---- the glue composed with the driver (Gen/SolveBrute.v) ----------------------------------------- *)
From LCM Require Import Gen.SolveBrute Proofs.C05_SolveLoop.

Section Composed.
Variables T_params T_choice_grids T_sc_space T_space_info T_state_indexer T_segments T_u_and_f T_compute_ccv
          T_compute_ccv_argmax T_calculator T_arr T_ccvals : Type.
Variable choice_grids : T_choice_grids.
Variables (empty_space_infos : T_space_info) (empty_state_indexers : T_state_indexer).
Variables (d_space_infos : T_space_info) (d_choice_segments : T_segments).
Variable create_state_choice_space : nat -> bool -> (T_sc_space * T_space_info * T_state_indexer * T_segments).
Variable get_utility_and_feasibility_function : T_space_info -> nat -> bool -> T_u_and_f.
Variable create_compute_conditional_continuation_value : T_u_and_f -> T_compute_ccv.
Variable create_compute_conditional_continuation_policy : T_u_and_f -> T_compute_ccv_argmax.
Variable get_solve_discrete_problem : bool -> T_segments -> T_calculator.
Variables (d_space : T_sc_space) (d_indexers : T_state_indexer) (d_grids : T_choice_grids) (d_ccv : T_compute_ccv)
          (d_emax : T_calculator).
Variable solve_continuous_problem : T_sc_space -> T_compute_ccv -> T_choice_grids -> option T_arr -> T_state_indexer -> T_params -> T_ccvals.
Variable apply_calculate_emax : T_calculator -> T_ccvals -> T_params -> T_arr.
Variables (n : nat) (params : T_params).

Notation G f := (f T_choice_grids T_sc_space T_space_info T_state_indexer T_segments T_u_and_f T_compute_ccv
  T_compute_ccv_argmax T_calculator choice_grids empty_space_infos empty_state_indexers d_space_infos d_choice_segments
  create_state_choice_space get_utility_and_feasibility_function create_compute_conditional_continuation_value
  create_compute_conditional_continuation_policy get_solve_discrete_problem n).

(* what get_lcm_function(model, targets="solve") computes: solve applied to the lists that were built *)
Definition lcm_solve : list T_arr :=
  solve T_params T_sc_space T_state_indexer T_choice_grids T_compute_ccv T_calculator T_arr T_ccvals
        d_space d_indexers d_grids d_ccv d_emax solve_continuous_problem apply_calculate_emax
        params (G spaces) (G indexers) (G grids) (G ccvs) (G emaxs).

Theorem lcm_solve_length : 1 <= n -> length lcm_solve = n.
Proof.
  intros H. unfold lcm_solve. rewrite solve_one_array_per_period.
  now destruct (G lists_have_one_entry_per_period H) as (-> & _).
Qed.

Theorem lcm_solve_recursion d t : t < n ->
  nth t lcm_solve d =
  apply_calculate_emax
    (get_solve_discrete_problem ((t =? n - 1)) (snd (create_state_choice_space t ((t =? n - 1)))))
    (solve_continuous_problem
       (fst (fst (fst (create_state_choice_space t ((t =? n - 1))))))
       (create_compute_conditional_continuation_value
          (get_utility_and_feasibility_function
             (if S t <? n then snd (fst (fst (create_state_choice_space (S t) ((S t =? n - 1))))) else empty_space_infos)
             t ((t =? n - 1))))
       choice_grids
       (if S t =? n then None else Some (nth (S t) lcm_solve d))
       (if S t <? n then snd (fst (create_state_choice_space (S t) ((S t =? n - 1)))) else empty_state_indexers)
       params)
    params.
Proof.
  intros Ht. assert (H1 : 1 <= n) by lia.
  destruct (G lists_have_one_entry_per_period H1) as (Ls & _).
  unfold lcm_solve. rewrite (solve_is_backward_induction _ _ _ _ _ _ _ _ _ _ _ _ _ _ _ _ _ _ _ _ _ d t) by (now rewrite Ls).
  unfold period_array. rewrite Ls.
  rewrite (G period_space t Ht), (G period_indexer t Ht), (G period_grids t Ht), (G period_ccv t Ht), (G period_emax t Ht).
  reflexivity.
Qed.
End Composed.

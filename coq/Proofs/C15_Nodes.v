(* Proofs/C15_Nodes.v — map_coordinates at integer coordinates returns the entries. *)
From Coq Require Import Lqa Setoid Morphisms.
From LCM Require Import Base.Prelude Base.Arr Base.QKernel Gen.NdimageKernel.
From LCM Require Import Spec.Interp Model.Ndimage Proofs.QLemmas Proofs.ArrLemmas.
From LCM Require Import Proofs.C15_Interp Proofs.C15_Lin.
Local Open Scope Q_scope.

Theorem map_coordinates_at_nodes (input : arr Q) (idx : list nat) :
  shape input <> [] -> in_bounds (shape input) idx ->
  Forall (fun n => (2 <= n)%nat) (shape input) ->
  map_coordinates input (map Qofnat idx) == get 0 input idx.
Proof.
  intros Hr Hb Hd.
  rewrite map_coordinates_is_interp; auto.
  - apply interp_at_nodes; assumption.
  - rewrite map_length. now apply in_bounds_length.
Qed.

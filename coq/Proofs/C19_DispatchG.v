(* Proofs/C19_DispatchG.v — entry and shape of the product map for functions with outputs of any element *)
(* type (the proofs of Proofs/C19_Dispatch.v, output type generalised).                                    *)
From Coq Require Import Lia.
From LCM Require Import Base.Prelude Base.Arr Model.Dispatchers Model.DispatchersG.
From LCM Require Import Proofs.ArrLemmas Proofs.ArrLemmas2 Proofs.C19_Dispatch.
Local Open Scope nat_scope.

Section VmapG.
Context {A : Type} (dA : A).
Variables (f : list qarr -> arr A) (mapped : list nat) (args : list qarr) (sh : list nat).
Let n := lead (nth (hd 0 mapped) args dflt_arr).
Hypothesis Hloc : forall i, wf (f (slice_at args mapped i)) /\ shape (f (slice_at args mapped i)) = sh.

Lemma vmapG_shape : shape (vmapG f mapped args) = n :: sh.
Proof. unfold vmapG. cbn [shape]. now rewrite (proj2 (Hloc 0)). Qed.

Lemma vmapG_wf : wf (vmapG f mapped args).
Proof.
  unfold wf. rewrite vmapG_shape. unfold vmapG. cbn [data size].
  fold n. generalize 0 at 1. induction n as [|k IH]; intros s; simpl; [reflexivity|].
  rewrite app_length, IH. destruct (Hloc s) as [Hw Hs]. unfold wf in Hw. rewrite Hw, Hs. lia.
Qed.

Lemma vmapG_get i r : i < n -> in_bounds sh r ->
  get dA (vmapG f mapped args) (i :: r) = get dA (f (slice_at args mapped i)) r.
Proof.
  intros Hi Hr. rewrite get_as_nth, vmapG_shape. cbn [ravel]. unfold vmapG. cbn [data].
  fold n.
  rewrite (@nth_flat_map_const A dA (fun i0 => data (f (slice_at args mapped i0))) (size sh)).
  - simpl. rewrite get_as_nth. now rewrite (proj2 (Hloc i)).
  - intros x. destruct (Hloc x) as [Hw Hs]. unfold wf in Hw. now rewrite Hw, Hs.
  - exact Hi.
  - now apply ravel_lt.
Qed.
End VmapG.

Lemma base_productmapG_cons {A} (f : list qarr -> arr A) p ps : base_productmapG f (p :: ps) = vmapG (base_productmapG f ps) [p].
Proof. unfold base_productmapG. simpl. now rewrite fold_left_app. Qed.

Section ProductG.
Context {A : Type} (dA : A).
Variables (f : list qarr -> arr A) (osh : list nat).
Variable good : list qarr -> Prop.
Variable allowed : nat -> Prop.
Hypothesis Hgood : forall args p i, allowed p -> good args -> good (slice1 args p i).
Hypothesis Hf : forall args, good args -> wf (f args) /\ shape (f args) = osh.

Lemma bpmG_wf_shape ps : forall args, good args -> NoDup ps -> Forall allowed ps ->
  wf (base_productmapG f ps args) /\ shape (base_productmapG f ps args) = (dims ps args ++ osh)%list.
Proof.
  induction ps as [|p ps IH]; intros args Hg Hnd Hal.
  - unfold base_productmapG. simpl. now apply Hf.
  - rewrite base_productmapG_cons. inversion Hnd as [|? ? Hnotin Hnd']; subst.
    inversion Hal as [|? ? Hap Hal']; subst.
    assert (Hloc : forall i, wf (base_productmapG f ps (slice_at args [p] i)) /\
                             shape (base_productmapG f ps (slice_at args [p] i)) = (dims ps args ++ osh)%list).
    { intros i. rewrite slice_at_single. destruct (IH (slice1 args p i) (Hgood _ p i Hap Hg) Hnd' Hal') as [Hw Hs].
      split; [exact Hw|]. now rewrite Hs, dims_slice1. }
    split; [now apply (vmapG_wf _ _ _ _ Hloc)|].
    rewrite (vmapG_shape _ _ _ _ Hloc). reflexivity.
Qed.

Theorem bpmG_get ps : forall args idx r, good args -> NoDup ps -> Forall allowed ps ->
  in_bounds (dims ps args) idx -> in_bounds osh r ->
  get dA (base_productmapG f ps args) (idx ++ r) = get dA (f (slice_all args ps idx)) r.
Proof.
  induction ps as [|p ps IH]; intros args idx r Hg Hnd Hal Hidx Hr.
  - destruct idx; [|destruct Hidx]. reflexivity.
  - destruct idx as [|i idx]; [destruct Hidx|]. destruct Hidx as [Hi Hidx].
    inversion Hnd as [|? ? Hnotin Hnd']; subst.
    inversion Hal as [|? ? Hap Hal']; subst.
    rewrite base_productmapG_cons.
    assert (Hloc : forall i, wf (base_productmapG f ps (slice_at args [p] i)) /\
                             shape (base_productmapG f ps (slice_at args [p] i)) = (dims ps args ++ osh)%list).
    { intros j. rewrite slice_at_single. destruct (bpmG_wf_shape ps (slice1 args p j) (Hgood _ p j Hap Hg) Hnd' Hal') as [Hw Hs].
      split; [exact Hw|]. now rewrite Hs, dims_slice1. }
    cbn [app]. rewrite (vmapG_get dA _ _ _ _ Hloc).
    + rewrite slice_at_single. cbn [slice_all]. apply IH; auto.
      now rewrite dims_slice1.
    + exact Hi.
    + apply in_bounds_app; [exact Hidx|exact Hr].
Qed.
End ProductG.

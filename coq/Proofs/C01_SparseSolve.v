(* Proofs/C01_SparseSolve.v — ALL PERIODS WITH FILTER-RESTRICTED VARIABLES: the arrays lcm's solve returns satisfy the      *)
(* Bellman equation of the specification.  The regenerated driver and glue with the per-period components of                *)
(* Proofs/C01_Sparse.v: the state-choice space, the segments and the state indexer of every period (C17's model on the       *)
(* period's filter mask), the regenerated u_and_f reading the next period's array through the next period's indexer.         *)
From Coq Require Import Lqa Lia Permutation ZArith.
From LCM Require Import Base.Prelude Base.Arr Base.ArrOps Model.Dispatchers Model.DispatchersG Model.StateSpace Model.FunctionRepresentation
                        Gen.DiscreteNoShocks Gen.CCV Gen.ModelFunctions Gen.EntryPoint Gen.ChoiceAxes Gen.SolveDiscrete.
From LCM Require Import Spec.Lang Spec.Bellman Spec.Layout Proofs.ArrLemmas Proofs.ArrLemmas2 Proofs.C14_Refine Proofs.C14_OnLayout Proofs.C14_OnLayoutIx
                        Proofs.C17_StateSpace Proofs.Refine_StateSpace Proofs.C17_IndexerTie Proofs.C18_AxesFilterFree
                        Proofs.C01_EntryPoint Proofs.C01_Compose Proofs.C01_MaxCompose Proofs.C01_Period Proofs.C01_Solve Proofs.C01_Sparse.
Local Open Scope nat_scope.

(* ---- the array of a period (rank axis, free discrete states, continuous states) read as a table in declaration order --- *)
Section Parts3.
Variable isr : string -> bool.
Fixpoint rpart (sts : list (string * grid)) (idx : list nat) : list nat :=
  match sts, idx with
  | (s, GDisc _) :: r, k :: i => if isr s then k :: rpart r i else rpart r i
  | (_, GLin _ _ _) :: r, _ :: i => rpart r i
  | _, _ => []
  end.
Fixpoint fdpart (sts : list (string * grid)) (idx : list nat) : list nat :=
  match sts, idx with
  | (s, GDisc _) :: r, k :: i => if isr s then fdpart r i else k :: fdpart r i
  | (_, GLin _ _ _) :: r, _ :: i => fdpart r i
  | _, _ => []
  end.

Lemma parts_of_merge3 : forall sts rl dl ci,
  length rl = length (rsizes isr sts) -> length dl = length (fdsizes isr sts) -> length ci = length (cont_sizes sts) ->
  rpart sts (merge3 isr sts rl dl ci) = rl /\ fdpart sts (merge3 isr sts rl dl ci) = dl /\ cpart sts (merge3 isr sts rl dl ci) = ci.
Proof.
  induction sts as [|[x g] r IH]; intros rl dl ci Hr Hd Hc.
  - destruct rl; [|discriminate]. destruct dl; [|discriminate]. destruct ci; [|discriminate]. now repeat split.
  - destruct g as [n|a b n]; cbn [rsizes fdsizes cont_sizes merge3] in *.
    + destruct (isr x) eqn:Ex; cbn [length] in *.
      * destruct rl as [|k rl']; [discriminate|]. cbn [rpart fdpart cpart]. rewrite Ex.
        destruct (IH rl' dl ci) as (E1 & E2 & E3); [simpl in Hr; lia|exact Hd|exact Hc|]. now rewrite E1, E2, E3.
      * destruct dl as [|k dl']; [discriminate|]. cbn [rpart fdpart cpart]. rewrite Ex.
        destruct (IH rl dl' ci) as (E1 & E2 & E3); [exact Hr|simpl in Hd; lia|exact Hc|]. now rewrite E1, E2, E3.
    + destruct ci as [|k ci']; [discriminate|]. cbn [rpart fdpart cpart].
      destruct (IH rl dl ci') as (E1 & E2 & E3); [exact Hr|exact Hd|simpl in Hc; lia|]. now rewrite E1, E2, E3.
Qed.

Variable remaining : list (list nat).
Definition table_of_ix (sts : list (string * grid)) (V : arr val) (idx : list nat) : Q :=
  match find_pos (rpart sts idx) remaining with
  | Some r => fin_of (get VUndef V (r :: fdpart sts idx ++ cpart sts idx))
  | None => 0%Q
  end.

Lemma find_pos_nth : forall (l : list (list nat)) r, NoDup l -> r < length l -> find_pos (nth r l []) l = Some r.
Proof.
  induction l as [|y l' IH]; intros r Hn Hr; [simpl in Hr; lia|]. inversion Hn as [|? ? Hy Hn']; subst. destruct r as [|r'].
  - cbn [nth find_pos]. now rewrite (proj2 (list_eqb_eq y y) eq_refl).
  - cbn [nth find_pos].
    assert (Hne : list_eqb (nth r' l' []) y = false).
    { apply Bool.not_true_is_false. intros E. apply list_eqb_eq in E. apply Hy. rewrite <- E. apply nth_In. simpl in Hr. lia. }
    rewrite Hne, IH; [reflexivity|exact Hn'|simpl in Hr; lia].
Qed.

Lemma layout_array_ix_of_table sts V :
  wf V -> shape V = (length remaining :: fdsizes isr sts ++ cont_sizes sts)%list ->
  NoDup remaining -> Forall (fun rl => length rl = length (rsizes isr sts)) remaining ->
  layout_array_ix isr remaining sts (table_of_ix sts V) = qarr_of V.
Proof.
  intros W S Hn Hl.
  assert (Wq : wf (qarr_of V)) by (unfold wf, qarr_of in *; cbn [shape data]; now rewrite map_length).
  rewrite (arr_is_tabulate 0%Q (qarr_of V) Wq). unfold layout_array_ix, qarr_of at 1. cbn [shape]. rewrite S.
  unfold tabulate. f_equal. apply map_ext_in. intros lidx Hin. apply in_indices in Hin.
  rewrite get_qarr_of. destruct lidx as [|r rest]; [destruct Hin|]. destruct Hin as [Hr Hrest].
  unfold table_of_ix.
  pose proof (in_bounds_length _ _ Hrest) as L. rewrite app_length in L.
  rewrite Forall_forall in Hl.
  destruct (parts_of_merge3 sts (nth r remaining []) (firstn (length (fdsizes isr sts)) rest) (skipn (length (fdsizes isr sts)) rest)) as (E1 & E2 & E3).
  - apply Hl. now apply nth_In.
  - rewrite firstn_length. lia.
  - rewrite skipn_length. lia.
  - rewrite E1, E2, E3, (find_pos_nth remaining r Hn Hr), firstn_skipn. reflexivity.
Qed.
End Parts3.

(* the scalar value function on the array and the indexer themselves *)
Definition FR_arr_ix (isr : string -> bool) (sts : list (string * grid)) (vf : qarr) (ix : arr Z) (vals : list Q) : Q :=
  match disc_labels sts vals with
  | Some dl_all =>
      function_representation vf (Some ix) (map Z.of_nat (fst (split_labels isr sts dl_all)))
                              (map Z.of_nat (snd (split_labels isr sts dl_all))) (conts_of sts vals)
  | None => 0%Q
  end.
Lemma FR_ix_is_FR_arr_ix isr remaining sts F :
  FR_ix isr remaining sts F = FR_arr_ix isr sts (layout_array_ix isr remaining sts F) (indexer_array isr remaining sts).
Proof. reflexivity. Qed.

(* ---- the sizes of the three groups of states ------------------------------------------------------------------------------- *)
Section Groups.
Variable m : model.
Let sts := states m.
Let isr := is_restricted m.
Hypothesis Hdisc : forall sg, In sg sts -> isr (fst sg) = true -> is_cont (snd sg) = false.

Lemma rsizes_are : rsizes isr sts = sizes (restricted_states m).
Proof.
  unfold restricted_states. fold sts. fold isr. revert Hdisc. generalize sts as l. induction l as [|[x g] r IH]; intros H; [reflexivity|].
  cbn [rsizes filter fst]. destruct g as [k|a b k].
  - destruct (isr x); [cbn [sizes map snd grid_size]; f_equal|]; apply IH; intros sg Hin; apply H; now right.
  - destruct (isr x) eqn:E; [exfalso; specialize (H (x, GLin a b k) (or_introl eq_refl) E); discriminate|].
    apply IH. intros sg Hin. apply H. now right.
Qed.
Lemma fdsizes_are : fdsizes isr sts = sizes (free_discrete_states m).
Proof.
  unfold free_discrete_states. fold sts. fold isr. generalize sts as l. induction l as [|[x g] r IH]; [reflexivity|].
  cbn [fdsizes filter fst snd]. destruct g as [k|a b k]; cbn [is_cont negb andb].
  - destruct (isr x); cbn [negb andb]; [exact IH|cbn [sizes map snd grid_size]; f_equal; exact IH].
  - rewrite Bool.andb_false_r. exact IH.
Qed.
Lemma cont_sizes_are : cont_sizes sts = sizes (free_continuous_states m).
Proof.
  unfold free_continuous_states. fold sts. fold isr. revert Hdisc. generalize sts as l. induction l as [|[x g] r IH]; intros H; [reflexivity|].
  cbn [cont_sizes filter fst snd]. destruct g as [k|a b k]; cbn [is_cont negb andb].
  - rewrite Bool.andb_false_r. apply IH. intros sg Hin. apply H. now right.
  - destruct (isr x) eqn:E; [exfalso; specialize (H (x, GLin a b k) (or_introl eq_refl) E); discriminate|].
    cbn [negb andb sizes map snd grid_size]. f_equal. apply IH. intros sg Hin. apply H. now right.
Qed.
End Groups.

Section SparseSolve.
Variables (m : model) (p : params) (n : nat) (dch cch : list (string * grid)).
Let sts := states m.
Let isr := is_restricted m.
Let rs := restricted_states m.
Let rc := restricted_choices m.
Let dst := free_discrete_states m.
Let cst := free_continuous_states m.
Hypothesis Hperm : Permutation (rc ++ dch ++ cch) (choices m).
Hypothesis Hnd : NoDup (map fst (choices m)).
Hypothesis Hnodup : NoDup (map fst (rs ++ rc)).
Hypothesis Hrs : rs <> [].
Hypothesis Hfree : forall x, In x (map fst (dst ++ cst ++ dch ++ cch)) -> is_restricted m x = false.
Hypothesis Hnds : NoDup (map fst sts).
Hypothesis Hvalid : grids_valid sts.
Hypothesis Hdisc : forall sg, In sg sts -> isr (fst sg) = true -> is_cont (snd sg) = false.
Hypothesis Hnames : NoDup (map fst (rc ++ dst ++ dch ++ cst ++ cch)).
Hypothesis Hsparse_name : ~ In "__sparse__"%string (map fst (rc ++ dch ++ cch)).

Lemma Hrv' : (rs ++ rc)%list <> [].
Proof. intros E. apply Hrs. now destruct rs. Qed.

(* the objects of period t: C17's model on the period's filter mask *)
Definition mask_at (t : nat) : arr bool := filter_mask m p t.
Definition res_at (t : nat) : indexer_result := create_indexers_and_segments (mask_at t) (length rs).
Definition combos_at (t : nat) : list (list nat) := true_positions (mask_at t).
Definition seg_at (t : nat) : seginfo := mkSeg (segment_ids_r (res_at t)) (num_segments_r (res_at t)).
Definition ix_at (t : nat) : arr Z := state_indexer (res_at t).
Definition rem_at (t : nat) : list (list nat) := feasible_states (mask_at t) (length rs).

(* utility_and_feasibility of a period that is not the last, given the next array and the next indexer *)
Definition uf_code_sparse_arr (t : nat) (vf : qarr) (ix : arr Z) (vals : list Q) : val * bool :=
  let e := env_of_vals6 t rs rc dst dch cst cch vals in
  let cv := code_value m p (det_of m p e) (rows_of m p e) (u_of m p e) bool (feasible m p e) t [] (FR_arr_ix isr sts vf ix) in
  (VFin (fst cv), snd cv).

Definition Ts_uf := option (arr val) -> arr Z -> list Q -> val * bool.
Definition Ts_ccv := option (arr val) -> arr Z -> list qarr -> arr val.
Definition Ts_calc := arr val -> unit -> arr val.
Definition sp_create_space (t : nat) (_ : bool) : list (list nat) * unit * arr Z * seginfo := (combos_at t, tt, ix_at t, seg_at t).
Definition sp_get_uf (_ : unit) (t : nat) (is_last : bool) : Ts_uf :=
  fun vf ix => if is_last then uf_code_sparse_last m p t rs rc dst dch cst cch
               else uf_code_sparse_arr t (match vf with Some a => qarr_of a | None => scalar 0%Q end) ix.
Definition sp_create_ccv (uf : Ts_uf) : Ts_ccv := fun vf ix => ccv_point ((rs ++ rc) ++ dst) dch cst cch (uf vf ix).
Definition sp_scp (combos : list (list nat)) (ccv : Ts_ccv) (_ : unit) (vf : option (arr val)) (ix : arr Z) (_ : unit) : arr val :=
  vmapG (base_productmapG (ccv vf ix) (seq (length (rs ++ rc)) (length (gv (dst ++ dch ++ cst)))))
        (seq 0 (length (sparse_cols rs rc combos))) (sparse_args rs rc dst dch cst cch combos).
Definition sp_get_sdp (is_last : bool) (seg : seginfo) : Ts_calc := get_solve_discrete_problem (vi_sparse rs rc dst dch cst cch) is_last (Some seg).
Definition sp_emax (calc : Ts_calc) (cc : arr val) (_ : unit) : arr val := calc cc tt.

Definition code_solve_sparse : list (arr val) :=
  lcm_solve unit unit (list (list nat)) unit (arr Z) seginfo Ts_uf Ts_ccv unit Ts_calc (arr val) (arr val) tt tt (scalar 0%Z)
            tt (mkSeg [] 0) sp_create_space sp_get_uf sp_create_ccv (fun _ => tt) sp_get_sdp [] (scalar 0%Z) tt
            (fun _ _ _ => scalar VUndef) (fun cc _ => cc) sp_scp sp_emax n tt.

Definition next_ix (t : nat) : arr Z := if S t <? n then ix_at (S t) else scalar 0%Z.
Definition next_vf (t : nat) : option (arr val) := if S t =? n then None else Some (nth (S t) code_solve_sparse (scalar VUndef)).

Lemma code_solve_sparse_period t : t < n ->
  nth t code_solve_sparse (scalar VUndef)
  = V_sparse rs rc dst dch cst cch (sp_get_uf tt t (t =? n - 1) (next_vf t) (next_ix t)) (combos_at t)
             (segment_ids_r (res_at t)) (num_segments_r (res_at t)).
Proof.
  intros Ht. unfold code_solve_sparse. rewrite lcm_solve_recursion by exact Ht. cbn [fst snd sp_create_space].
  unfold sp_emax, sp_get_sdp. rewrite (solve_discrete_with_filters rs rc dst dch cst cch Hrv' Hnames Hsparse_name).
  unfold seg_at.
  exact (V_sparse_with_the_codes_axes rs rc dst dch cst cch _ (combos_at t) _ _ Hrv' (combos_in_bounds m p t)).
Qed.

Lemma V_sparse_shape uf combos ids num : Forall (in_bounds (sizes (rs ++ rc))) combos ->
  wf (V_sparse rs rc dst dch cst cch uf combos ids num) /\
  shape (V_sparse rs rc dst dch cst cch uf combos ids num) = (num :: sizes dst ++ sizes cst)%list.
Proof.
  intros Hc. unfold V_sparse, solve_discrete_problem_no_shocks, segment_max_val, segment_reduce. cbn [segment_ids num_segments].
  split; [apply wf_tabulate|]. rewrite shape_tabulate. f_equal. unfold amax_axes, reduce_axes. rewrite shape_tabulate.
  rewrite (sparse_keep_shape rs rc dst dch cst cch uf combos Hrv' Hc). reflexivity.
Qed.

Lemma rem_nodup t : NoDup (rem_at t).
Proof. unfold rem_at, feasible_states. apply NoDup_filter. apply NoDup_indices. Qed.

Lemma rem_lengths t : Forall (fun rl => length rl = length (rsizes isr sts)) (rem_at t).
Proof.
  apply Forall_forall. intros rl Hin. unfold rem_at, feasible_states in Hin. apply filter_In in Hin. destruct Hin as [Hin _].
  apply in_indices in Hin. unfold mask_at, rs in Hin. rewrite (state_shape_sizes m p t) in Hin. rewrite (in_bounds_length _ _ Hin).
  unfold isr, sts. now rewrite (rsizes_are m Hdisc).
Qed.

Lemma num_is_length_rem t : num_segments_r (res_at t) = length (rem_at t).
Proof. exact (proj2 (proj2 (tagged_parts m p t))). Qed.

(* the next period's array as the table the specification reads *)
Definition next_table_sparse (t : nat) : list nat -> Q :=
  table_of_ix isr (rem_at (S t)) sts (nth (S t) code_solve_sparse (scalar VUndef)).

Lemma uf_of_sparse_period t : S t < n ->
  sp_get_uf tt t (t =? n - 1) (next_vf t) (next_ix t)
  = uf_code_sparse m p t (next_table_sparse t) rs rc dst dch cst cch isr (rem_at (S t)).
Proof.
  intros Ht. unfold sp_get_uf, next_vf, next_ix.
  replace (t =? n - 1) with false by (symmetry; apply Nat.eqb_neq; lia).
  replace (S t =? n) with false by (symmetry; apply Nat.eqb_neq; lia).
  replace (S t <? n) with true by (symmetry; apply Nat.ltb_lt; lia).
  unfold uf_code_sparse_arr, uf_code_sparse. rewrite FR_ix_is_FR_arr_ix. unfold next_table_sparse.
  rewrite layout_array_ix_of_table.
  - unfold rem_at, ix_at, res_at. rewrite (indexer_of_the_capstone_is_the_codes isr (states m) (mask_at (S t)) (length rs)); [reflexivity|].
    unfold isr, sts. rewrite (rsizes_are m Hdisc). symmetry. exact (state_shape_sizes m p (S t)).
  - rewrite (code_solve_sparse_period (S t) Ht). apply V_sparse_shape. apply (combos_in_bounds m p (S t)).
  - rewrite (code_solve_sparse_period (S t) Ht). rewrite (proj2 (V_sparse_shape _ _ _ _ (combos_in_bounds m p (S t)))).
    rewrite num_is_length_rem. unfold isr, sts, dst, cst. now rewrite (fdsizes_are m), (cont_sizes_are m Hdisc).
  - apply rem_nodup.
  - apply rem_lengths.
Qed.

Lemma uf_code_sparse_arr_of_solved t : S t < n ->
  uf_code_sparse_arr t (qarr_of (nth (S t) code_solve_sparse (scalar VUndef))) (ix_at (S t))
  = uf_code_sparse m p t (next_table_sparse t) rs rc dst dch cst cch isr (rem_at (S t)).
Proof.
  intros Ht. pose proof (uf_of_sparse_period t Ht) as E. unfold sp_get_uf, next_vf, next_ix in E.
  replace (t =? n - 1) with false in E by (symmetry; apply Nat.eqb_neq; lia).
  replace (S t =? n) with false in E by (symmetry; apply Nat.eqb_neq; lia).
  replace (S t <? n) with true in E by (symmetry; apply Nat.ltb_lt; lia). exact E.
Qed.

Lemma code_solve_sparse_length : 1 <= n -> length code_solve_sparse = n.
Proof. intros H. unfold code_solve_sparse. now apply lcm_solve_length. Qed.

Lemma uf_of_sparse_last_period t : S t = n ->
  sp_get_uf tt t (t =? n - 1) (next_vf t) (next_ix t) = uf_code_sparse_last m p t rs rc dst dch cst cch.
Proof. intros Ht. unfold sp_get_uf. replace (t =? n - 1) with true by (symmetry; apply Nat.eqb_eq; lia). reflexivity. Qed.

(* THE BELLMAN EQUATION holds for what solve returns, in every period, at every remaining restricted state and every
   grid point of the free states *)
Theorem code_solve_sparse_satisfies_the_bellman_equation t s ds cs :
  t < n ->
  (S t < n -> forall si ci ds' dc cs' cidx,
     in_bounds (sizes rs) si -> in_bounds (sizes rc) ci -> in_bounds (sizes dst) ds' -> in_bounds (sizes dch) dc ->
     in_bounds (sizes cst) cs' -> in_bounds (sizes cch) cidx ->
     evaluates_at_ix m p (next_table_sparse t) isr (rem_at (S t)) (sp_env t rs rc dst dch cst cch si ci ds' dc cs' cidx)) ->
  (S t = n -> forall si ci ds' dc cs' cidx,
     in_bounds (sizes rs) si -> in_bounds (sizes rc) ci -> in_bounds (sizes dst) ds' -> in_bounds (sizes dch) dc ->
     in_bounds (sizes cst) cs' -> in_bounds (sizes cch) cidx ->
     exists u, eval_fun (depth m) m p (sp_env t rs rc dst dch cst cch si ci ds' dc cs' cidx) "utility" = Some u) ->
  s < length (rem_at t) -> in_bounds (sizes dst) ds -> in_bounds (sizes cst) cs ->
  veq (get VUndef (nth t code_solve_sparse (scalar VUndef)) (s :: ds ++ cs))
      (value_at m p t (t =? n - 1) (fun idx => VFin (next_table_sparse t idx))
                (env_of_idx rs (nth s (rem_at t) []) ++ env_of_idx dst ds ++ env_of_idx cst cs)).
Proof.
  intros Ht Hev Hlast Hs Hds Hcs. rewrite (code_solve_sparse_period t Ht). rewrite <- num_is_length_rem in Hs.
  destruct (Nat.eq_dec (S t) n) as [E|E].
  - rewrite (uf_of_sparse_last_period t E). replace (t =? n - 1) with true by (symmetry; apply Nat.eqb_eq; lia).
    exact (last_period_of_the_code_with_filters_is_the_specifications m p t (fun idx => VFin (next_table_sparse t idx)) dst dch cst cch
             Hperm Hnd Hnodup Hrv' Hfree (Hlast E) s ds cs Hs Hds Hcs).
  - assert (Ht' : S t < n) by lia. rewrite (uf_of_sparse_period t Ht'). replace (t =? n - 1) with false by (symmetry; apply Nat.eqb_neq; lia).
    exact (period_of_the_code_with_filters_is_the_specifications m p t (next_table_sparse t) dst dch cst cch isr (rem_at (S t))
             Hperm Hnd Hnodup Hrv' Hfree Hnds Hvalid (Hev Ht') s ds cs Hs Hds Hcs).
Qed.
End SparseSolve.

(* Proofs/C05_AxesOfDeclarations.v — from the declarations of a model to the axes of its value arrays, through the regenerated       *)
(* get_variable_info and the regenerated glue of create_state_choice_space: composition of C05_VariableInfoTie and C05_PlanOfModel.   *)
From LCM Require Import Base.Prelude Model.PyVocab Spec.Lang Gen.ChoiceAxes Gen.StateSpaceGlue Gen.VariableInfo.
From LCM Require Import Proofs.C18_VarInfo Proofs.C05_PlanOfModel Proofs.C05_VariableInfo Proofs.C05_VariableInfoTie.
Local Open Scope string_scope.

Theorem axes_of_the_declarations :
  forall (is_stochastic_next : string -> bool) (filtered_variables : list string) (S C : list (string * grid)) (period : nat) (is_last : bool),
  NoDup (map fst S ++ map fst C) ->
  (forall sg, In sg S -> is_stochastic_next ("next_" ++ fst sg) = false) ->
  (forall sg, In sg (S ++ C)%list -> mem_str (fst sg) filtered_variables = true -> is_cont (snd sg) = false) ->
  let R := fun sg : string * grid => mem_str (fst sg) filtered_variables in
  let rs := filter R S in
  let dst := filter (fun sg => negb (R sg) && negb (is_cont (snd sg))) S in
  let cst := filter (fun sg => negb (R sg) && is_cont (snd sg)) S in
  exists vi, get_variable_info is_stochastic_next [] filtered_variables (map of_sg S) (map of_sg C) = Some vi /\
    let plan := create_state_choice_space_plan vi period is_last in
    axis_names plan = ((match rs with [] => [] | _ => ["state_index"] end) ++ map fst dst ++ map fst cst)%list /\
    lookup_names plan = (map fst rs ++ map fst dst)%list /\
    interpolation_names plan = map fst cst /\
    filters_at_period plan = period.
Proof.
  intros isn fv S C period is_last Hn Hd Hc R rs dst cst.
  set (rc := filter R C). set (dch := filter (fun sg => negb (R sg) && negb (is_cont (snd sg))) C).
  set (cch := filter (fun sg => negb (R sg) && is_cont (snd sg)) C).
  exists (vi_sparse rs rc dst dch cst cch). split; [exact (regenerated_variable_info_is_the_models isn fv S C Hn Hd Hc)|].
  destruct (rs ++ rc)%list eqn:E.
  - apply app_eq_nil in E. destruct E as [E1 E2]. rewrite E1, E2.
    change (vi_sparse [] [] dst dch cst cch) with (vi_of dst dch cst cch).
    rewrite (plan_of_a_model_without_filters dst dch cst cch period is_last). cbn. repeat split; reflexivity.
  - assert (Hne : (rs ++ rc)%list <> []) by (rewrite E; discriminate).
    rewrite (plan_of_a_model_with_filters rs rc dst dch cst cch period is_last Hne). cbn [axis_names lookup_names interpolation_names filters_at_period].
    destruct rs; repeat split; reflexivity.
Qed.

(* Proofs/C02_ArgmaxAll.v — the regenerated argmax (Gen/Argmax.v) over ALL axes of an array, with or without   *)
(* mask and initial value: the returned value is the masked maximum of the entries in row-major order, the        *)
(* returned position the first row-major position of an unmasked entry that attains it.                           *)
From Coq Require Import Lia.
From LCM Require Import Base.Prelude Base.Arr Base.ArrOps Gen.Argmax.
From LCM Require Import Proofs.ArrLemmas Proofs.ArrLemmas2 Proofs.C18_Core Proofs.C18_Moved.
Local Open Scope nat_scope.

(* ---- a trailing block of axes: seq r (rank - r) ------------------------------------------------------------------- *)
Lemma filter_seq_lt r : forall n s, s + n <= r \/ r <= s ->
  filter (fun k => negb (existsb (Nat.eqb k) (seq r n))) (seq s 0) = [].
Proof. reflexivity. Qed.

Lemma existsb_eqb_seq' k a b : existsb (Nat.eqb k) (seq a b) = ((a <=? k) && (k <? a + b))%bool.
Proof.
  revert a. induction b as [|b IH]; intros a; cbn [seq existsb].
  - destruct (a <=? k) eqn:E1; destruct (k <? a + 0) eqn:E2; try reflexivity.
    apply Nat.leb_le in E1. apply Nat.ltb_lt in E2. lia.
  - rewrite IH. destruct (Nat.eqb_spec k a) as [->|Hne].
    + cbn [orb]. symmetry. apply andb_true_iff. split; [apply Nat.leb_le|apply Nat.ltb_lt]; lia.
    + cbn [orb]. destruct (S a <=? k) eqn:E1; destruct (a <=? k) eqn:E2; destruct (k <? S a + b) eqn:E3; destruct (k <? a + S b) eqn:E4;
        try reflexivity; repeat match goal with
        | H : (_ <=? _) = true |- _ => apply Nat.leb_le in H | H : (_ <=? _) = false |- _ => apply Nat.leb_gt in H
        | H : (_ <? _) = true |- _ => apply Nat.ltb_lt in H | H : (_ <? _) = false |- _ => apply Nat.ltb_ge in H end; lia.
Qed.

Lemma filter_ext_in' {A} (f g : A -> bool) l : (forall x, In x l -> f x = g x) -> filter f l = filter g l.
Proof. induction l as [|x r IH]; intros H; [reflexivity|]. cbn [filter]. rewrite (H x (or_introl eq_refl)), IH; [reflexivity|]. intros y Hy. apply H. now right. Qed.
Lemma filter_true' {A} (l : list A) : filter (fun _ => true) l = l.
Proof. induction l as [|x r IH]; [reflexivity|]. cbn [filter]. now rewrite IH. Qed.
Lemma filter_false' {A} (l : list A) : filter (fun _ => false) l = [].
Proof. induction l as [|x r IH]; [reflexivity|]. exact IH. Qed.

Lemma front_axes_trailing rank r : r <= rank -> front_axes rank (seq r (rank - r)) = seq 0 r.
Proof.
  intros H. unfold front_axes. replace rank with (r + (rank - r)) at 1 by lia. rewrite seq_app, filter_app. cbn [Nat.add].
  rewrite (filter_ext_in' _ (fun _ => true) (seq 0 r)), filter_true'.
  - rewrite (filter_ext_in' _ (fun _ => false) (seq r (rank - r))), filter_false'; [apply app_nil_r|].
    intros k Hk. apply in_seq in Hk. rewrite existsb_eqb_seq'. apply negb_false_iff. apply andb_true_iff.
    split; [apply Nat.leb_le|apply Nat.ltb_lt]; lia.
  - intros k Hk. apply in_seq in Hk. rewrite existsb_eqb_seq'. apply negb_true_iff. apply andb_false_iff. left. apply Nat.leb_gt. lia.
Qed.

Lemma map_nth_seq {A} (l : list A) d : map (fun p => nth p l d) (seq 0 (length l)) = l.
Proof.
  apply (nth_ext _ _ d d); [now rewrite map_length, seq_length|]. intros k Hk. rewrite map_length, seq_length in Hk.
  rewrite (nth_indep _ d (nth 0 l d)) by (now rewrite map_length, seq_length).
  rewrite (map_nth (fun p => nth p l d)), seq_nth by exact Hk. reflexivity.
Qed.

Lemma map_nth_seq_from {A} (l : list A) d r n : r + n = length l -> map (fun p => nth p l d) (seq r n) = skipn r l.
Proof.
  revert l n. induction r as [|r IH]; intros l n H.
  - cbn [Nat.add] in H. subst n. cbn [skipn]. apply map_nth_seq.
  - destruct l as [|x l']; [simpl in H; lia|]. cbn [skipn]. rewrite <- seq_shift, map_map. cbn [nth]. apply IH. simpl in H. lia.
Qed.
Lemma map_nth_seq_upto {A} (l : list A) d r : r <= length l -> map (fun p => nth p l d) (seq 0 r) = firstn r l.
Proof.
  revert l. induction r as [|r IH]; intros l H; [reflexivity|].
  destruct l as [|x l']; [simpl in H; lia|]. cbn [firstn seq map nth]. f_equal. rewrite <- seq_shift, map_map. cbn [nth]. apply IH. simpl in H. lia.
Qed.

Lemma front_shape_trailing sh r : r <= length sh -> front_shape sh (seq r (length sh - r)) = firstn r sh.
Proof. intros H. unfold front_shape. rewrite front_axes_trailing by exact H. now apply map_nth_seq_upto. Qed.
Lemma inner_shape_trailing sh r : r <= length sh -> inner_shape sh (seq r (length sh - r)) = skipn r sh.
Proof. intros H. unfold inner_shape. apply map_nth_seq_from. lia. Qed.

Lemma index_of_nat_seq rank ax s : ax < rank -> index_of_nat (s + ax) (seq s rank) = Some ax.
Proof.
  revert s ax. induction rank as [|r IH]; intros s ax H; [lia|]. cbn [seq index_of_nat].
  destruct ax as [|ax'].
  - rewrite Nat.add_0_r, Nat.eqb_refl. reflexivity.
  - replace (s + S ax' =? s) with false by (symmetry; apply Nat.eqb_neq; lia).
    replace (s + S ax') with (S s + ax') by lia. rewrite IH by lia. reflexivity.
Qed.

Lemma orig_index_trailing rank r outer inner : r <= rank -> length outer = r -> length inner = rank - r ->
  orig_index rank (seq r (rank - r)) outer inner = (outer ++ inner)%list.
Proof.
  intros H Lo Li. unfold orig_index, perm_of. rewrite front_axes_trailing by exact H.
  rewrite <- seq_app. replace (r + (rank - r)) with rank by lia.
  transitivity (map (fun p => nth p (outer ++ inner) 0) (seq 0 rank)).
  - apply map_ext_in. intros ax Hax. apply in_seq in Hax.
    pose proof (index_of_nat_seq rank ax 0 ltac:(lia)) as E. cbn [Nat.add] in E. now rewrite E.
  - replace rank with (length (outer ++ inner)) by (rewrite app_length; lia). apply map_nth_seq.
Qed.

Section Trailing.
Variables (a : arr val) (initial : option val) (w : option (arr bool)) (r : nat).
Hypothesis Hw : match w with Some w0 => shape w0 = shape a | None => True end.
Let sh := shape a.
Hypothesis Hr : r <= length sh.
Let axes := seq r (length sh - r).
Let front := firstn r sh.
Let inner := skipn r sh.
Definition entry_ (outer : list nat) (k : nat) : val := get VUndef a (outer ++ unravel inner k).
Definition okk_ (outer : list nat) (k : nat) : bool :=
  match w with Some w0 => get false w0 (outer ++ unravel inner k) | None => true end.
Let res := argmax a (Some axes) initial w.
Let b := moved VUndef a axes.
Let w' := match w with Some w0 => Some (moved false w0 axes) | None => None end.

Lemma res_core : res = core b initial w'.
Proof. unfold res. rewrite argmax_is_core. unfold b, w', moved. destruct w; reflexivity. Qed.

Lemma b_shape_tr : shape b = (front ++ [size inner])%list.
Proof. unfold b. rewrite moved_shape. fold sh. unfold axes. now rewrite front_shape_trailing, inner_shape_trailing. Qed.
Lemma w_shape_tr : match w' with Some w0 => shape w0 = (front ++ [size inner])%list | None => True end.
Proof. unfold w'. destruct w as [w0|]; [|exact I]. rewrite moved_shape, Hw. fold sh. unfold axes. now rewrite front_shape_trailing, inner_shape_trailing. Qed.

Lemma length_front : length front = r.
Proof. unfold front. rewrite firstn_length. lia. Qed.
Lemma length_inner : length inner = length sh - r.
Proof. unfold inner. now rewrite skipn_length. Qed.

Lemma row_entry outer k : in_bounds front outer -> k < size inner -> row b outer k = entry_ outer k.
Proof.
  intros Ho Hk. unfold row, b, entry_. rewrite moved_get.
  - fold sh. unfold axes. rewrite inner_shape_trailing by exact Hr. fold inner. rewrite orig_index_trailing; [reflexivity|exact Hr| |].
    + rewrite (in_bounds_length _ _ Ho). apply length_front.
    + rewrite (in_bounds_length _ _ (unravel_in_bounds inner k Hk)). apply length_inner.
  - fold sh. unfold axes. rewrite front_shape_trailing by exact Hr. exact Ho.
  - fold sh. unfold axes. now rewrite inner_shape_trailing.
Qed.

Lemma ok_okk outer k : in_bounds front outer -> k < size inner -> ok w' outer k = okk_ outer k.
Proof.
  intros Ho Hk. unfold ok, w', okk_. destruct w as [w0|]; [|reflexivity]. rewrite moved_get.
  - rewrite Hw. fold sh. unfold axes. rewrite inner_shape_trailing by exact Hr. fold inner. rewrite orig_index_trailing; [reflexivity|exact Hr| |].
    + rewrite (in_bounds_length _ _ Ho). apply length_front.
    + rewrite (in_bounds_length _ _ (unravel_in_bounds inner k Hk)). apply length_inner.
  - rewrite Hw. fold sh. unfold axes. rewrite front_shape_trailing by exact Hr. exact Ho.
  - rewrite Hw. fold sh. unfold axes. now rewrite inner_shape_trailing.
Qed.

Definition block_max (outer : list nat) : val :=
  fold_right vmax (init_v initial) (map (fun k => if okk_ outer k then entry_ outer k else VNegInf) (seq 0 (size inner))).

Theorem argmax_trailing_value outer : in_bounds front outer -> get VUndef (snd res) outer = block_max outer.
Proof.
  intros Ho. rewrite res_core, (core_max b initial w' front (size inner) b_shape_tr w_shape_tr outer Ho).
  unfold slice_max, block_max. f_equal. apply map_ext_in. intros k Hk. apply in_seq in Hk.
  rewrite ok_okk, row_entry by (auto; lia). reflexivity.
Qed.

Theorem argmax_trailing_position outer : in_bounds front outer ->
  get 0 (fst res) outer
  = first_true (map (fun k => veqb_num (entry_ outer k) (block_max outer) && okk_ outer k) (seq 0 (size inner))).
Proof.
  intros Ho. rewrite res_core, (core_argmax b initial w' front (size inner) b_shape_tr w_shape_tr outer Ho).
  unfold hits. f_equal. apply map_ext_in. intros k Hk. apply in_seq in Hk.
  rewrite ok_okk, row_entry by (auto; lia). f_equal. f_equal.
  rewrite <- (argmax_trailing_value outer Ho), res_core. symmetry.
  apply (core_max b initial w' front (size inner) b_shape_tr w_shape_tr outer Ho).
Qed.

Theorem argmax_trailing_shapes : shape (fst res) = front /\ shape (snd res) = front.
Proof. rewrite res_core. apply (core_shapes b initial w' front (size inner) b_shape_tr w_shape_tr). Qed.

Theorem argmax_trailing_wf : wf (fst res) /\ wf (snd res).
Proof.
  rewrite res_core. unfold core. cbn [fst snd]. split; [apply wf_tabulate|].
  unfold wf, reshape. cbn [shape data]. unfold argmax_last at 1. cbn [shape tabulate].
  pose proof (shape_mask b initial w' front (size inner) b_shape_tr w_shape_tr) as SM. cbv zeta in SM. rewrite SM, removelast_app_single.
  unfold max_last_keepdims. cbn [data tabulate]. rewrite map_length, length_indices, b_shape_tr, removelast_app_single, size_app.
  simpl. lia.
Qed.
End Trailing.

(* axis=None: all axes *)
Lemma argmax_none a initial w : argmax a None initial w = argmax a (Some (seq 0 (length (shape a) - 0))) initial w.
Proof. rewrite Nat.sub_0_r. reflexivity. Qed.

(* Proofs/SortLemmas.v — the stable insertion sort used to model                                *)
(* sorted(kwargs.items(), key=parameters.index): a permutation of its input, sorted by the key,  *)
(* and therefore — keys being distinct — THE list of the items in key order.                      *)
From Coq Require Import List Arith Lia Permutation Sorted.
Import ListNotations.

Section Sort.
Variables (A : Type) (k : A -> nat).

Fixpoint ins (x : A) (l : list A) : list A :=
  match l with
  | [] => [x]
  | y :: r => if Nat.leb (k y) (k x) then y :: ins x r else x :: y :: r
  end.
Definition isort (l : list A) : list A := fold_left (fun acc x => ins x acc) l [].

Definition le_k (a b : A) : Prop := k a <= k b.

Lemma ins_perm x l : Permutation (ins x l) (x :: l).
Proof.
  induction l as [|y r IH]; simpl; [reflexivity|].
  destruct (Nat.leb (k y) (k x)); [|reflexivity].
  rewrite IH. apply perm_swap.
Qed.

Lemma ins_sorted x l : StronglySorted le_k l -> StronglySorted le_k (ins x l).
Proof.
  induction 1 as [|y r Hr IH Hy]; simpl; [repeat constructor|].
  destruct (Nat.leb_spec (k y) (k x)) as [L|L].
  - constructor; [exact IH|]. rewrite Forall_forall in *. intros z Hz.
    apply (Permutation_in _ (ins_perm x r)) in Hz. destruct Hz as [<-|Hz]; [exact L|now apply Hy].
  - constructor; [constructor; assumption|]. constructor; [unfold le_k; lia|].
    rewrite Forall_forall in *. intros z Hz. specialize (Hy z Hz). unfold le_k in *. lia.
Qed.

Lemma fold_ins_perm l : forall acc, Permutation (fold_left (fun a x => ins x a) l acc) (l ++ acc).
Proof.
  induction l as [|x r IH]; intros acc; simpl; [reflexivity|].
  rewrite IH. rewrite ins_perm. apply Permutation_sym, Permutation_middle.
Qed.

Lemma fold_ins_sorted l : forall acc, StronglySorted le_k acc ->
  StronglySorted le_k (fold_left (fun a x => ins x a) l acc).
Proof. induction l as [|x r IH]; intros acc H; simpl; [exact H|]. apply IH. now apply ins_sorted. Qed.

Theorem isort_perm l : Permutation (isort l) l.
Proof. unfold isort. rewrite fold_ins_perm. now rewrite app_nil_r. Qed.

Theorem isort_sorted l : StronglySorted le_k (isort l).
Proof. unfold isort. apply fold_ins_sorted. constructor. Qed.

(* two key-sorted lists with the same elements and pairwise different keys are equal *)
Theorem sorted_perm_unique : forall l1 l2,
  StronglySorted le_k l1 -> StronglySorted le_k l2 -> Permutation l1 l2 ->
  NoDup (map k l1) -> l1 = l2.
Proof.
  induction l1 as [|x r1 IH]; intros l2 S1 S2 P ND.
  - apply Permutation_nil in P. now subst.
  - destruct l2 as [|y r2]; [apply Permutation_sym, Permutation_nil in P; discriminate|].
    inversion S1 as [|? ? S1' F1]; subst. inversion S2 as [|? ? S2' F2]; subst.
    assert (Hxy : x = y).
    { assert (In x (y :: r2)) by (apply (Permutation_in _ P); now left).
      assert (In y (x :: r1)) by (apply (Permutation_in _ (Permutation_sym P)); now left).
      destruct H as [->|Hx]; [reflexivity|]. destruct H0 as [->|Hy]; [reflexivity|].
      rewrite Forall_forall in F1, F2. specialize (F1 y Hy). specialize (F2 x Hx). unfold le_k in *.
      assert (E : k x = k y) by lia.
      simpl in ND. inversion ND as [|? ? Hn _]; subst. exfalso. apply Hn. rewrite E. now apply in_map. }
    subst y. f_equal. apply IH; auto.
    + now apply Permutation_cons_inv in P.
    + simpl in ND. now inversion ND.
Qed.

Corollary isort_is_the_sorted_list l target :
  StronglySorted le_k target -> Permutation target l -> NoDup (map k l) -> isort l = target.
Proof.
  intros St P ND. apply sorted_perm_unique.
  - apply isort_sorted.
  - exact St.
  - rewrite isort_perm. now apply Permutation_sym.
  - assert (Permutation (map k (isort l)) (map k l)) by (apply Permutation_map, isort_perm).
    eapply Permutation_NoDup; [apply Permutation_sym; exact H|exact ND].
Qed.
End Sort.

(* Proofs/Spec_Algebra.v — algebra of the masked maximum used by the specification: it is      *)
(* commutative, associative and idempotent up to numerical equality, independent of the order   *)
(* in which the choices are enumerated, and it commutes with increasing affine maps.            *)
From Coq Require Import Lqa Permutation Setoid Morphisms.
From LCM Require Import Base.Prelude Proofs.QLemmas Proofs.ArrLemmas2.
Local Open Scope Q_scope.

Lemma veq_refl v : veq v v.
Proof. destruct v; simpl; auto. reflexivity. Qed.
Lemma veq_sym a b : veq a b -> veq b a.
Proof. destruct a, b; simpl; auto. intros H. now symmetry. Qed.
Lemma veq_trans a b c : veq a b -> veq b c -> veq a c.
Proof. destruct a, b, c; simpl; try tauto. intros H1 H2. now rewrite H1. Qed.

Add Parametric Relation : val veq
  reflexivity proved by veq_refl symmetry proved by veq_sym transitivity proved by veq_trans as veq_rel.

Lemma Qleb_cases x y : (Qleb x y = true /\ x <= y) \/ (Qleb x y = false /\ y < x).
Proof.
  destruct (Qleb x y) eqn:E.
  - left. split; [reflexivity|]. now apply Qleb_le.
  - right. split; [reflexivity|]. destruct (Qlt_le_dec y x) as [L|L]; [exact L|].
    apply Qleb_le in L. congruence.
Qed.

Ltac qleb :=
  repeat match goal with
         | |- context [Qleb ?a ?b] =>
             let E := fresh "E" in let H := fresh "H" in
             destruct (Qleb_cases a b) as [[E H]|[E H]]; rewrite E; simpl
         end.

Lemma vmax_comm a b : veq (vmax a b) (vmax b a).
Proof.
  destruct a as [| |x], b as [| |y]; simpl; auto; try reflexivity.
  qleb; try tauto; try lra.
Qed.

Lemma vmax_compat a a' b b' : veq a a' -> veq b b' -> veq (vmax a b) (vmax a' b').
Proof.
  destruct a as [| |x], a' as [| |x'], b as [| |y], b' as [| |y']; simpl; try tauto.
  intros H1 H2. qleb; try tauto; try lra.
Qed.

Instance vmax_proper : Proper (veq ==> veq ==> veq) vmax.
Proof. intros a a' Ha b b' Hb. now apply vmax_compat. Qed.

Lemma vmax_assoc a b c : veq (vmax a (vmax b c)) (vmax (vmax a b) c).
Proof.
  destruct a as [| |x], b as [| |y], c as [| |z]; simpl; auto; try reflexivity.
  destruct (Qleb_cases y z) as [[E1 H1]|[E1 H1]], (Qleb_cases x y) as [[E2 H2]|[E2 H2]],
           (Qleb_cases x z) as [[E3 H3]|[E3 H3]];
    rewrite ?E1, ?E2, ?E3; simpl; rewrite ?E1, ?E2, ?E3; simpl; lra.
Qed.

Lemma vmax_neginf_l a : vmax VNegInf a = a.
Proof. destruct a; reflexivity. Qed.

(* the masked maximum does not depend on the order of enumeration *)
Theorem vmaxl_perm l l' : Permutation l l' -> veq (vmaxl l) (vmaxl l').
Proof.
  unfold vmaxl. induction 1 as [|x l l' _ IH|x y l|l l' l'' _ IH1 _ IH2]; simpl.
  - reflexivity.
  - now apply vmax_compat; [reflexivity|].
  - rewrite vmax_assoc, (vmax_comm y x), <- vmax_assoc. reflexivity.
  - now rewrite IH1.
Qed.

Theorem vmaxl_app l1 l2 : veq (vmaxl (l1 ++ l2)) (vmax (vmaxl l1) (vmaxl l2)).
Proof.
  unfold vmaxl. induction l1 as [|x r IH]; cbn [app fold_right].
  - rewrite vmax_neginf_l. reflexivity.
  - rewrite IH. apply vmax_assoc.
Qed.

(* the maximum over a product of choice sets is the nested maximum *)
Theorem vmaxl_flat_map {A} (g : A -> list val) l :
  veq (vmaxl (flat_map g l)) (vmaxl (map (fun x => vmaxl (g x)) l)).
Proof.
  induction l as [|x r IH]; cbn [flat_map map]; [reflexivity|].
  rewrite vmaxl_app, IH. reflexivity.
Qed.

(* increasing affine maps: v |-> a v + b on finite values, -inf |-> -inf *)
Definition vaff (a b : Q) (v : val) : val :=
  match v with VFin x => VFin (a * x + b) | VNegInf => VNegInf | VUndef => VUndef end.

Lemma vaff_vmax a b x y : 0 < a -> veq (vaff a b (vmax x y)) (vmax (vaff a b x) (vaff a b y)).
Proof.
  intros Ha. destruct x as [| |p], y as [| |r]; simpl; auto; try reflexivity.
  assert (Hm : forall u v, u <= v -> a * u <= a * v) by (intros; apply Qmult_le_l; assumption).
  assert (Hs : forall u v, u < v -> a * u < a * v) by (intros; apply Qmult_lt_l; assumption).
  destruct (Qleb_cases p r) as [[E H]|[E H]], (Qleb_cases (a * p + b) (a * r + b)) as [[E' H']|[E' H']];
    rewrite E, E'; simpl; try reflexivity.
  - specialize (Hs _ _ H'). specialize (Hm _ _ H). lra.
  - specialize (Hs _ _ H). lra.
Qed.

Theorem vmaxl_affine a b l : 0 < a -> veq (vaff a b (vmaxl l)) (vmaxl (map (vaff a b) l)).
Proof.
  intros Ha. unfold vmaxl. induction l as [|x r IH]; simpl; [reflexivity|].
  rewrite vaff_vmax by exact Ha. now apply vmax_compat; [reflexivity|].
Qed.

(* weighted averages with weights summing to one are affine-equivariant *)
Theorem weighted_sum_affine a b (ws vs : list Q) :
  fold_right Qplus 0 ws == 1 -> length ws = length vs ->
  fold_right Qplus 0 (map (fun wv => fst wv * (a * snd wv + b)) (combine ws vs))
  == a * fold_right Qplus 0 (map (fun wv => fst wv * snd wv) (combine ws vs)) + b.
Proof.
  intros Hs Hl.
  assert (G : forall ws vs, length ws = length vs ->
    fold_right Qplus 0 (map (fun wv => fst wv * (a * snd wv + b)) (combine ws vs))
    == a * fold_right Qplus 0 (map (fun wv => fst wv * snd wv) (combine ws vs)) + b * fold_right Qplus 0 ws).
  { clear. induction ws as [|w r IH]; intros [|v vs] H; simpl in *; try discriminate; [ring|].
    injection H as H. rewrite (IH vs H). ring. }
  rewrite (G ws vs Hl), Hs. ring.
Qed.

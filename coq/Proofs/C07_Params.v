(* Proofs/C07_Params.v — the template lists exactly the free arguments of every function; every *)
(* function reads parameters only under its own name.                                            *)
From LCM Require Import Base.Prelude Spec.Lang Spec.Bellman Spec.Layout Model.ParamsTemplate.
Local Open Scope string_scope.

Lemma mem_str_In x l : mem_str x l = true <-> In x l.
Proof.
  unfold mem_str. rewrite existsb_exists. split.
  - intros (y & Hy & E). apply String.eqb_eq in E. now subst.
  - intros H. exists x. split; [exact H|apply String.eqb_refl].
Qed.

Lemma insert_str_In x y l : In y (insert_str x l) <-> y = x \/ In y l.
Proof.
  induction l as [|z r IH]; simpl; [intuition|].
  destruct (String.eqb_spec x z) as [->|Hne]; simpl; [intuition|].
  destruct (String.ltb x z); simpl; [intuition|]. rewrite IH. intuition.
Qed.

Lemma sorted_set_In y l : In y (sorted_set l) <-> In y l.
Proof.
  induction l as [|x r IH]; simpl; [tauto|]. rewrite insert_str_In, IH. intuition.
Qed.

(* the free parameters of a function: exactly its arguments that are neither model variables,
   nor model functions, nor the period *)
Theorem function_params_exact m f pn :
  In pn (function_params m f) <->
  In pn (fargs f) /\ ~ In pn (map fname (functions m)) /\ ~ In pn (map fst (choices m)) /\
  ~ In pn (map fst (states m)) /\ pn <> period_name.
Proof.
  unfold function_params. rewrite sorted_set_In, filter_In, negb_true_iff.
  assert (E : mem_str pn (variables_of m) = false <-> ~ In pn (variables_of m)).
  { rewrite <- mem_str_In. destruct (mem_str pn (variables_of m)); split; congruence. }
  rewrite E. unfold variables_of. rewrite !in_app_iff. simpl. intuition.
Qed.

(* ---- routing: a function reads its parameters under its own name only ------------------- *)
Lemma find_fun_name m name f : find_fun m name = Some f -> fname f = name.
Proof.
  unfold find_fun. intros H. apply find_some in H. destruct H as [_ H]. now apply String.eqb_eq in H.
Qed.

(* parameters agree on a function and everything it calls *)
Definition agree_on (p p' : params) (names : list string) : Prop :=
  forall fn pn, In fn names -> par p fn pn = par p' fn pn.

Theorem eval_fun_reads_only_own_and_called_parameters :
  forall fuel m p p' e name,
  agree_on p p' (name :: ancestors fuel m name) ->
  eval_fun fuel m p e name = eval_fun fuel m p' e name.
Proof.
  induction fuel as [|fuel IH]; intros m p p' e name Hag; [reflexivity|].
  cbn [eval_fun]. destruct (find_fun m name) as [f|] eqn:Ef; [|reflexivity].
  assert (Hn : fname f = name) by (now apply find_fun_name in Ef).
  assert (Eargs : forall a, In a (fargs f) ->
            match assoc a e with
            | Some v => Some v
            | None => match find_fun m a with Some _ => eval_fun fuel m p e a | None => Some (par p (fname f) a) end
            end =
            match assoc a e with
            | Some v => Some v
            | None => match find_fun m a with Some _ => eval_fun fuel m p' e a | None => Some (par p' (fname f) a) end
            end).
  { intros a Ha. destruct (assoc a e); [reflexivity|].
    destruct (find_fun m a) eqn:Ea.
    - apply IH. intros fn pn Hin. apply Hag. right. cbn [ancestors]. rewrite Ef.
      apply in_flat_map. exists a. split; [exact Ha|]. rewrite Ea. exact Hin.
    - f_equal. rewrite Hn. apply Hag. now left. }
  assert (Eo : omap (fun a => match assoc a e with
                              | Some v => Some v
                              | None => match find_fun m a with Some _ => eval_fun fuel m p e a | None => Some (par p (fname f) a) end end) (fargs f)
             = omap (fun a => match assoc a e with
                              | Some v => Some v
                              | None => match find_fun m a with Some _ => eval_fun fuel m p' e a | None => Some (par p' (fname f) a) end end) (fargs f)).
  { clear Hag IH. induction (fargs f) as [|a r IHr]; [reflexivity|].
    cbn [omap]. rewrite (Eargs a) by (now left). rewrite IHr; [reflexivity|].
    intros b Hb. apply Eargs. now right. }
  now rewrite Eo.
Qed.

(* equal parameter names in different functions never interact *)
Corollary no_interference fuel m p p' e name g :
  (forall fn pn, fn <> g -> par p fn pn = par p' fn pn) ->
  name <> g -> ~ In g (ancestors fuel m name) ->
  eval_fun fuel m p e name = eval_fun fuel m p' e name.
Proof.
  intros H Hn Ha. apply eval_fun_reads_only_own_and_called_parameters.
  intros fn pn [<-|Hin]; apply H; [congruence|]. intro E. subst. tauto.
Qed.

(* beta is the only discount factor applied between consecutive periods *)
Theorem beta_enters_once m p vnext e u c :
  eval_fun (depth m) m p e "utility" = Some u -> continuation m p vnext e = VFin c ->
  objective m p false vnext e = VFin (u + beta p * c)%Q.
Proof. intros Hu Hc. unfold objective. now rewrite Hu, Hc. Qed.

(* Proofs/PyVocabLemmas.v — lemmas about the dict / numpy vocabulary of Model/PyVocab.v and about association lists, shared by *)
(* the proofs about the regenerated create_data_scs (C02) and create_filter_mask (C17).                                        *)
From Coq Require Import Lia.
From LCM Require Import Base.Prelude Base.Arr Model.Dispatchers Model.PyVocab.
From LCM Require Import Proofs.ArrLemmas Proofs.C19_Dispatch.
Local Open Scope nat_scope.

Lemma map_flat_map {A B C} (g : B -> C) (h : A -> list B) l : map g (flat_map h l) = flat_map (fun x => map g (h x)) l.
Proof. induction l as [|x r IH]; [reflexivity|]. cbn [flat_map]. now rewrite map_app, IH. Qed.

Lemma flat_map_ext_in {A B} (f g : A -> list B) l : (forall x, In x l -> f x = g x) -> flat_map f l = flat_map g l.
Proof. induction l as [|x r IH]; intros H; [reflexivity|]. cbn [flat_map]. rewrite (H x (or_introl eq_refl)), IH; [reflexivity|]. intros y Hy. apply H. now right. Qed.

Lemma map_const_repeat {A B} (c : B) (l : list A) : map (fun _ => c) l = repeat c (length l).
Proof. induction l as [|x r IH]; [reflexivity|]. cbn [map length repeat]. now rewrite IH. Qed.

Lemma filter_flat_map {A B} (p : B -> bool) (h : A -> list B) l : filter p (flat_map h l) = flat_map (fun x => filter p (h x)) l.
Proof. induction l as [|x r IH]; [reflexivity|]. cbn [flat_map]. now rewrite filter_app, IH. Qed.

Lemma filter_map_comm {A B} (p : B -> bool) (f : A -> B) l : filter p (map f l) = map f (filter (fun x => p (f x)) l).
Proof. induction l as [|x r IH]; [reflexivity|]. cbn [map filter]. destruct (p (f x)); cbn [map]; now rewrite IH. Qed.

Lemma mem_str_In k l : mem_str k l = true <-> In k l.
Proof.
  unfold mem_str. rewrite existsb_exists. split.
  - intros (x & Hx & E). apply String.eqb_eq in E. now subst.
  - intros H. exists k. split; [exact H|apply String.eqb_refl].
Qed.

Lemma assoc_None {A} k (d : list (string * A)) : ~ In k (map fst d) -> assoc k d = None.
Proof.
  induction d as [|[k' v] r IH]; intros H; [reflexivity|]. cbn [assoc]. destruct (String.eqb_spec k k') as [->|N].
  - exfalso. apply H. now left.
  - apply IH. intros Hin. apply H. now right.
Qed.

Lemma assoc_app {A} k (d1 d2 : list (string * A)) : assoc k (d1 ++ d2) = match assoc k d1 with Some v => Some v | None => assoc k d2 end.
Proof. induction d1 as [|[k' v] r IH]; [reflexivity|]. cbn [app assoc]. destruct (String.eqb k k'); [reflexivity|exact IH]. Qed.

Lemma assoc_dict_set {A} k k' (v : A) d : assoc k (dict_set d k' v) = if String.eqb k k' then Some v else assoc k d.
Proof.
  unfold dict_set. destruct (mem_str k' (map fst d)) eqn:M.
  - apply mem_str_In in M. induction d as [|[k0 v0] r IH]; [destruct M|]. cbn [map fst assoc].
    destruct (String.eqb_spec k0 k') as [->|N0].
    + cbn [assoc]. destruct (String.eqb_spec k k') as [->|N]; [reflexivity|].
      destruct (in_dec string_dec k' (map fst r)) as [I|I].
      * now rewrite (IH I).
      * clear IH M. induction r as [|[k1 v1] r' IH']; [reflexivity|]. cbn [map fst assoc].
        destruct (String.eqb_spec k1 k') as [->|N1]; [exfalso; apply I; now left|]. cbn [assoc].
        destruct (String.eqb k k1); [reflexivity|]. apply IH'. intros H. apply I. now right.
    + cbn [assoc]. destruct (String.eqb_spec k k0) as [->|Nk].
      * apply String.eqb_neq in N0. now rewrite N0.
      * destruct M as [M|M]; [cbn in M; congruence|]. exact (IH M).
  - rewrite assoc_app. cbn [assoc]. destruct (String.eqb_spec k k') as [->|N].
    + rewrite assoc_None; [reflexivity|]. intros H. apply mem_str_In in H. congruence.
    + now destruct (assoc k d).
Qed.

Lemma dict_set_keys {A} k (v : A) d : map fst (dict_set d k v) = if mem_str k (map fst d) then map fst d else (map fst d ++ [k])%list.
Proof.
  unfold dict_set. destruct (mem_str k (map fst d)).
  - rewrite map_map. apply map_ext_in. intros [k0 v0] _. cbn [fst]. destruct (String.eqb_spec k0 k) as [->|]; reflexivity.
  - now rewrite map_app.
Qed.

Lemma assoc_fold_dict_set {A B} (g : string * A -> B) k : forall (l : list (string * A)) (d : list (string * B)), NoDup (map fst l) ->
  assoc k (fold_left (fun d kv => dict_set d (fst kv) (g kv)) l d)
  = match assoc k (map (fun kv => (fst kv, g kv)) l) with Some v => Some v | None => assoc k d end.
Proof.
  induction l as [|[k0 v0] r IH]; intros d Hn; [reflexivity|]. inversion Hn as [|? ? Hk Hn']; subst. cbn [fold_left map fst assoc].
  rewrite (IH _ Hn'). rewrite assoc_dict_set. destruct (String.eqb_spec k k0) as [->|N].
  - rewrite assoc_None; [reflexivity|]. now rewrite map_map.
  - reflexivity.
Qed.

Lemma keys_fold_dict_set_fresh {A B} (g : string * A -> B) : forall (l : list (string * A)) (d : list (string * B)), NoDup (map fst l) ->
  (forall k, In k (map fst l) -> ~ In k (map fst d)) ->
  map fst (fold_left (fun d kv => dict_set d (fst kv) (g kv)) l d) = (map fst d ++ map fst l)%list.
Proof.
  induction l as [|[k0 v0] r IH]; intros d Hn Hd; [now rewrite app_nil_r|]. inversion Hn as [|? ? Hk Hn']; subst. cbn [fold_left map fst].
  rewrite (IH _ Hn').
  - rewrite dict_set_keys. replace (mem_str k0 (map fst d)) with false.
    + now rewrite <- app_assoc.
    + symmetry. apply Bool.not_true_iff_false. intros H. apply mem_str_In in H. apply (Hd k0); [now left|exact H].
  - intros k Hin. rewrite dict_set_keys. replace (mem_str k0 (map fst d)) with false.
    + intros H. apply in_app_or in H. destruct H as [H|[<-|[]]]; [apply (Hd k); [now right|exact H]|contradiction].
    + symmetry. apply Bool.not_true_iff_false. intros H. apply mem_str_In in H. apply (Hd k0); [now left|exact H].
Qed.

Lemma assoc_filter_mem {A} (names : list string) (kw : list (string * A)) v :
  In v names -> assoc v (filter (fun kv => mem_str (fst kv) names) kw) = assoc v kw.
Proof.
  intros Hin. induction kw as [|[k a] r IH]; [reflexivity|]. cbn [filter fst].
  destruct (mem_str k names) eqn:Ek.
  - cbn [assoc]. destruct (String.eqb v k); [reflexivity|exact IH].
  - cbn [assoc]. destruct (String.eqb_spec v k) as [->|Hne]; [|exact IH].
    apply mem_str_In in Hin. congruence.
Qed.

Lemma assoc_map_val {A B} (h : A -> B) k (d : list (string * A)) :
  assoc k (map (fun kv => (fst kv, h (snd kv))) d) = option_map h (assoc k d).
Proof. induction d as [|[k0 v0] r IH]; [reflexivity|]. cbn [map assoc fst snd]. destruct (String.eqb k k0); [reflexivity|exact IH]. Qed.

Lemma assoc_In_nodup {A} k (v : A) d : NoDup (map fst d) -> In (k, v) d -> assoc k d = Some v.
Proof.
  induction d as [|[k0 v0] r IH]; intros Hn Hin; [destruct Hin|]. inversion Hn as [|? ? Hk Hn']; subst. cbn [assoc].
  destruct Hin as [E|Hin].
  - injection E as -> ->. now rewrite String.eqb_refl.
  - destruct (String.eqb_spec k k0) as [->|N]; [|now apply IH].
    exfalso. apply Hk. apply in_map_iff. exists (k0, v). split; [reflexivity|exact Hin].
Qed.

Lemma assoc_Some_In {A} k (v : A) d : assoc k d = Some v -> In (k, v) d.
Proof.
  induction d as [|[k0 v0] r IH]; intros H; [discriminate|]. cbn [assoc] in H. destruct (String.eqb_spec k k0) as [->|N].
  - injection H as ->. now left.
  - right. now apply IH.
Qed.

Lemma index_of_Some_nth k : forall l i, index_of k l = Some i -> nth i l ""%string = k /\ i < length l.
Proof.
  induction l as [|x r IH]; intros i H; [discriminate|]. cbn [index_of] in H. destruct (String.eqb_spec k x) as [->|N].
  - injection H as <-. split; [reflexivity|simpl; lia].
  - destruct (index_of k r) as [j|] eqn:E; [|discriminate]. injection H as <-. destruct (IH j eq_refl) as [H1 H2]. split; [exact H1|simpl; lia].
Qed.

Lemma index_of_nth_nodup' : forall (l : list string) i, NoDup l -> i < length l -> index_of (nth i l ""%string) l = Some i.
Proof.
  induction l as [|x r IH]; intros i Hn Hi; [simpl in Hi; lia|]. inversion Hn as [|? ? Hx Hn']; subst. destruct i as [|i'].
  - cbn [nth index_of]. now rewrite String.eqb_refl.
  - cbn [nth index_of]. destruct (String.eqb_spec (nth i' r ""%string) x) as [E|E].
    + exfalso. apply Hx. rewrite <- E. apply nth_In. simpl in Hi. lia.
    + rewrite IH; [reflexivity|exact Hn'|simpl in Hi; lia].
Qed.

Lemma data_of_scalar (a : qarr) : wf a -> shape a = [] -> data a = [qget a []].
Proof.
  intros Hw Hs. unfold wf in Hw. rewrite Hs in Hw. cbn in Hw. unfold qget, get. rewrite Hs. cbn [ravel].
  destruct (data a) as [|x [|y r]]; try discriminate. reflexivity.
Qed.

Lemma map_nth_seq {A B} (g : A -> B) (L : list A) d : map (fun i => g (nth i L d)) (seq 0 (length L)) = map g L.
Proof.
  apply (nth_ext _ _ (g d) (g d)); [now rewrite !map_length, seq_length|]. intros i Hi. rewrite map_length, seq_length in Hi.
  rewrite (nth_indep (map _ (seq _ _)) (g d) ((fun i => g (nth i L d)) 0)) by (now rewrite map_length, seq_length).
  rewrite (map_nth (fun i => g (nth i L d))), seq_nth by exact Hi. now rewrite (map_nth g).
Qed.

Lemma assoc_indexed {A B} (h : nat * (string * A) -> B) : forall (l : list (string * A)) s j name a, NoDup (map fst l) ->
  nth_error l j = Some (name, a) ->
  assoc name (map (fun jd : nat * (string * A) => (fst (snd jd), h jd)) (combine (seq s (length l)) l)) = Some (h (s + j, (name, a))).
Proof.
  induction l as [|[k0 v0] r IH]; intros s j name a Hn Hj; [destruct j; discriminate|]. inversion Hn as [|? ? Hk Hn']; subst.
  cbn [length seq combine map fst snd assoc]. destruct j as [|j'].
  - cbn in Hj. injection Hj as -> ->. now rewrite String.eqb_refl, Nat.add_0_r.
  - cbn in Hj. destruct (String.eqb_spec name k0) as [->|N].
    + exfalso. apply Hk. apply in_map_iff. exists (k0, a). split; [reflexivity|]. eapply nth_error_In; eauto.
    + rewrite (IH (S s) j' name a Hn' Hj). now rewrite Nat.add_succ_r.
Qed.

Lemma keys_indexed {A B} (h : nat * (string * A) -> B) : forall (l : list (string * A)) s,
  map fst (map (fun jd : nat * (string * A) => (fst (snd jd), h jd)) (combine (seq s (length l)) l)) = map fst l.
Proof. induction l as [|[k0 v0] r IH]; intros s; [reflexivity|]. cbn [length seq combine map fst snd]. now rewrite IH. Qed.

Lemma length_slice_at' args pos i : length (slice_at args pos i) = length args.
Proof.
  unfold slice_at.
  assert (L : forall l a, length (fold_left (fun acc p => upd acc p (qslice (nth p args dflt_arr) i)) l a) = length a).
  { induction l as [|q qs IH]; intros a; [reflexivity|]. cbn [fold_left]. rewrite IH. apply length_upd. }
  apply L.
Qed.

Lemma hd_In {A} (d : A) l : l <> [] -> In (hd d l) l.
Proof. destruct l; [congruence|]. intros _. now left. Qed.

Lemma hd_map {A B} (f : A -> B) d d' l : l <> [] -> hd d' (map f l) = f (hd d l).
Proof. destruct l; [congruence|]. reflexivity. Qed.

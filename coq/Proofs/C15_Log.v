(* Proofs/C15_Log.v — logarithmic grids (real-number model): the translated          *)
(* coordinate function get_logspace_coordinate inverts the grid, maps [a,b] onto     *)
(* [0,n-1], is strictly monotone, and piecewise-linear interpolation of the grid's   *)
(* own points at that coordinate is the identity on [a,b].                           *)
(* The generated function is accessed only through [log_coord_unfold].              *)
From Coq Require Import Reals Lra Lia.
From LCM Require Import Base.Prelude Base.RBase Gen.GridHelpersR.
Local Open Scope R_scope.

(* the i-th point of the logarithmic grid with n points between a and b *)
Definition log_point (a b : R) (n : Z) (i : R) : R :=
  exp (ln a + i * ((ln b - ln a) / (IZR n - 1))).

(* the 1-d interpolation cell used by lcm's map_coordinates: lower node clipped to [0, n-2] *)
Definition rcell_lo (c : R) (n : Z) : R := Rmin (Rmax (Rfloor c) 0) (IZR n - 2).

Definition log_interp (a b : R) (n : Z) (c : R) : R :=
  let lo := rcell_lo c n in let w := c - lo in
  (1 - w) * log_point a b n lo + w * log_point a b n (lo + 1).

(* auxiliary: the step in log space and the "linear" coordinate L(v) *)
Definition log_step (a b : R) (n : Z) : R := (ln b - ln a) / (IZR n - 1).
Definition log_lin (a b : R) (n : Z) (v : R) : R := (ln v - ln a) / log_step a b n.

(* ------------------------------------------------------------------------- *)
(* floor                                                                      *)
(* ------------------------------------------------------------------------- *)

Lemma Rfloor_spec x : IZR (Int_part x) <= x < IZR (Int_part x) + 1.
Proof. destruct (base_Int_part x). lra. Qed.

Lemma Rfloor_unique x k : IZR k <= x < IZR k + 1 -> Int_part x = k.
Proof.
  intros [H1 H2]. destruct (Rfloor_spec x) as [H3 H4].
  assert (Int_part x < k + 1)%Z by (apply lt_IZR; rewrite plus_IZR; lra).
  assert (k < Int_part x + 1)%Z by (apply lt_IZR; rewrite plus_IZR; lra).
  lia.
Qed.

Lemma Int_part_mono x y : x <= y -> (Int_part x <= Int_part y)%Z.
Proof.
  intros H. destruct (Rfloor_spec x), (Rfloor_spec y).
  assert (Int_part x < Int_part y + 1)%Z by (apply lt_IZR; rewrite plus_IZR; lra).
  lia.
Qed.

Lemma Rfloor_IZR_plus k f : 0 <= f < 1 -> Rfloor (IZR k + f) = IZR k.
Proof. intros H. unfold Rfloor. f_equal. apply Rfloor_unique. lra. Qed.

Lemma Rfloor_IZR k : Rfloor (IZR k) = IZR k.
Proof. unfold Rfloor. f_equal. apply Rfloor_unique. lra. Qed.

Lemma div_frac x d : 0 < d -> 0 <= x < d -> 0 <= x / d < 1.
Proof.
  intros Hd [H0 H1]. pose proof (Rinv_0_lt_compat d Hd) as Hi. unfold Rdiv. split.
  - apply Rmult_le_pos; lra.
  - apply Rmult_lt_reg_r with d; [assumption|].
    rewrite Rmult_assoc, Rinv_l by lra. lra.
Qed.

(* ------------------------------------------------------------------------- *)
(* the grid                                                                   *)
(* ------------------------------------------------------------------------- *)

Lemma nm1_ge1 n : (2 <= n)%Z -> 1 <= IZR n - 1.
Proof. intros H. apply IZR_le in H. lra. Qed.

Lemma log_step_pos a b n : 0 < a -> a < b -> (2 <= n)%Z -> 0 < log_step a b n.
Proof.
  intros Ha Hab Hn. unfold log_step. apply Rdiv_lt_0_compat.
  - pose proof (ln_increasing a b Ha Hab). lra.
  - pose proof (nm1_ge1 n Hn). lra.
Qed.

Lemma log_point_step a b n i : log_point a b n i = exp (ln a + i * log_step a b n).
Proof. reflexivity. Qed.

Theorem log_point_increasing : forall a b n i j, 0 < a -> a < b -> (2 <= n)%Z ->
  i < j -> log_point a b n i < log_point a b n j.
Proof.
  intros a b n i j Ha Hab Hn Hij. rewrite !log_point_step. apply exp_increasing.
  pose proof (log_step_pos a b n Ha Hab Hn) as Hs.
  apply Rplus_lt_compat_l. apply Rmult_lt_compat_r; assumption.
Qed.

Lemma log_point_le a b n i j : 0 < a -> a < b -> (2 <= n)%Z ->
  i <= j -> log_point a b n i <= log_point a b n j.
Proof.
  intros Ha Hab Hn [Hij|Hij].
  - left. apply log_point_increasing; assumption.
  - subst. right. reflexivity.
Qed.

Theorem log_point_first : forall a b n, 0 < a -> a < b -> (2 <= n)%Z ->
  log_point a b n 0 = a.
Proof.
  intros a b n Ha Hab Hn. unfold log_point.
  replace (ln a + 0 * ((ln b - ln a) / (IZR n - 1))) with (ln a) by ring.
  apply exp_ln. assumption.
Qed.

Theorem log_point_last : forall a b n, 0 < a -> a < b -> (2 <= n)%Z ->
  log_point a b n (IZR n - 1) = b.
Proof.
  intros a b n Ha Hab Hn. unfold log_point. pose proof (nm1_ge1 n Hn).
  replace (ln a + (IZR n - 1) * ((ln b - ln a) / (IZR n - 1))) with (ln b)
    by (field; lra).
  apply exp_ln. lra.
Qed.

(* log_lin and log_point are mutually inverse *)
Lemma log_point_lin a b n v : 0 < a -> a < b -> (2 <= n)%Z -> 0 < v ->
  log_point a b n (log_lin a b n v) = v.
Proof.
  intros Ha Hab Hn Hv. unfold log_point, log_lin, log_step.
  pose proof (nm1_ge1 n Hn). pose proof (ln_increasing a b Ha Hab).
  replace (ln a + (ln v - ln a) / ((ln b - ln a) / (IZR n - 1)) * ((ln b - ln a) / (IZR n - 1)))
    with (ln v) by (field; split; lra).
  apply exp_ln. assumption.
Qed.

Lemma log_lin_point a b n i : 0 < a -> a < b -> (2 <= n)%Z ->
  log_lin a b n (log_point a b n i) = i.
Proof.
  intros Ha Hab Hn. unfold log_point, log_lin, log_step. rewrite ln_exp.
  pose proof (nm1_ge1 n Hn). pose proof (ln_increasing a b Ha Hab).
  field. split; lra.
Qed.

Lemma log_lin_increasing a b n v1 v2 : 0 < a -> a < b -> (2 <= n)%Z ->
  0 < v1 -> v1 < v2 -> log_lin a b n v1 < log_lin a b n v2.
Proof.
  intros Ha Hab Hn H1 H12. unfold log_lin, Rdiv.
  pose proof (log_step_pos a b n Ha Hab Hn) as Hs.
  apply Rmult_lt_compat_r; [apply Rinv_0_lt_compat; assumption|].
  pose proof (ln_increasing v1 v2 H1 H12). lra.
Qed.

(* ------------------------------------------------------------------------- *)
(* the interface to the generated function                                    *)
(* ------------------------------------------------------------------------- *)

Lemma log_coord_unfold a b n v :
  get_logspace_coordinate v a b n =
  Rfloor (log_lin a b n v)
  + (v - log_point a b n (Rfloor (log_lin a b n v)))
    / (log_point a b n (Rfloor (log_lin a b n v) + 1)
       - log_point a b n (Rfloor (log_lin a b n v))).
Proof.
  unfold get_logspace_coordinate, get_linspace_coordinate, log_lin, log_step, log_point.
  cbv zeta. rewrite minus_IZR.
  set (s := (ln b - ln a) / (IZR n - 1)). set (k := Rfloor ((ln v - ln a) / s)).
  rewrite (Rmult_comm s k), (Rmult_comm s (k + 1)). reflexivity.
Qed.

(* everything else is proved from this characterisation: for v > 0 the coordinate
   is k + f with k = floor (L v), f in [0,1), p_k <= v < p_{k+1} and
   f * (p_{k+1} - p_k) = v - p_k *)
Lemma log_coord_char a b n v : 0 < a -> a < b -> (2 <= n)%Z -> 0 < v ->
  exists (k : Z) (f : R),
    Int_part (log_lin a b n v) = k /\
    get_logspace_coordinate v a b n = IZR k + f /\
    0 <= f < 1 /\
    f * (log_point a b n (IZR k + 1) - log_point a b n (IZR k)) = v - log_point a b n (IZR k) /\
    log_point a b n (IZR k) <= v < log_point a b n (IZR k + 1).
Proof.
  intros Ha Hab Hn Hv. rewrite log_coord_unfold. unfold Rfloor.
  set (L := log_lin a b n v). set (k := Int_part L).
  destruct (Rfloor_spec L) as [Hk1 Hk2]. fold k in Hk1, Hk2.
  pose proof (log_point_lin a b n v Ha Hab Hn Hv) as E. fold L in E.
  pose proof (log_point_le a b n (IZR k) L Ha Hab Hn Hk1) as P1.
  pose proof (log_point_increasing a b n L (IZR k + 1) Ha Hab Hn Hk2) as P2.
  rewrite E in P1, P2.
  set (d := log_point a b n (IZR k + 1) - log_point a b n (IZR k)).
  assert (Hd : 0 < d) by (unfold d; lra).
  assert (F : 0 <= (v - log_point a b n (IZR k)) / d < 1) by (apply div_frac; unfold d in *; lra).
  exists k, ((v - log_point a b n (IZR k)) / d).
  split; [reflexivity|]. split; [reflexivity|]. split; [exact F|].
  split; [unfold d in *; field; lra | lra].
Qed.

(* ------------------------------------------------------------------------- *)
(* Theorem 1: the coordinate of a grid point is its index                     *)
(* ------------------------------------------------------------------------- *)

Lemma log_coord_of_point_Z a b n (i : Z) : 0 < a -> a < b -> (2 <= n)%Z ->
  get_logspace_coordinate (log_point a b n (IZR i)) a b n = IZR i.
Proof.
  intros Ha Hab Hn. rewrite log_coord_unfold.
  rewrite log_lin_point by assumption. rewrite Rfloor_IZR.
  unfold Rdiv. ring.
Qed.

(* the range hypothesis on i is not needed (the formula extrapolates); it is kept so
   that the statement is literally the one referenced elsewhere *)
Theorem log_coord_of_point : forall a b n (i : Z), 0 < a -> a < b -> (2 <= n)%Z ->
  (0 <= i <= n - 1)%Z ->
  get_logspace_coordinate (log_point a b n (IZR i)) a b n = IZR i.
Proof. intros a b n i Ha Hab Hn _. apply log_coord_of_point_Z; assumption. Qed.

Lemma log_coord_first a b n : 0 < a -> a < b -> (2 <= n)%Z ->
  get_logspace_coordinate a a b n = 0.
Proof.
  intros Ha Hab Hn.
  rewrite <- (log_point_first a b n Ha Hab Hn) at 1.
  apply (log_coord_of_point_Z a b n 0); assumption.
Qed.

Lemma log_coord_last a b n : 0 < a -> a < b -> (2 <= n)%Z ->
  get_logspace_coordinate b a b n = IZR n - 1.
Proof.
  intros Ha Hab Hn.
  rewrite <- (log_point_last a b n Ha Hab Hn) at 1.
  rewrite <- minus_IZR. apply log_coord_of_point_Z; assumption.
Qed.

(* ------------------------------------------------------------------------- *)
(* Theorem 3: strict monotonicity (holds for all 0 < v1 < v2)                  *)
(* ------------------------------------------------------------------------- *)

Lemma log_coord_increasing_pos a b n v1 v2 : 0 < a -> a < b -> (2 <= n)%Z ->
  0 < v1 -> v1 < v2 ->
  get_logspace_coordinate v1 a b n < get_logspace_coordinate v2 a b n.
Proof.
  intros Ha Hab Hn H1 H12.
  destruct (log_coord_char a b n v1 Ha Hab Hn H1)
    as (k1 & f1 & K1 & C1 & F1 & D1 & B1).
  destruct (log_coord_char a b n v2 Ha Hab Hn ltac:(lra))
    as (k2 & f2 & K2 & C2 & F2 & D2 & B2).
  rewrite C1, C2.
  pose proof (log_lin_increasing a b n v1 v2 Ha Hab Hn H1 H12) as HL.
  assert (Hk : (k1 <= k2)%Z) by (rewrite <- K1, <- K2; apply Int_part_mono; lra).
  destruct (Z.eq_dec k1 k2) as [e|ne].
  - rewrite <- e in *. clear e.
    assert (Hd : 0 < log_point a b n (IZR k1 + 1) - log_point a b n (IZR k1)) by lra.
    assert (f1 < f2); [|lra].
    apply Rmult_lt_reg_r with (log_point a b n (IZR k1 + 1) - log_point a b n (IZR k1));
      [assumption|]. lra.
  - assert (Hk' : (k1 + 1 <= k2)%Z) by lia.
    apply IZR_le in Hk'. rewrite plus_IZR in Hk'. lra.
Qed.

Theorem log_coord_strictly_monotone : forall a b n v1 v2, 0 < a -> a < b -> (2 <= n)%Z ->
  a <= v1 -> v1 < v2 -> v2 <= b ->
  get_logspace_coordinate v1 a b n < get_logspace_coordinate v2 a b n.
Proof.
  intros a b n v1 v2 Ha Hab Hn H1 H12 _.
  apply log_coord_increasing_pos; try assumption. lra.
Qed.

(* ------------------------------------------------------------------------- *)
(* Theorem 2: [a,b] is mapped into [0, n-1]                                    *)
(* ------------------------------------------------------------------------- *)

Theorem log_coord_range : forall a b n v, 0 < a -> a < b -> (2 <= n)%Z -> a <= v <= b ->
  0 <= get_logspace_coordinate v a b n <= IZR n - 1.
Proof.
  intros a b n v Ha Hab Hn [[Hav|Hav] [Hvb|Hvb]].
  - pose proof (log_coord_increasing_pos a b n a v Ha Hab Hn Ha Hav) as H1.
    pose proof (log_coord_increasing_pos a b n v b Ha Hab Hn ltac:(lra) Hvb) as H2.
    rewrite log_coord_first in H1 by assumption.
    rewrite log_coord_last in H2 by assumption. lra.
  - subst v. rewrite log_coord_last by assumption. pose proof (nm1_ge1 n Hn). lra.
  - subst v. rewrite log_coord_first by assumption. pose proof (nm1_ge1 n Hn). lra.
  - lra.
Qed.

(* ------------------------------------------------------------------------- *)
(* Theorem 4: interpolating the grid at the coordinate of v gives v           *)
(* ------------------------------------------------------------------------- *)

Lemma log_lin_first a b n : 0 < a -> a < b -> (2 <= n)%Z -> log_lin a b n a = 0.
Proof.
  intros Ha Hab Hn. rewrite <- (log_point_first a b n Ha Hab Hn) at 2.
  apply log_lin_point; assumption.
Qed.

Lemma log_lin_last a b n : 0 < a -> a < b -> (2 <= n)%Z -> log_lin a b n b = IZR n - 1.
Proof.
  intros Ha Hab Hn. rewrite <- (log_point_last a b n Ha Hab Hn) at 2.
  apply log_lin_point; assumption.
Qed.

Theorem log_interp_grid_is_identity : forall a b n v, 0 < a -> a < b -> (2 <= n)%Z ->
  a <= v <= b -> log_interp a b n (get_logspace_coordinate v a b n) = v.
Proof.
  intros a b n v Ha Hab Hn [Hav [Hvb|Hvb]].
  - (* v < b: the cell index is floor (L v), already in [0, n-2] *)
    assert (Hv : 0 < v) by lra.
    destruct (log_coord_char a b n v Ha Hab Hn Hv) as (k & f & K & C & F & D & B).
    assert (Hk0 : (0 <= k)%Z).
    { rewrite <- K. replace 0%Z with (Int_part 0) by (apply Rfloor_unique; lra).
      apply Int_part_mono. destruct Hav as [Hav|Hav].
      - pose proof (log_lin_increasing a b n a v Ha Hab Hn Ha Hav) as H.
        rewrite log_lin_first in H by assumption. lra.
      - subst v. rewrite log_lin_first by assumption. lra. }
    assert (Hk1 : (k <= n - 2)%Z).
    { pose proof (log_lin_increasing a b n v b Ha Hab Hn Hv Hvb) as H.
      rewrite log_lin_last in H by assumption.
      destruct (Rfloor_spec (log_lin a b n v)) as [H1 _]. rewrite K in H1.
      assert (k < n - 1)%Z by (apply lt_IZR; rewrite minus_IZR; lra). lia. }
    apply IZR_le in Hk0, Hk1. rewrite minus_IZR in Hk1.
    unfold log_interp, rcell_lo. rewrite C, (Rfloor_IZR_plus k f F).
    rewrite Rmax_left by lra. rewrite Rmin_left by lra. cbv zeta.
    replace ((1 - (IZR k + f - IZR k)) * log_point a b n (IZR k)
             + (IZR k + f - IZR k) * log_point a b n (IZR k + 1))
      with (log_point a b n (IZR k)
            + f * (log_point a b n (IZR k + 1) - log_point a b n (IZR k))) by ring.
    rewrite D. ring.
  - (* v = b: coordinate n-1, clipped lower node n-2, weight 1 *)
    subst v. rewrite log_coord_last by assumption.
    pose proof (nm1_ge1 n Hn) as H1.
    assert (HF : Rfloor (IZR n - 1) = IZR n - 1)
      by (rewrite <- minus_IZR; apply Rfloor_IZR).
    unfold log_interp, rcell_lo. rewrite HF.
    rewrite Rmax_left by lra. rewrite Rmin_right by lra. cbv zeta.
    replace (IZR n - 2 + 1) with (IZR n - 1) by ring.
    rewrite log_point_last by assumption. ring.
Qed.

Print Assumptions log_coord_of_point.
Print Assumptions log_interp_grid_is_identity.
Print Assumptions log_coord_strictly_monotone.

(* Proofs/C19_DispGen.v — the regenerated dispatchers (Gen/DispatchersGen.v) ARE the hand model of     *)
(* Model/Dispatchers.v that C19's theorems are about: _base_productmap (any list of axes), vmap_1d       *)
(* (arguments of one common leading length) and spacemap in the configuration the solver uses            *)
(* (put_dense_first = False).                                                                             *)
From Coq Require Import Lia.
From LCM Require Import Base.Prelude Base.Arr Model.Dispatchers Model.VmapSpec Gen.DispatchersGen Proofs.C19_Dispatch.
Local Open Scope nat_scope.

(* ---- in_axes lists ---------------------------------------------------------------------------------- *)
Lemma mapped_from_none n k : mapped_from k (repeat None n) = [].
Proof. revert k. induction n as [|n IH]; intros k; [reflexivity|]. cbn [repeat mapped_from]. apply IH. Qed.

Lemma mapped_from_one_hot : forall n p k, p < n -> mapped_from k (set_axis (repeat None n) p) = [k + p].
Proof.
  induction n as [|n IH]; intros p k H; [lia|].
  destruct p as [|p]; cbn [repeat set_axis mapped_from].
  - rewrite mapped_from_none. f_equal. lia.
  - rewrite (IH p (S k)) by lia. f_equal. lia.
Qed.

Lemma mapped_of_one_hot n p : p < n -> mapped_of (set_axis (no_axes n) p) = [p].
Proof. intros H. unfold mapped_of, no_axes. now rewrite mapped_from_one_hot. Qed.

Lemma length_set_axis spec p : length (set_axis spec p) = length spec.
Proof. revert p. induction spec as [|x r IH]; intros [|p]; simpl; auto. Qed.

Lemma in_mapped_from spec : forall k q, In q (mapped_from k spec) <-> exists j, q = k + j /\ j < length spec /\ nth j spec None <> None.
Proof.
  induction spec as [|x r IH]; intros k q; cbn [mapped_from length].
  - split; [intros []|intros (j & _ & H & _); lia].
  - destruct x as [a|].
    + cbn [In]. rewrite IH. split.
      * intros [<-|(j & -> & Hj & Hn)]; [exists 0; repeat split; [lia|lia|discriminate]|].
        exists (S j). repeat split; [lia|lia|exact Hn].
      * intros (j & -> & Hj & Hn). destruct j as [|j]; [left; lia|right; exists j; repeat split; [lia|lia|exact Hn]].
    + rewrite IH. split.
      * intros (j & -> & Hj & Hn). exists (S j). repeat split; [lia|lia|exact Hn].
      * intros (j & -> & Hj & Hn). destruct j as [|j]; [now contradiction Hn|]. exists j. repeat split; [lia|lia|exact Hn].
Qed.

Lemma nth_set_axis spec : forall p j, nth j (set_axis spec p) None <> None <-> (j = p /\ p < length spec) \/ nth j spec None <> None.
Proof.
  induction spec as [|x r IH]; intros p j.
  - destruct p, j; simpl; split; try tauto; intros [[_ H]|H]; try lia; tauto.
  - destruct p as [|p], j as [|j]; cbn [set_axis nth length].
    + split; [intros _; left; split; [reflexivity|lia]|intros _; discriminate].
    + split; [tauto|intros [[H _]|H]; [discriminate|exact H]].
    + split; [tauto|intros [[H _]|H]; [discriminate|exact H]].
    + rewrite IH. split; intros [[H1 H2]|H]; auto; left; split; lia.
Qed.

Lemma in_mapped_of_fold positions : forall spec q, (forall p, In p positions -> p < length spec) ->
  (In q (mapped_of (fold_left set_axis positions spec)) <-> In q positions \/ In q (mapped_of spec)).
Proof.
  induction positions as [|p r IH]; intros spec q Hp; cbn [fold_left]; [cbn [In]; tauto|].
  rewrite IH by (intros p' Hp'; rewrite length_set_axis; apply Hp; now right).
  unfold mapped_of. rewrite !in_mapped_from. cbn [plus In]. split.
  - intros [H|(j & -> & Hj & Hn)]; [tauto|]. rewrite length_set_axis in Hj. apply nth_set_axis in Hn.
    destruct Hn as [[-> _]|Hn]; [left; now left|right; exists j; repeat split; auto].
  - intros [[<-|H]|(j & -> & Hj & Hn)]; [|tauto|].
    + right. exists p. rewrite length_set_axis. repeat split; [apply Hp; now left|]. apply nth_set_axis. left. split; [reflexivity|apply Hp; now left].
    + right. exists j. rewrite length_set_axis. repeat split; [exact Hj|]. apply nth_set_axis. now right.
Qed.

(* ---- _base_productmap ------------------------------------------------------------------------------- *)
Lemma specs_built l n : fold_left (fun specs pos => (specs ++ [set_axis (no_axes n) pos])%list) l []
                        = map (fun pos => set_axis (no_axes n) pos) l.
Proof.
  assert (G : forall acc, fold_left (fun specs pos => (specs ++ [set_axis (no_axes n) pos])%list) l acc
                          = (acc ++ map (fun pos => set_axis (no_axes n) pos) l)%list).
  { induction l as [|x r IH]; intros acc; simpl; [now rewrite app_nil_r|]. rewrite IH, <- app_assoc. reflexivity. }
  apply (G []).
Qed.

Theorem gen_base_productmap_is_model f parameters axes :
  (forall ax, In ax axes -> index_in parameters ax < length parameters) ->
  gen_base_productmap f parameters axes = base_productmap f (map (index_in parameters) axes).
Proof.
  intros Hp. unfold gen_base_productmap, base_productmap. cbv zeta. rewrite specs_built.
  assert (G : forall l g, (forall p, In p l -> p < length parameters) ->
             fold_left (fun vmapped spec => jax_vmap vmapped spec) (map (fun pos => set_axis (no_axes (length parameters)) pos) l) g
             = fold_left (fun vmapped pos => vmap vmapped [pos]) l g).
  { induction l as [|p r IH]; intros g Hl; [reflexivity|]. cbn [map fold_left]. unfold jax_vmap at 2.
    rewrite mapped_of_one_hot by (apply Hl; now left). apply IH. intros q Hq. apply Hl. now right. }
  apply G. intros p Hin. apply in_rev in Hin. apply in_map_iff in Hin. destruct Hin as (ax & <- & Hax). now apply Hp.
Qed.

(* ---- vmap_1d ------------------------------------------------------------------------------------------ *)
Lemma slice_at_same_set args A B i : (forall p, In p A <-> In p B) -> slice_at args A i = slice_at args B i.
Proof.
  intros H. apply (nth_ext _ _ dflt_arr dflt_arr).
  - unfold slice_at. assert (L : forall l a, length (fold_left (fun acc p => upd acc p (qslice (nth p args dflt_arr) i)) l a) = length a).
    { induction l as [|x r IH]; intros a; simpl; [reflexivity|]. now rewrite IH, length_upd. }
    now rewrite !L.
  - intros p Hp. assert (Hp' : p < length args).
    { unfold slice_at in Hp. assert (L : forall l a, length (fold_left (fun acc p => upd acc p (qslice (nth p args dflt_arr) i)) l a) = length a).
      { induction l as [|x r IH]; intros a; simpl; [reflexivity|]. now rewrite IH, length_upd. }
      now rewrite L in Hp. }
    rewrite !slice_at_spec by exact Hp'.
    assert (E : existsb (Nat.eqb p) A = existsb (Nat.eqb p) B).
    { apply eq_true_iff_eq. rewrite !existsb_exists. split; intros (x & Hx & Ex); apply Nat.eqb_eq in Ex; subst x; exists p; split;
        try apply Nat.eqb_refl; now apply H. }
    now rewrite E.
Qed.

Theorem gen_vmap_1d_is_model f parameters variables args :
  variables <> [] ->
  (forall v, In v variables -> index_in parameters v < length parameters) ->
  (* all mapped arguments have the same leading length (jax.vmap requires it) *)
  (forall p q, In p (map (index_in parameters) variables) -> In q (map (index_in parameters) variables) ->
     lead (nth p args dflt_arr) = lead (nth q args dflt_arr)) ->
  gen_vmap_1d f parameters variables args = vmap_1d f (map (index_in parameters) variables) args.
Proof.
  intros Hne Hp Hlead. unfold gen_vmap_1d, vmap_1d, jax_vmap. cbv zeta.
  set (positions := map (index_in parameters) variables) in *.
  set (A := mapped_of (fold_left set_axis positions (no_axes (length parameters)))).
  assert (HA : forall p, In p A <-> In p positions).
  { intros p. unfold A. rewrite in_mapped_of_fold.
    - unfold mapped_of, no_axes. rewrite mapped_from_none. cbn [In]. tauto.
    - intros q Hq. unfold no_axes. rewrite repeat_length. unfold positions in Hq. apply in_map_iff in Hq.
      destruct Hq as (v & <- & Hv). now apply Hp. }
  unfold vmap.
  assert (Hhd : lead (nth (hd 0 A) args dflt_arr) = lead (nth (hd 0 positions) args dflt_arr)).
  { assert (NA : A <> []).
    { intros E. destruct positions as [|x r] eqn:Ep; [unfold positions in Ep; destruct variables; [congruence|discriminate]|].
      assert (In x A) by (apply HA; now left). rewrite E in H. contradiction. }
    destruct A as [|a ra]; [congruence|]. destruct positions as [|x r] eqn:Ep; [exfalso; apply (proj1 (HA a)); now left|].
    cbn [hd]. apply Hlead; [apply HA; now left|now left]. }
  rewrite Hhd. rewrite (slice_at_same_set args A positions 0 HA). f_equal.
  apply flat_map_ext. intros i. now rewrite (slice_at_same_set args A positions i HA).
Qed.

(* ---- spacemap, as the solver calls it (sparse axis first) -------------------------------------------- *)
Theorem gen_spacemap_sparse_first_is_model f parameters dense sparse args :
  (forall v, In v dense -> index_in parameters v < length parameters) ->
  (forall v, In v sparse -> index_in parameters v < length parameters) ->
  (forall p q, In p (map (index_in parameters) sparse) -> In q (map (index_in parameters) sparse) ->
     lead (nth p args dflt_arr) = lead (nth q args dflt_arr)) ->
  gen_spacemap f parameters dense sparse false args
  = spacemap f (map (index_in parameters) dense) (map (index_in parameters) sparse) false args.
Proof.
  intros Hd Hs Hl. unfold gen_spacemap, spacemap. rewrite (gen_base_productmap_is_model f parameters dense Hd).
  destruct sparse as [|s0 sr]; [reflexivity|]. cbn [map].
  apply (gen_vmap_1d_is_model _ parameters (s0 :: sr) args); [discriminate|exact Hs|exact Hl].
Qed.

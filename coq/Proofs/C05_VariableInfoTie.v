(* Proofs/C05_VariableInfoTie.v — the table the regenerated get_variable_info returns IS the variable_info (C18_VarInfo.vi_sparse) *)
(* the axis, layout and period theorems (C01, C02, C05, C18) are stated on: for a model without stochastic and auxiliary states     *)
(* whose filter-restricted variables are discrete, with the six groups taken from the declarations in declaration order.            *)
From Coq Require Import Lia.
From LCM Require Import Base.Prelude Model.PyVocab Spec.Lang Gen.ChoiceAxes Gen.VariableInfo.
From LCM Require Import Proofs.PyVocabLemmas Proofs.C05_VariableInfo Proofs.C18_VarInfo.
Local Open Scope nat_scope.

Definition of_sg (sg : string * grid) : string * bool := (fst sg, is_cont (snd sg)).

Section Tie.
Variables (is_stochastic_next : string -> bool) (filtered_variables : list string).
Variables (S C : list (string * grid)).     (* model.states, model.choices in declaration order *)
Hypothesis Hnames : NoDup (map fst S ++ map fst C).
Hypothesis Hdet : forall sg, In sg S -> is_stochastic_next ("next_" ++ fst sg) = false.
Let R := fun sg : string * grid => mem_str (fst sg) filtered_variables.
Hypothesis Hdisc : forall sg, In sg (S ++ C) -> R sg = true -> is_cont (snd sg) = false.

Let states := map of_sg S.
Let choices := map of_sg C.

Lemma names_states : map fst states = map fst S.
Proof. unfold states. rewrite map_map. reflexivity. Qed.
Lemma names_choices : map fst choices = map fst C.
Proof. unfold choices. rewrite map_map. reflexivity. Qed.

Lemma Hn' : NoDup (map fst states ++ map fst choices).
Proof. now rewrite names_states, names_choices. Qed.

Lemma group (q : varinfo -> bool) (qs qc : string * grid -> bool) :
  (forall sg, In sg S -> q (vi_row is_stochastic_next [] filtered_variables states (of_sg sg)) = qs sg) ->
  (forall sg, In sg C -> q (vi_row is_stochastic_next [] filtered_variables states (of_sg sg)) = qc sg) ->
  filter q (vi_rows is_stochastic_next [] filtered_variables states choices)
  = (map (fun sg => vi_row is_stochastic_next [] filtered_variables states (of_sg sg)) (filter qs S)
     ++ map (fun sg => vi_row is_stochastic_next [] filtered_variables states (of_sg sg)) (filter qc C))%list.
Proof.
  intros Hs Hc. unfold vi_rows. rewrite (variables_in_declaration_order states choices Hn'). unfold states at 2, choices.
  rewrite map_app, !map_map, filter_app, !filter_map_comm. f_equal; f_equal; apply filter_ext_in; assumption.
Qed.

Lemma in_states sg : In sg S -> mem_str (fst (of_sg sg)) (map fst states) = true.
Proof. intros H. apply mem_str_In. rewrite names_states. cbn. now apply in_map. Qed.
Lemma not_in_states sg : In sg C -> mem_str (fst (of_sg sg)) (map fst states) = false.
Proof.
  intros H. apply Bool.not_true_iff_false. intros M. apply mem_str_In in M. rewrite names_states in M. cbn in M.
  destruct (nodup_app_parts _ _ Hnames) as (_ & _ & Hd). apply (Hd (fst sg) M). now apply in_map.
Qed.

Theorem regenerated_variable_info_is_the_models :
  get_variable_info is_stochastic_next [] filtered_variables states choices
  = Some (vi_sparse (filter R S) (filter R C)
                    (filter (fun sg => negb (R sg) && negb (is_cont (snd sg))) S) (filter (fun sg => negb (R sg) && negb (is_cont (snd sg))) C)
                    (filter (fun sg => negb (R sg) && is_cont (snd sg)) S) (filter (fun sg => negb (R sg) && is_cont (snd sg)) C)).
Proof.
  rewrite get_variable_info_is_canonical. f_equal. unfold vi_sparse, vi_of.
  (* the six groups *)
  rewrite (group q1 R (fun _ => false)).
  2:{ intros sg H. unfold q1. cbn [is_sparse is_state vi_row]. rewrite (in_states sg H). apply Bool.andb_true_r. }
  2:{ intros sg H. unfold q1. cbn [is_sparse is_state vi_row]. rewrite (not_in_states sg H). apply Bool.andb_false_r. }
  rewrite (group q2 (fun _ => false) R).
  2:{ intros sg H. unfold q2. cbn [is_sparse is_choice vi_row]. rewrite (in_states sg H). apply Bool.andb_false_r. }
  2:{ intros sg H. unfold q2. cbn [is_sparse is_choice vi_row]. rewrite (not_in_states sg H). apply Bool.andb_true_r. }
  rewrite (group q3 (fun sg => negb (R sg) && negb (is_cont (snd sg))) (fun _ => false)).
  2:{ intros sg H. unfold q3. cbn [is_dense is_discrete is_state vi_row]. rewrite (in_states sg H). apply Bool.andb_true_r. }
  2:{ intros sg H. unfold q3. cbn [is_dense is_discrete is_state vi_row]. rewrite (not_in_states sg H). apply Bool.andb_false_r. }
  rewrite (group q4 (fun _ => false) (fun sg => negb (R sg) && negb (is_cont (snd sg)))).
  2:{ intros sg H. unfold q4. cbn [is_dense is_discrete is_choice vi_row]. rewrite (in_states sg H). apply Bool.andb_false_r. }
  2:{ intros sg H. unfold q4. cbn [is_dense is_discrete is_choice vi_row]. rewrite (not_in_states sg H). apply Bool.andb_true_r. }
  rewrite (group q5 (fun sg => negb (R sg) && is_cont (snd sg)) (fun _ => false)).
  2:{ intros sg H. unfold q5. cbn [is_dense is_continuous is_state vi_row]. rewrite (in_states sg H). apply Bool.andb_true_r. }
  2:{ intros sg H. unfold q5. cbn [is_dense is_continuous is_state vi_row]. rewrite (not_in_states sg H). apply Bool.andb_false_r. }
  rewrite (group q6 (fun _ => false) (fun sg => negb (R sg) && is_cont (snd sg))).
  2:{ intros sg H. unfold q6. cbn [is_dense is_continuous is_choice vi_row]. rewrite (in_states sg H). apply Bool.andb_false_r. }
  2:{ intros sg H. unfold q6. cbn [is_dense is_continuous is_choice vi_row]. rewrite (not_in_states sg H). apply Bool.andb_true_r. }
  assert (E : forall l : list (string * grid), filter (fun _ => false) l = []) by (induction l; auto).
  rewrite !E. cbn [map app]. rewrite ?app_nil_r.
  (* the rows of each group *)
  f_equal; [|f_equal; [|f_equal; [|f_equal; [|f_equal]]]].
  all: apply map_ext_in; intros sg Hin; apply filter_In in Hin; destruct Hin as [Hin Hq].
  all: unfold vi_row, vinfo_sparse, vinfo; cbn [fst snd of_sg].
  - pose proof (in_states sg Hin) as M. cbn [fst of_sg] in M. rewrite M, (Hdet sg Hin). fold (R sg). rewrite Hq.
    rewrite (Hdisc sg (in_or_app _ _ _ (or_introl Hin)) Hq). reflexivity.
  - pose proof (not_in_states sg Hin) as M. cbn [fst of_sg] in M. rewrite M. fold (R sg). rewrite Hq.
    rewrite (Hdisc sg (in_or_app _ _ _ (or_intror Hin)) Hq). reflexivity.
  - pose proof (in_states sg Hin) as M. cbn [fst of_sg] in M. rewrite M, (Hdet sg Hin). fold (R sg).
    apply andb_prop in Hq. destruct Hq as [H1 H2]. apply Bool.negb_true_iff in H1, H2. rewrite H1, H2. reflexivity.
  - pose proof (not_in_states sg Hin) as M. cbn [fst of_sg] in M. rewrite M. fold (R sg).
    apply andb_prop in Hq. destruct Hq as [H1 H2]. apply Bool.negb_true_iff in H1, H2. rewrite H1, H2. reflexivity.
  - pose proof (in_states sg Hin) as M. cbn [fst of_sg] in M. rewrite M, (Hdet sg Hin). fold (R sg).
    apply andb_prop in Hq. destruct Hq as [H1 H2]. apply Bool.negb_true_iff in H1. rewrite H1, H2. reflexivity.
  - pose proof (not_in_states sg Hin) as M. cbn [fst of_sg] in M. rewrite M. fold (R sg).
    apply andb_prop in Hq. destruct Hq as [H1 H2]. apply Bool.negb_true_iff in H1. rewrite H1, H2. reflexivity.
Qed.
End Tie.

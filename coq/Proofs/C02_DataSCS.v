(* Proofs/C02_DataSCS.v — the regenerated create_data_scs (Gen/DataSCS.v): the rows of the data state-choice space are, for every *)
(* agent in agent order, the filter-passing combinations of the restricted choices in row-major order; a state's column repeats   *)
(* the agent's value, a restricted choice's column lists the combination's grid value, the segment of a row is its agent.           *)
From Coq Require Import Lia.
From LCM Require Import Base.Prelude Base.Arr Model.Dispatchers Gen.ChoiceAxes Gen.ChoiceSegments Gen.DataSCS.
From LCM Require Import Model.PyVocab Proofs.ArrLemmas Proofs.C19_Dispatch Proofs.PyVocabLemmas.
Local Open Scope nat_scope.

(* ---- lists ---------------------------------------------------------------------------------------------------------- *)

Lemma select_true_map {A B} (p : A -> bool) (f : A -> B) l : select_true (map p l) (map f l) = map f (filter p l).
Proof. induction l as [|x r IH]; [reflexivity|]. cbn [map select_true filter]. destruct (p x); cbn [map]; now rewrite IH. Qed.

Definition all_pairs (nag : nat) (cis : list (list nat)) : list (nat * list nat) :=
  flat_map (fun a => map (pair a) cis) (seq 0 nag).

Lemma np_repeat_pairs {A} (d : A) col nag cis : length col = nag ->
  np_repeat col (length cis) = map (fun r : nat * list nat => nth (fst r) col d) (all_pairs nag cis).
Proof.
  intros Hl. unfold np_repeat, all_pairs. rewrite map_flat_map.
  assert (E : col = map (fun a => nth a col d) (seq 0 nag)).
  { subst nag. apply (nth_ext _ _ d d); [now rewrite map_length, seq_length|]. intros i Hi.
    rewrite (nth_indep (map _ _) d ((fun a => nth a col d) 0)) by (now rewrite map_length, seq_length).
    now rewrite (map_nth (fun a => nth a col d)), seq_nth. }
  rewrite E at 1. rewrite flat_map_concat_map, map_map, <- flat_map_concat_map.
  apply flat_map_ext_in. intros a _. rewrite map_map. cbn [fst]. now rewrite map_const_repeat.
Qed.

Lemma np_tile_pairs {B} (f : list nat -> B) nag cis :
  np_tile (map f cis) nag = map (fun r : nat * list nat => f (snd r)) (all_pairs nag cis).
Proof. unfold np_tile, all_pairs. rewrite map_flat_map. apply flat_map_ext_in. intros a _. now rewrite map_map. Qed.

Lemma filter_all_pairs (keep : nat * list nat -> bool) nag cis :
  filter keep (all_pairs nag cis) = flat_map (fun a => map (pair a) (filter (fun ci => keep (a, ci)) cis)) (seq 0 nag).
Proof. unfold all_pairs. rewrite filter_flat_map. apply flat_map_ext_in. intros a _. apply filter_map_comm. Qed.

Lemma length_all_pairs nag cis : length (all_pairs nag cis) = nag * length cis.
Proof.
  unfold all_pairs. generalize 0. induction nag as [|n IH]; intros s; [reflexivity|]. cbn [seq flat_map]. rewrite app_length, map_length, IH. lia.
Qed.

(* ---- dicts ----------------------------------------------------------------------------------------------------------- *)

(* assigning the entries of a list with distinct keys, one after the other *)

(* a scalar-valued function's data *)

(* the columns of dict_product *)



Local Open Scope string_scope.
Section DataSCS.
Variables (sig : list string) (scalar_filter : list qarr -> qarr).
Hypothesis Hscalar : forall a, wf (scalar_filter a) /\ shape (scalar_filter a) = [].
Hypothesis Hsig : NoDup sig.
Variables (states : list (string * list Q)) (vi : list varinfo) (grids : list (string * list Q)) (period : nat).
Definition scs_choices : list (string * list Q) :=
  filter (fun ng => mem_str (fst ng) (map vname (filter (fun v => (is_sparse v && is_choice v)) vi))) grids.
Definition scs_n : nat := length (snd (hd ("", []) states)).
Definition scs_cis : list (list nat) := indices (map (@length Q) (map snd scs_choices)).
Definition scs_vmapped : list string := filter (fun p => negb (String.eqb p "_period")) sig.
Hypothesis Hstates_nd : NoDup (map fst states).
Hypothesis Hgrids_nd : NoDup (map fst grids).
Hypothesis Hlen : forall s col, In (s, col) states -> length col = scs_n.
Hypothesis Hdisj : forall s, In s (map fst states) -> ~ In s (map fst scs_choices).
Hypothesis Hhas : filter (fun v => (is_sparse v && is_choice v)) vi <> [].
Hypothesis Hvalid : set_eqb (map vname (filter (fun v => is_state v) vi)) (map fst states) = true.
Hypothesis Hvm : scs_vmapped <> [].
Hypothesis Hknown : forall p, In p scs_vmapped -> In p (map fst states) \/ In p (map fst scs_choices).
Hypothesis Hnag : (0 < scs_n)%nat.

(* the value of variable p in the combination (agent a, restricted-choice combination ci) *)
Definition scs_value (p : string) (r : nat * list nat) : Q :=
  match assoc p states with
  | Some col => nth (fst r) col 0%Q
  | None => match index_of p (map fst scs_choices) with
            | Some j => nth (nth j (snd r) 0%nat) (nth j (map snd scs_choices) []) 0%Q
            | None => 0%Q
            end
  end.
Definition scs_args (r : nat * list nat) : list qarr :=
  map (fun p => if String.eqb p "_period" then scalar (Qofnat period) else scalar (scs_value p r)) sig.
Definition scs_keep (r : nat * list nat) : bool := truthy (qget (scalar_filter (scs_args r)) []).
Definition scs_pairs := all_pairs scs_n scs_cis.
Definition scs_rows := filter scs_keep scs_pairs.

Definition cgrid : list (string * list Q) :=
  fold_left (fun d nc => dict_set d (fst nc) (np_tile (snd nc) scs_n)) (fst (dict_product scs_choices))
    (fold_left (fun d ns => dict_set d (fst ns) (np_repeat (snd ns) (snd (dict_product scs_choices)))) states []).

Lemma sc_nd : NoDup (map fst scs_choices).
Proof.
  unfold scs_choices. generalize Hgrids_nd. generalize (fun ng : string * list Q => mem_str (fst ng) (map vname (filter (fun v => (is_sparse v && is_choice v)) vi))).
  intros p. induction grids as [|[k v] r IH]; intros Hn; [constructor|]. inversion Hn as [|? ? Hk Hn']; subst. cbn [filter].
  destruct (p (k, v)); [|now apply IH]. cbn [map fst]. constructor; [|now apply IH].
  intros Hin. apply Hk. apply in_map_iff in Hin. destruct Hin as ([k' v'] & E & Hf). cbn in E. subst k'. apply filter_In in Hf.
  apply in_map_iff. exists (k, v'). split; [reflexivity|tauto].
Qed.

Lemma n_sc_is : snd (dict_product scs_choices) = length scs_cis.
Proof. reflexivity. Qed.

Lemma product_keys : map fst (fst (dict_product scs_choices)) = map fst scs_choices.
Proof. unfold dict_product. cbn [fst]. apply keys_indexed. Qed.

Lemma cgrid_keys : map fst cgrid = (map fst states ++ map fst scs_choices)%list.
Proof.
  unfold cgrid.
  rewrite (keys_fold_dict_set_fresh (fun nc : string * list Q => np_tile (snd nc) scs_n)).
  - rewrite (keys_fold_dict_set_fresh (fun ns : string * list Q => np_repeat (snd ns) (snd (dict_product scs_choices)))); [now rewrite product_keys|exact Hstates_nd|].
    intros k _ [].
  - rewrite product_keys. exact sc_nd.
  - intros k Hk. rewrite product_keys in Hk.
    rewrite (keys_fold_dict_set_fresh (fun ns : string * list Q => np_repeat (snd ns) (snd (dict_product scs_choices)))); [|exact Hstates_nd|intros ? _ []].
    cbn [map app]. intros Hs. exact (Hdisj k Hs Hk).
Qed.

Lemma cgrid_state s col : In (s, col) states ->
  assoc s cgrid = Some (map (fun r : nat * list nat => nth (fst r) col 0%Q) scs_pairs).
Proof.
  intros Hin. unfold cgrid.
  rewrite (assoc_fold_dict_set (fun nc : string * list Q => np_tile (snd nc) scs_n)) by (rewrite product_keys; exact sc_nd).
  rewrite (assoc_map_val (fun c : list Q => np_tile c scs_n)).
  rewrite (assoc_None s (fst (dict_product scs_choices))).
  2:{ rewrite product_keys. apply Hdisj. apply in_map_iff. exists (s, col). split; [reflexivity|exact Hin]. }
  cbn [option_map].
  rewrite (assoc_fold_dict_set (fun ns : string * list Q => np_repeat (snd ns) (snd (dict_product scs_choices)))) by exact Hstates_nd.
  rewrite (assoc_map_val (fun c : list Q => np_repeat c (snd (dict_product scs_choices)))).
  rewrite (assoc_In_nodup s col states Hstates_nd Hin). cbn [option_map]. f_equal.
  rewrite n_sc_is. apply np_repeat_pairs. now apply (Hlen s).
Qed.

Lemma cgrid_choice j name arr : nth_error scs_choices j = Some (name, arr) ->
  assoc name cgrid = Some (map (fun r : nat * list nat => nth (nth j (snd r) 0%nat) arr 0%Q) scs_pairs).
Proof.
  intros Hj. unfold cgrid.
  rewrite (assoc_fold_dict_set (fun nc : string * list Q => np_tile (snd nc) scs_n)) by (rewrite product_keys; exact sc_nd).
  rewrite (assoc_map_val (fun c : list Q => np_tile c scs_n)).
  unfold dict_product at 1. cbn [fst].
  rewrite (assoc_indexed (fun jd : nat * (string * list Q) => map (fun idx => nth (nth (fst jd) idx 0%nat) (snd (snd jd)) 0%Q) (indices (map (@length Q) (map snd scs_choices))))
             scs_choices 0 j name arr sc_nd Hj).
  cbn [option_map fst snd Nat.add]. f_equal. fold scs_cis.
  apply (np_tile_pairs (fun idx => nth (nth j idx 0%nat) arr 0%Q)).
Qed.

(* every vmapped parameter of the filter has a column over all (agent, combination) pairs holding its value there *)
Lemma cgrid_value p : In p scs_vmapped -> assoc p cgrid = Some (map (scs_value p) scs_pairs).
Proof.
  intros Hp. destruct (Hknown p Hp) as [Hs|Hc].
  - apply in_map_iff in Hs. destruct Hs as ([s col] & E & Hin). cbn in E. subst s.
    rewrite (cgrid_state p col Hin). f_equal. apply map_ext. intros r. unfold scs_value.
    now rewrite (assoc_In_nodup p col states Hstates_nd Hin).
  - destruct (In_nth _ _ "" Hc) as (j & Hj & Ej). rewrite map_length in Hj.
    destruct (nth_error scs_choices j) as [[name arr]|] eqn:En; [|apply nth_error_None in En; lia].
    assert (Ename : name = p).
    { rewrite <- Ej. rewrite (nth_indep _ "" (fst ("", @nil Q))) by (now rewrite map_length). rewrite map_nth.
      now rewrite (nth_error_nth _ _ _ En). }
    subst name. rewrite (cgrid_choice j p arr En). f_equal. apply map_ext. intros r. unfold scs_value.
    rewrite assoc_None.
    2:{ intros Hs. exact (Hdisj p Hs Hc). }
    assert (Ei : index_of p (map fst scs_choices) = Some j).
    { rewrite <- Ej. apply index_of_nth_nodup'; [exact sc_nd|now rewrite map_length]. }
    rewrite Ei. rewrite (nth_indep (map snd scs_choices) [] (snd ("", @nil Q))) by (now rewrite map_length). rewrite map_nth.
    now rewrite (nth_error_nth _ _ _ En).
Qed.

Definition scs_kwargs : list (string * qarr) :=
  filter (fun kv => mem_str (fst kv) sig)
    (fold_left (fun d kv => dict_set d (fst kv) (snd kv)) [("_period", scalar (Qofnat period))]
       (map (fun kv : string * list Q => (fst kv, vec (snd kv))) cgrid)).

Lemma kwargs_lookup p : In p sig ->
  lookup scs_kwargs p = if String.eqb p "_period" then scalar (Qofnat period)
                       else match assoc p cgrid with Some c => vec c | None => dflt_arr end.
Proof.
  intros Hp. unfold lookup, scs_kwargs. rewrite (assoc_filter_mem sig _ p Hp). cbn [fold_left fst snd].
  rewrite assoc_dict_set. destruct (String.eqb p "_period"); [reflexivity|].
  rewrite (assoc_map_val (fun c : list Q => vec c)). now destruct (assoc p cgrid).
Qed.

Definition scs_positions : list nat := map (pos_of (mkFunc sig scalar_filter)) scs_vmapped.

Lemma position_is_mapped q : (q < length sig)%nat ->
  existsb (Nat.eqb q) scs_positions = negb (String.eqb (nth q sig "") "_period").
Proof.
  intros Hq. unfold scs_positions. destruct (String.eqb_spec (nth q sig "") "_period") as [E|N]; cbn [negb].
  - apply Bool.not_true_iff_false. intros H. apply existsb_exists in H. destruct H as (x & Hx & Ex). apply Nat.eqb_eq in Ex. subst x.
    apply in_map_iff in Hx. destruct Hx as (p & Ep & Hp). unfold scs_vmapped in Hp. apply filter_In in Hp. destruct Hp as [Hps Hpp].
    unfold pos_of in Ep. cbn [params] in Ep. destruct (index_of p sig) as [i|] eqn:Ei.
    + subst i. destruct (index_of_Some_nth p sig q Ei) as [En _]. rewrite En in E. subst p. now rewrite String.eqb_refl in Hpp.
    + destruct (In_nth _ _ "" Hps) as (i & Hi & Eni). rewrite <- Eni, (index_of_nth_nodup' sig i Hsig Hi) in Ei. discriminate.
  - apply existsb_exists. exists q. split; [|apply Nat.eqb_refl]. apply in_map_iff. exists (nth q sig ""). split.
    + unfold pos_of. cbn [params]. now rewrite (index_of_nth_nodup' sig q Hsig Hq).
    + unfold scs_vmapped. apply filter_In. split; [now apply nth_In|]. apply String.eqb_neq in N. now rewrite N.
Qed.

Lemma qslice_vec_at l j : qslice (vec l) j = scalar (nth j l 0%Q).
Proof.
  unfold qslice, slice, vec, tabulate, scalar, get. cbn [shape data tl indices map ravel size].
  now rewrite Nat.mul_1_r, Nat.add_0_r.
Qed.

(* the arguments of the scalar filter in row i of the dispatch *)
Lemma slice_at_row i : (i < length scs_pairs)%nat ->
  slice_at (map (lookup scs_kwargs) sig) scs_positions i = scs_args (nth i scs_pairs (0%nat, [])).
Proof.
  intros Hi. apply (nth_ext _ _ dflt_arr dflt_arr).
  - rewrite length_slice_at'. unfold scs_args. now rewrite !map_length.
  - intros q Hq. rewrite length_slice_at', map_length in Hq.
    rewrite slice_at_spec by (now rewrite map_length). rewrite (position_is_mapped q Hq).
    rewrite (nth_indep (map _ sig) dflt_arr (lookup scs_kwargs "")) by (now rewrite map_length). rewrite (map_nth (lookup scs_kwargs)).
    unfold scs_args.
    rewrite (nth_indep (map _ sig) dflt_arr ((fun p => if String.eqb p "_period" then scalar (Qofnat period) else scalar (scs_value p (nth i scs_pairs (0%nat, [])))) "")) by (now rewrite map_length).
    rewrite (map_nth (fun p => if String.eqb p "_period" then scalar (Qofnat period) else scalar (scs_value p (nth i scs_pairs (0%nat, []))))).
    set (p := nth q sig ""). assert (Hp : In p sig) by (now apply nth_In).
    rewrite (kwargs_lookup p Hp). destruct (String.eqb p "_period") eqn:Ep; cbn [negb]; [reflexivity|].
    assert (Hv : In p scs_vmapped) by (unfold scs_vmapped; apply filter_In; split; [exact Hp|now rewrite Ep]).
    rewrite (cgrid_value p Hv), qslice_vec_at.
    rewrite (nth_indep (map _ scs_pairs) 0%Q (scs_value p (0%nat, []))) by (now rewrite map_length). now rewrite (map_nth (scs_value p)).
Qed.

Lemma length_pairs_pos : length scs_pairs = (scs_n * length scs_cis)%nat.
Proof. apply length_all_pairs. Qed.

(* the filter mask: one entry per (agent, combination) pair, in the order of the pairs *)
Definition scs_mask : list bool :=
  map truthy (data (vmap_1d_named (mkFunc sig scalar_filter) scs_vmapped scs_kwargs)).

Lemma mask_is : scs_mask = map scs_keep scs_pairs.
Proof.
  unfold scs_mask, vmap_1d_named, vmap_1d, vmap. cbn [params fn data]. fold scs_positions.
  assert (Hlead : lead (nth (hd 0%nat scs_positions) (map (lookup scs_kwargs) sig) dflt_arr) = length scs_pairs).
  { set (p0 := hd "" scs_vmapped).
    assert (Hp0 : In p0 scs_vmapped) by (apply hd_In; exact Hvm).
    assert (Hp0s : In p0 sig) by (unfold scs_vmapped in Hp0; apply filter_In in Hp0; tauto).
    assert (Hp0p : String.eqb p0 "_period" = false).
    { unfold scs_vmapped in Hp0. apply filter_In in Hp0. destruct Hp0 as [_ H]. now destruct (String.eqb p0 "_period"). }
    unfold scs_positions. rewrite (hd_map (pos_of (mkFunc sig scalar_filter)) "" 0%nat scs_vmapped Hvm). fold p0. unfold pos_of. cbn [params].
    destruct (In_nth _ _ "" Hp0s) as (q & Hq & Eq). rewrite <- Eq at 1. rewrite (index_of_nth_nodup' sig q Hsig Hq).
    rewrite (nth_indep (map _ sig) dflt_arr (lookup scs_kwargs "")) by (now rewrite map_length). rewrite (map_nth (lookup scs_kwargs)), Eq.
    rewrite (kwargs_lookup p0 Hp0s), Hp0p, (cgrid_value p0 Hp0). unfold lead, vec. cbn [shape hd]. now rewrite map_length. }
  rewrite Hlead.
  rewrite (flat_map_ext_in _ (fun i => [qget (scalar_filter (scs_args (nth i scs_pairs (0%nat, [])))) []])).
  2:{ intros i Hi. apply in_seq in Hi. rewrite slice_at_row by lia. apply data_of_scalar; apply Hscalar. }
  rewrite flat_map_concat_map. 
  assert (E : forall (g : nat -> Q) l, concat (map (fun i => [g i]) l) = map g l).
  { intros g l. induction l as [|x r IH]; [reflexivity|]. cbn [map concat app]. now rewrite IH. }
  rewrite E, map_map. unfold scs_keep.
  exact (map_nth_seq (fun r => truthy (qget (scalar_filter (scs_args r)) [])) scs_pairs (0%nat, [])).
Qed.

(* ---- what create_data_scs returns ----------------------------------------------------------------------------------- *)
Theorem create_data_scs_rows :
  exists ds, create_data_scs sig scalar_filter states vi grids period = Some ds /\
  map fst (ds_sparse_vars ds) = (map fst states ++ map fst scs_choices)%list /\
  (forall s col, In (s, col) states ->
     assoc s (ds_sparse_vars ds) = Some (map (fun r : nat * list nat => nth (fst r) col 0%Q) scs_rows)) /\
  (forall j name arr, nth_error scs_choices j = Some (name, arr) ->
     assoc name (ds_sparse_vars ds) = Some (map (fun r : nat * list nat => nth (nth j (snd r) 0%nat) arr 0%Q) scs_rows)) /\
  ds_choice_segments ds = Some (map fst scs_rows, length (nodup Nat.eq_dec (map fst scs_rows))) /\
  ds_dense_vars ds
  = filter (fun ng => mem_str (fst ng) (map vname (filter (fun v => ((is_dense v && is_choice v) && negb (is_continuous v))) vi))) grids.
Proof.
  unfold create_data_scs. rewrite Hvalid. cbn [negb].
  replace (Nat.ltb 0 (length (filter (fun v => (is_sparse v && is_choice v)) vi))) with true.
  2:{ symmetry. apply Nat.ltb_lt. destruct (filter (fun v => (is_sparse v && is_choice v)) vi); [now destruct Hhas|simpl; lia]. }
  fold scs_choices. fold scs_n. fold cgrid. fold scs_vmapped. fold scs_kwargs. fold scs_mask.
  eexists. split; [reflexivity|]. cbn [ds_sparse_vars ds_dense_vars ds_choice_segments].
  split; [|split; [|split; [|split]]].
  - rewrite map_map. cbn [fst]. exact cgrid_keys.
  - intros s col Hin. rewrite (assoc_map_val (select_true scs_mask)), (cgrid_state s col Hin). cbn [option_map]. f_equal.
    rewrite mask_is. apply select_true_map.
  - intros j name arr Hj. rewrite (assoc_map_val (select_true scs_mask)), (cgrid_choice j name arr Hj). cbn [option_map]. f_equal.
    rewrite mask_is. apply select_true_map.
  - f_equal. unfold create_choice_segments.
    assert (Hids : flat_map (fun i => repeat i (length scs_mask / scs_n)) (seq 0 scs_n) = map fst scs_pairs).
    { rewrite mask_is, map_length, length_pairs_pos. rewrite Nat.mul_comm, Nat.div_mul by lia.
      change (flat_map (fun i => repeat i (length scs_cis)) (seq 0 scs_n)) with (np_repeat (seq 0 scs_n) (length scs_cis)).
      rewrite (np_repeat_pairs 0%nat (seq 0 scs_n) scs_n scs_cis (seq_length _ _)). fold scs_pairs.
      apply map_ext_in. intros [a ci] Hin. cbn [fst]. unfold scs_pairs, all_pairs in Hin. apply in_flat_map in Hin.
      destruct Hin as (a' & Ha' & Hin). apply in_map_iff in Hin. destruct Hin as (ci' & E & _). injection E as <- <-.
      apply in_seq in Ha'. now rewrite seq_nth by lia. }
    rewrite Hids, mask_is, select_true_map. reflexivity.
  - reflexivity.
Qed.

(* the rows, agent by agent *)
Theorem rows_by_agent :
  scs_rows = flat_map (fun a => map (pair a) (filter (fun ci => scs_keep (a, ci)) scs_cis)) (seq 0 scs_n).
Proof. apply filter_all_pairs. Qed.
End DataSCS.

(* Proofs/C01_MaxCompose.v — the maximisation of the CODE is the maximisation of the SPECIFICATION:   *)
(* the value the regenerated reductions compute for a state -- compute_ccv (masked maximum over the     *)
(* continuous choice grid, Gen/CCV.v) for every combination of discrete choices, then the maximum over   *)
(* the discrete choice axes (Gen/DiscreteNoShocks.v, no sparse choices) -- is the specification's         *)
(* value_at of that state, provided every entry holds the specification's objective / feasibility of    *)
(* the choice it stands for (the step theorem of Proofs/C01_Compose.v + C19's entry theorem).            *)
From Coq Require Import Lqa Lia Permutation.
From LCM Require Import Base.Prelude Base.Arr Base.ArrOps Gen.DiscreteNoShocks Gen.CCV.
From LCM Require Import Spec.Lang Spec.Bellman Proofs.ArrLemmas Proofs.ArrLemmas2 Proofs.Spec_Algebra Proofs.Spec_Bellman
                        Proofs.C11_Affine Proofs.C11_Horizon Proofs.C10_Rewrite Proofs.C10_Choices Proofs.C18_Reduce.
Local Open Scope nat_scope.

(* ---- assignments are the index tuples of the product grid, in row-major order ------------------------ *)
Definition env_of_idx (vars : list (string * grid)) (idx : list nat) : env :=
  map (fun vi : (string * grid) * nat => (fst (fst vi), grid_point (snd (fst vi)) (snd vi))) (combine vars idx).

Lemma flat_map_map {A B C} (f : A -> B) (g : B -> list C) l : flat_map g (map f l) = flat_map (fun x => g (f x)) l.
Proof. induction l as [|x r IH]; simpl; [reflexivity|]. now rewrite IH. Qed.

Lemma map_flat_map' {A B C} (f : B -> C) (g : A -> list B) l : map f (flat_map g l) = flat_map (fun x => map f (g x)) l.
Proof. induction l as [|x r IH]; simpl; [reflexivity|]. now rewrite map_app, IH. Qed.

Lemma flat_map_ext'' {A B} (f g : A -> list B) l : (forall x, f x = g x) -> flat_map f l = flat_map g l.
Proof. intros H. induction l as [|x r IH]; simpl; [reflexivity|]. now rewrite H, IH. Qed.

Lemma assignments_as_indices : forall vars,
  assignments (var_points vars) = map (env_of_idx vars) (indices (map (fun sg : string * grid => grid_size (snd sg)) vars)).
Proof.
  induction vars as [|[x g] r IH]; [reflexivity|].
  change (var_points ((x, g) :: r)) with ((x, grid_points g) :: var_points r).
  cbn [assignments map snd indices]. unfold grid_points. rewrite flat_map_map.
  rewrite map_flat_map'. apply flat_map_ext''. intros i. rewrite IH, !map_map. reflexivity.
Qed.

Lemma assignments_app : forall v1 v2,
  assignments (v1 ++ v2) = flat_map (fun g1 => map (fun g2 => (g1 ++ g2)%list) (assignments v2)) (assignments v1).
Proof.
  induction v1 as [|[x vals] r IH]; intros v2.
  - cbn [app assignments flat_map]. rewrite app_nil_r. now rewrite map_id.
  - cbn [app assignments]. rewrite IH. clear IH.
    induction vals as [|v vs IHv]; [reflexivity|]. cbn [flat_map]. rewrite flat_map_app, IHv. f_equal.
    rewrite map_flat_map', flat_map_map. apply flat_map_ext''. intros g1. rewrite map_map. reflexivity.
Qed.

Lemma var_points_app l1 l2 : var_points (l1 ++ l2) = (var_points l1 ++ var_points l2)%list.
Proof. unfold var_points. apply map_app. Qed.

(* ---- the code's two-stage maximum ----------------------------------------------------------------------- *)
Section Max.
Variables (m : model) (p : params) (t : nat) (last : bool) (vnext : list nat -> val) (sigma : env).
(* the discrete choices in the order of the array axes, the continuous choices in the order of their grids *)
Variables (dch cch : list (string * grid)).
Hypothesis Hperm : Permutation (dch ++ cch) (choices m).
Hypothesis Hnd : NoDup (map fst (choices m)).

Let dshape := map (fun sg : string * grid => grid_size (snd sg)) dch.
Let cshape := map (fun sg : string * grid => grid_size (snd sg)) cch.

(* the specification's candidate of the choice (red, cidx) *)
Definition spec_cand (red cidx : list nat) : val :=
  let e := (sigma ++ (env_of_idx dch red ++ env_of_idx cch cidx) ++ [(period_name, Qofnat t)])%list in
  if feasible m p e then objective m p last vnext e else VNegInf.

(* what the code holds: for every combination of discrete choices the masked maximum over the continuous grid *)
Variable ccv : list nat -> val.
Hypothesis Hccv : forall red, in_bounds dshape red ->
  veq (ccv red) (vmaxl (map (spec_cand red) (indices cshape))).

Let m2 := mkModel (n_periods m) (states m) (dch ++ cch) (functions m).

Lemma same_functions_m2 : same_functions m m2.
Proof. constructor; try reflexivity; apply Permutation_refl. Qed.

Lemma value_at_m2 :
  value_at m2 p t last vnext sigma
  = vmaxl (flat_map (fun red => map (spec_cand red) (indices cshape)) (indices dshape)).
Proof.
  unfold value_at. cbn [choices m2]. rewrite var_points_app, assignments_app, !assignments_as_indices.
  fold dshape. fold cshape. f_equal. rewrite flat_map_map, map_flat_map'. apply flat_map_ext''. intros red.
  rewrite !map_map. apply map_ext. intros cidx. unfold spec_cand. cbv zeta.
  rewrite (feasible_equiv m m2 p same_functions_m2), (objective_equiv m m2 p same_functions_m2). reflexivity.
Qed.

Theorem code_maximum_is_spec_value :
  veq (vmaxl (map ccv (indices dshape))) (value_at m p t last vnext sigma).
Proof.
  assert (Hm2 : veq (value_at m2 p t last vnext sigma) (value_at m p t last vnext sigma)).
  { apply (value_at_choice_order m m2 p same_functions_m2); [now apply Permutation_sym|exact Hnd|intros; reflexivity]. }
  rewrite <- Hm2, value_at_m2, vmaxl_flat_map.
  apply vmaxl_compat. apply Forall2_map_in. intros red Hin. apply Hccv. now apply in_indices.
Qed.
End Max.

(* ---- tied to the regenerated reductions --------------------------------------------------------------- *)
Lemma zip_with_maps' {X A B C} (f : A -> B -> C) (g : X -> A) (h : X -> B) l :
  zip_with f (map g l) (map h l) = map (fun x => f (g x) (h x)) l.
Proof. induction l as [|x r IH]; simpl; [reflexivity|]. now rewrite IH. Qed.

(* compute_ccv on the arrays of utility and feasibility over the continuous choice grid *)
Lemma compute_ccv_of_tabulated (cshape : list nat) (u : list nat -> val) (f : list nat -> bool) :
  compute_ccv (tabulate cshape u) (tabulate cshape f)
  = vmaxl (map (fun cidx => if f cidx then u cidx else VNegInf) (indices cshape)).
Proof. unfold compute_ccv, as_floating, max_where_initial, tabulate, vmaxl. cbn [data]. now rewrite zip_with_maps'. Qed.

Section Solved.
Variables (m : model) (p : params) (t : nat) (last : bool) (vnext : list nat -> val) (sigma : env).
Variables (dch cch : list (string * grid)).
Hypothesis Hperm : Permutation (dch ++ cch) (choices m).
Hypothesis Hnd : NoDup (map fst (choices m)).
Let dshape := map (fun sg : string * grid => grid_size (snd sg)) dch.
Let cshape := map (fun sg : string * grid => grid_size (snd sg)) cch.

(* the array of conditional continuation values, its discrete choice axes, the position of the state *)
Variables (cc : arr val) (axes : list nat) (keep : list nat).
Let mask := axis_mask (length (shape cc)) axes.
Hypothesis Hkeep : in_bounds (select_mask mask (shape cc) false) keep.
Hypothesis Hred : select_mask mask (shape cc) true = dshape.
(* utility and feasibility over the continuous choice grid, for every combination of discrete choices *)
Variables (U : list nat -> list nat -> val) (Fm : list nat -> list nat -> bool).
(* the entry of cc for the discrete combination red is compute_ccv of those arrays (C19: spacemap entry) *)
Hypothesis Hentry : forall red, in_bounds dshape red ->
  get VUndef cc (interleave mask keep red) = compute_ccv (tabulate cshape (U red)) (tabulate cshape (Fm red)).
(* every entry of those arrays holds the specification's feasibility / objective of the choice it stands for
   (the step theorem C01_one_bellman_step_of_the_code_is_the_specifications, C19 for the inner product map) *)
Hypothesis Hpoint : forall red cidx, in_bounds dshape red -> in_bounds cshape cidx ->
  let e := (sigma ++ (env_of_idx dch red ++ env_of_idx cch cidx) ++ [(period_name, Qofnat t)])%list in
  Fm red cidx = feasible m p e /\ (feasible m p e = true -> veq (U red cidx) (objective m p last vnext e)).

Theorem solved_entry_is_the_specifications_value :
  veq (get VUndef (solve_discrete_problem_no_shocks cc (Some axes) None tt) keep) (value_at m p t last vnext sigma).
Proof.
  unfold solve_discrete_problem_no_shocks. unfold amax_axes, reduce_axes. fold mask. rewrite get_tabulate by exact Hkeep.
  rewrite Hred. change (fold_right vmax VNegInf ?l) with (vmaxl l).
  rewrite <- (code_maximum_is_spec_value m p t last vnext sigma dch cch Hperm Hnd
                (fun red => get VUndef cc (interleave mask keep red))).
  - reflexivity.
  - intros red Hr. rewrite (Hentry red Hr), compute_ccv_of_tabulated. fold cshape.
    apply vmaxl_compat. apply Forall2_map_in. intros cidx Hc. apply in_indices in Hc.
    destruct (Hpoint red cidx Hr Hc) as [Hf Ho]. unfold spec_cand. cbv zeta. rewrite Hf.
    destruct (feasible m p _) eqn:E; [now apply Ho|reflexivity].
Qed.
End Solved.

(* Proofs/C18_Reduce.v — _solve_discrete_problem_no_shocks (translated, Gen/DiscreteNoShocks.v): *)
(* max over the dense choice axes followed by the segment max over sparse choice rows is, for    *)
(* every state, the maximum over ALL discrete choice combinations of that state.                  *)
From LCM Require Import Base.Prelude Base.Arr Base.ArrOps Gen.DiscreteNoShocks.
From LCM Require Import Proofs.ArrLemmas Proofs.ArrLemmas2 Proofs.C18_Spec.
Local Open Scope nat_scope.

Section Reduce.
Variables (cc : arr val) (axes : list nat) (seg : seginfo) (n : nat) (rest : list nat).
Hypothesis Hwf : wf cc.
Hypothesis Hdef : Forall defined (data cc).

Let mask := axis_mask (length (shape cc)) axes.
Let keep_sh := select_mask mask (shape cc) false.
Let red_sh := select_mask mask (shape cc) true.
Hypothesis Hkeep : keep_sh = n :: rest.
Hypothesis Hids : length (segment_ids seg) = n.

(* every (kept, reduced) index pair addresses a legal entry of cc *)
Lemma Hlegal : forall keep red, in_bounds keep_sh keep -> In red (indices red_sh) ->
  in_bounds (shape cc) (interleave mask keep red).
Proof.
  intros keep red Hk Hr. apply interleave_in_bounds.
  - unfold mask. apply length_axis_mask.
  - exact Hk.
  - now apply in_indices.
Qed.

Let res := solve_discrete_problem_no_shocks cc (Some axes) (Some seg) tt.

(* value of the choice (sparse row [row], dense choice [red]) of state (s, r) *)
Definition entry (row : nat) (r red : list nat) : val := get VUndef cc (interleave mask (row :: r) red).
Definition srows (s : nat) : list nat := rows_of_segment (segment_ids seg) s.

Lemma get_amax keep : in_bounds keep_sh keep ->
  get VUndef (amax_axes cc axes) keep
  = fold_right vmax VNegInf (map (fun red => get VUndef cc (interleave mask keep red)) (indices red_sh)).
Proof. intros Hb. unfold amax_axes, reduce_axes. fold mask keep_sh red_sh. now rewrite get_tabulate. Qed.

Lemma inner_defined keep : in_bounds keep_sh keep ->
  Forall defined (map (fun red => get VUndef cc (interleave mask keep red)) (indices red_sh)).
Proof.
  intros Hb. apply Forall_forall. intros x Hx. apply in_map_iff in Hx. destruct Hx as (red & <- & Hin).
  apply get_defined; auto. now apply Hlegal.
Qed.

Theorem reduce_is_max_over_choices s r :
  s < num_segments seg -> in_bounds rest r ->
  let M := get VUndef res (s :: r) in
  defined M /\
  (forall row red, In row (srows s) -> In red (indices red_sh) -> vle (entry row r red) M) /\
  (M = VNegInf \/ exists row red, In row (srows s) /\ In red (indices red_sh) /\ entry row r red = M).
Proof.
  intros Hs Hr M.
  assert (Hdn : defined VNegInf) by discriminate.
  assert (Hrowb : forall row, In row (srows s) -> in_bounds keep_sh (row :: r)).
  { intros row Hin. unfold srows, rows_of_segment in Hin. apply filter_In in Hin. destruct Hin as [Hin _].
    apply in_seq in Hin. rewrite Hkeep. simpl. split; [lia|exact Hr]. }
  assert (EM : M = fold_right vmax VNegInf
                     (map (fun row => get VUndef (amax_axes cc axes) (row :: r)) (srows s))).
  { unfold M, res, solve_discrete_problem_no_shocks, segment_max_val, segment_reduce.
    change (shape (amax_axes cc axes)) with keep_sh. rewrite Hkeep. cbn [tl].
    rewrite get_tabulate by (simpl; auto). reflexivity. }
  assert (Houter : Forall defined (map (fun row => get VUndef (amax_axes cc axes) (row :: r)) (srows s))).
  { apply Forall_forall. intros x Hx. apply in_map_iff in Hx. destruct Hx as (row & <- & Hin).
    rewrite get_amax by (now apply Hrowb).
    apply (@fold_vmax_spec VNegInf _ Hdn (inner_defined _ (Hrowb row Hin))). }
  destruct (@fold_vmax_spec VNegInf _ Hdn Houter) as (HdM & _ & Hub & Hmem). rewrite <- EM in *.
  split; [exact HdM|]. split.
  - intros row red Hrow Hred.
    destruct (@fold_vmax_spec VNegInf _ Hdn (inner_defined _ (Hrowb row Hrow))) as (_ & _ & Hub2 & _).
    eapply vle_trans.
    + apply Hub2. apply in_map_iff. exists red. split; [reflexivity|exact Hred].
    + rewrite <- get_amax by (now apply Hrowb). apply Hub. apply in_map_iff. eauto.
  - destruct Hmem as [E|Hin]; [now left|].
    apply in_map_iff in Hin. destruct Hin as (row & E & Hrow).
    rewrite get_amax in E by (now apply Hrowb).
    destruct (@fold_vmax_spec VNegInf _ Hdn (inner_defined _ (Hrowb row Hrow))) as (_ & _ & _ & Hmem2).
    rewrite E in Hmem2. destruct Hmem2 as [E2|Hin2]; [now left|].
    apply in_map_iff in Hin2. destruct Hin2 as (red & E3 & Hred).
    right. exists row, red. repeat split; auto.
Qed.
End Reduce.

(* Proofs/C01_Agents.v — shared by the period theorem with filters (C01) and the decision theorem (C02): utility and    *)
(* feasibility tabulated over the continuous choice grid at arbitrary values of the other variables, and the slicing of    *)
(* argument columns at one row (an agent of the simulation, a stored combination of the state-choice space).               *)
From Coq Require Import Lqa Lia.
From LCM Require Import Base.Prelude Base.Arr Base.ArrOps Model.Dispatchers Model.DispatchersG.
From LCM Require Import Spec.Lang Proofs.ArrLemmas Proofs.ArrLemmas2 Proofs.C19_Dispatch Proofs.C19_DispatchG
                        Proofs.C01_Compose Proofs.C01_MaxCompose Proofs.C01_Period.
Local Open Scope nat_scope.

(* ---- utility and feasibility over the continuous choice grid, at arbitrary values of the other variables -------- *)
Section Tables.
Variables (dst dch cst cch : list (string * grid)) (uf : list Q -> val * bool).
Variable prevals : list Q.
Hypothesis Hlen : length prevals = length (dst ++ dch ++ cst).
Let pre := map (fun v => scalar v) prevals.
Let args0 := (pre ++ map (fun g => vec g) (gv cch))%list.

Lemma length_pre' : length pre = length (dst ++ dch ++ cst).
Proof. unfold pre. now rewrite map_length. Qed.
Lemma args0_form' : args0 = (pre ++ map (fun g => vec g) (gv cch) ++ [])%list.
Proof. unfold args0. now rewrite app_nil_r. Qed.

Lemma U_table_at : Uarr dst dch cst cch uf args0
  = tabulate (sizes cch) (fun cidx => fst (uf (prevals ++ map snd (env_of_idx cch cidx)))).
Proof.
  pose proof (bpmG_on_grids_shape (fun a => scalar (fst (ufa uf a))) (fun a => conj eq_refl eq_refl) pre (gv cch) []) as [W S].
  rewrite length_pre', <- args0_form' in W, S. fold (Uarr dst dch cst cch uf args0) in W, S.
  rewrite (arr_is_tabulate VUndef _ W), S, lengths_gv.
  unfold tabulate. f_equal. apply map_ext_in. intros cidx Hc. apply in_indices in Hc.
  pose proof (bpmG_on_grids_entry VUndef (fun a => scalar (fst (ufa uf a))) (fun a => conj eq_refl eq_refl) pre (gv cch) [] cidx) as E.
  rewrite length_pre', <- args0_form' in E. fold (Uarr dst dch cst cch uf args0) in E. rewrite E by (now rewrite lengths_gv).
  unfold ufa. rewrite app_nil_r. unfold pre. rewrite <- map_app, scalars_get, pick_gv by exact Hc. reflexivity.
Qed.

Lemma F_table_at : Farr dst dch cst cch uf args0
  = tabulate (sizes cch) (fun cidx => snd (uf (prevals ++ map snd (env_of_idx cch cidx)))).
Proof.
  pose proof (bpmG_on_grids_shape (fun a => scalar (snd (ufa uf a))) (fun a => conj eq_refl eq_refl) pre (gv cch) []) as [W S].
  rewrite length_pre', <- args0_form' in W, S. fold (Farr dst dch cst cch uf args0) in W, S.
  rewrite (arr_is_tabulate false _ W), S, lengths_gv.
  unfold tabulate. f_equal. apply map_ext_in. intros cidx Hc. apply in_indices in Hc.
  pose proof (bpmG_on_grids_entry false (fun a => scalar (snd (ufa uf a))) (fun a => conj eq_refl eq_refl) pre (gv cch) [] cidx) as E.
  rewrite length_pre', <- args0_form' in E. fold (Farr dst dch cst cch uf args0) in E. rewrite E by (now rewrite lengths_gv).
  unfold ufa. rewrite app_nil_r. unfold pre. rewrite <- map_app, scalars_get, pick_gv by exact Hc. reflexivity.
Qed.
End Tables.

(* ---- the arguments of one agent: every state column sliced at the agent's row ------------------------------------ *)
Definition at_row (cols : list (list Q)) (i : nat) : list Q := map (fun c : list Q => nth i c 0%Q) cols.
Definition vecs (cols : list (list Q)) : list qarr := map (fun c => vec c) cols.
Definition scalars (vals : list Q) : list qarr := map (fun v => scalar v) vals.

Lemma length_slice_at args mapped i : length (slice_at args mapped i) = length args.
Proof.
  unfold slice_at.
  assert (L : forall l a, length (fold_left (fun acc p => upd acc p (qslice (nth p args dflt_arr) i)) l a) = length a).
  { induction l as [|q qs IH]; intros a; [reflexivity|]. cbn [fold_left]. rewrite IH. apply length_upd. }
  apply L.
Qed.

Lemma existsb_eqb_in p l : existsb (Nat.eqb p) l = true <-> In p l.
Proof.
  rewrite existsb_exists. split.
  - intros (x & Hx & E). apply Nat.eqb_eq in E. now subst.
  - intros H. exists p. split; [exact H|apply Nat.eqb_refl].
Qed.

Lemma slice_at_blocks (colsA colsC : list (list Q)) (B D : list qarr) i :
  slice_at (vecs colsA ++ B ++ vecs colsC ++ D) (seq 0 (length colsA) ++ seq (length colsA + length B) (length colsC)) i
  = (scalars (at_row colsA i) ++ B ++ scalars (at_row colsC i) ++ D)%list.
Proof.
  set (args := (vecs colsA ++ B ++ vecs colsC ++ D)%list).
  set (mapped := (seq 0 (length colsA) ++ seq (length colsA + length B) (length colsC))%list).
  assert (LA : length (vecs colsA) = length colsA) by (unfold vecs; now rewrite map_length).
  assert (LC : length (vecs colsC) = length colsC) by (unfold vecs; now rewrite map_length).
  assert (LA' : length (scalars (at_row colsA i)) = length colsA) by (unfold scalars, at_row; now rewrite !map_length).
  assert (LC' : length (scalars (at_row colsC i)) = length colsC) by (unfold scalars, at_row; now rewrite !map_length).
  apply (nth_ext _ _ dflt_arr dflt_arr).
  - rewrite length_slice_at. unfold args. rewrite !app_length. lia.
  - intros q Hq. rewrite length_slice_at in Hq. rewrite slice_at_spec by exact Hq.
    unfold args in Hq. rewrite !app_length, LA, LC in Hq.
    destruct (Nat.lt_ge_cases q (length colsA)) as [H1|H1].
    + (* block A *)
      replace (existsb (Nat.eqb q) mapped) with true
        by (symmetry; apply existsb_eqb_in; unfold mapped; apply in_or_app; left; apply in_seq; lia).
      unfold args. rewrite !app_nth1 by lia. unfold vecs, scalars, at_row.
      rewrite (nth_indep _ dflt_arr (vec [])) by (rewrite map_length; lia). rewrite (map_nth (fun c => vec c)).
      rewrite (nth_indep (map _ (map _ colsA)) dflt_arr (scalar (nth i [] 0%Q))) by (rewrite !map_length; lia).
      rewrite map_map. rewrite (map_nth (fun c => scalar (nth i c 0%Q))). apply qslice_vec.
    + destruct (Nat.lt_ge_cases q (length colsA + length B)) as [H2|H2].
      * (* block B *)
        replace (existsb (Nat.eqb q) mapped) with false.
        2:{ symmetry. apply not_true_is_false. intros E. apply existsb_eqb_in in E. unfold mapped in E.
            apply in_app_or in E. destruct E as [E|E]; apply in_seq in E; lia. }
        unfold args. rewrite (app_nth2 (vecs colsA)) by lia. rewrite (app_nth2 (scalars _)) by lia. rewrite LA, LA'.
        rewrite !app_nth1 by lia. reflexivity.
      * destruct (Nat.lt_ge_cases q (length colsA + length B + length colsC)) as [H3|H3].
        -- (* block C *)
           replace (existsb (Nat.eqb q) mapped) with true
             by (symmetry; apply existsb_eqb_in; unfold mapped; apply in_or_app; right; apply in_seq; lia).
           unfold args. rewrite (app_nth2 (vecs colsA)) by lia. rewrite (app_nth2 (scalars _)) by lia. rewrite LA, LA'.
           rewrite (app_nth2 B) by lia. rewrite (app_nth2 B) by lia.
           rewrite !app_nth1 by lia. unfold vecs, scalars, at_row.
           rewrite (nth_indep _ dflt_arr (vec [])) by (rewrite map_length; lia). rewrite (map_nth (fun c => vec c)).
           rewrite (nth_indep (map _ (map _ colsC)) dflt_arr (scalar (nth i [] 0%Q))) by (rewrite !map_length; lia).
           rewrite map_map. rewrite (map_nth (fun c => scalar (nth i c 0%Q))). apply qslice_vec.
        -- (* block D *)
           replace (existsb (Nat.eqb q) mapped) with false.
           2:{ symmetry. apply not_true_is_false. intros E. apply existsb_eqb_in in E. unfold mapped in E.
               apply in_app_or in E. destruct E as [E|E]; apply in_seq in E; lia. }
           unfold args. rewrite (app_nth2 (vecs colsA)) by lia. rewrite (app_nth2 (scalars _)) by lia. rewrite LA, LA'.
           rewrite (app_nth2 B) by lia. rewrite (app_nth2 B) by lia.
           rewrite (app_nth2 (vecs colsC)) by lia. rewrite (app_nth2 (scalars _)) by lia. rewrite LC, LC'. reflexivity.
Qed.


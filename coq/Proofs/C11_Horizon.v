(* Proofs/C11_Horizon.v — two more laws of the specification's value tables:                         *)
(*  * beta = 0: wherever the solution is defined, every period's value is that of the one-period      *)
(*    problem of that period;                                                                         *)
(*  * if no function reads the period, the tables depend only on the number of periods to go, so      *)
(*    the solution of the T-period model is the tail of the solution of the (T+1)-period model.       *)
From Coq Require Import Lqa.
From LCM Require Import Base.Prelude Base.Arr Spec.Lang Spec.Bellman.
From LCM Require Import Proofs.Spec_Algebra Proofs.Spec_Bellman Proofs.C11_Affine.
Local Open Scope Q_scope.

(* ---- beta = 0 ---------------------------------------------------------------------------------- *)
Lemma vmaxl_defined_all l : vmaxl l <> VUndef -> forall x, In x l -> x <> VUndef.
Proof.
  unfold vmaxl. induction l as [|y r IH]; intros H x Hin; [contradiction|]. simpl in H.
  destruct Hin as [->|Hin].
  - intros ->. apply H. reflexivity.
  - apply IH; [|exact Hin]. intros E. apply H. rewrite E. now destruct y.
Qed.

Lemma Forall2_map_in {A} (f g : A -> val) l : (forall x, In x l -> veq (f x) (g x)) -> Forall2 veq (map f l) (map g l).
Proof.
  induction l as [|x r IH]; intros H; simpl; constructor; [apply H; now left|]. apply IH. intros y Hy. apply H. now right.
Qed.

Theorem beta_zero_value m p t vnext sigma :
  beta p == 0 -> value_at m p t false vnext sigma <> VUndef ->
  veq (value_at m p t false vnext sigma) (value_at m p t true vnext sigma).
Proof.
  intros Hb Hd. unfold value_at in *. apply vmaxl_compat, Forall2_map_in. intros gamma Hin.
  pose proof (vmaxl_defined_all _ Hd _ (in_map _ _ _ Hin)) as Hg. cbv beta zeta in Hg |- *.
  destruct (feasible m p _); [|reflexivity].
  unfold objective in *. destruct (eval_fun (depth m) m p _ "utility"); [|exact I].
  destruct (continuation m p vnext _); try (exfalso; now apply Hg). simpl. rewrite Hb. ring.
Qed.

(* ---- horizon invariance ------------------------------------------------------------------------ *)
Lemma assoc_app_other {A} k k' (v v' : A) base : k <> k' ->
  assoc k (base ++ [(k', v)]) = assoc k (base ++ [(k', v')]).
Proof.
  intros Hk. induction base as [|[k0 v0] r IH]; simpl.
  - destruct (String.eqb_spec k k'); [contradiction|reflexivity].
  - now rewrite IH.
Qed.

Section Horizon.
Variables (m : model) (p : params).
Hypothesis Hnp : forall f, In f (functions m) -> ~ In period_name (fargs f).

Lemma assoc_period base x y f a : In f (functions m) -> In a (fargs f) ->
  assoc a (base ++ [(period_name, x)]) = assoc a (base ++ [(period_name, y : Q)]).
Proof. intros Hf Ha. apply assoc_app_other. intros ->. exact (Hnp f Hf Ha). Qed.

Lemma eval_fun_period base x y : forall fuel name,
  eval_fun fuel m p (base ++ [(period_name, x)]) name = eval_fun fuel m p (base ++ [(period_name, y)]) name.
Proof.
  induction fuel as [|fuel IH]; intros name; [reflexivity|]. cbn [eval_fun].
  destruct (find_fun m name) as [f|] eqn:Ef; [|reflexivity].
  destruct (find_fun_in m name f Ef) as [Hin _].
  rewrite (omap_ext_in _ (fun a => match assoc a (base ++ [(period_name, y)]) with
                                 | Some v => Some v
                                 | None => match find_fun m a with
                                           | Some _ => eval_fun fuel m p (base ++ [(period_name, y)]) a
                                           | None => Some (par p (fname f) a) end end) (fargs f)); [reflexivity|].
  intros a Ha. rewrite (assoc_period base x y f a Hin Ha).
  destruct (assoc a _); [reflexivity|]. destruct (find_fun m a); [apply IH|reflexivity].
Qed.

Lemma holds_period base x y f : holds m p (base ++ [(period_name, x)]) f = holds m p (base ++ [(period_name, y)]) f.
Proof. unfold holds. now rewrite (eval_fun_period base x y). Qed.

Lemma forallb_ext_all {A} (f g : A -> bool) l : (forall x, f x = g x) -> forallb f l = forallb g l.
Proof. intros H. induction l as [|x r IH]; simpl; [reflexivity|]. now rewrite H, IH. Qed.

Lemma feasible_period base x y : feasible m p (base ++ [(period_name, x)]) = feasible m p (base ++ [(period_name, y)]).
Proof. unfold feasible. now rewrite !(forallb_ext_all _ _ _ (holds_period base x y)). Qed.

Lemma look_period base x y f a : In f (functions m) -> In a (fargs f) ->
  look (base ++ [(period_name, x)]) a = look (base ++ [(period_name, y)]) a.
Proof. intros Hf Ha. unfold look. now rewrite (assoc_period base x y f a Hf Ha). Qed.

Lemma weight_row_period base x y s :
  weight_row m p (base ++ [(period_name, x)]) s = weight_row m p (base ++ [(period_name, y)]) s.
Proof.
  unfold weight_row. destruct (find_fun m ("next_" ++ s)) as [f|] eqn:Ef; [|reflexivity]. cbn [obind].
  destruct (find_fun_in m _ f Ef) as [Hin _].
  destruct (assoc s (shocks p)); [|reflexivity]. cbn [obind].
  rewrite (omap_ext_in _ (fun d => let v := look (base ++ [(period_name, y)]) d in
                                   if Qeqb (inject_Z (Qfloor v)) v && (0 <=? Qfloor v)%Z
                                   then Some (Z.to_nat (Qfloor v)) else None) (fargs f)); [reflexivity|].
  intros d Hd. cbv zeta. now rewrite (look_period base x y f d Hin Hd).
Qed.

Lemma nodes_period base x y : forall ss,
  nodes m p (base ++ [(period_name, x)]) ss = nodes m p (base ++ [(period_name, y)]) ss.
Proof.
  induction ss as [|[s g] r IH]; [reflexivity|]. cbn [nodes]. now rewrite (weight_row_period base x y s), IH.
Qed.

Lemma continuation_period base x y vnext :
  continuation m p vnext (base ++ [(period_name, x)]) = continuation m p vnext (base ++ [(period_name, y)]).
Proof.
  unfold continuation. rewrite (nodes_period base x y).
  destruct (nodes m p _ (stoch_states m)) as [nds|]; [|reflexivity].
  apply fold_right_ext_local. intros [labels w] acc.
  rewrite (omap_ext_in _ (fun sg : string * grid => match assoc (fst sg) labels with
                                    | Some l => Some l
                                    | None => next_det m p (base ++ [(period_name, y)]) (fst sg) end) (states m));
    [reflexivity|].
  intros sg _. destruct (assoc (fst sg) labels); [reflexivity|]. unfold next_det. apply eval_fun_period.
Qed.

Lemma objective_period base x y last vnext :
  objective m p last vnext (base ++ [(period_name, x)]) = objective m p last vnext (base ++ [(period_name, y)]).
Proof. unfold objective. now rewrite (eval_fun_period base x y), (continuation_period base x y). Qed.

Lemma value_at_period t t' last vnext sigma : value_at m p t last vnext sigma = value_at m p t' last vnext sigma.
Proof.
  unfold value_at. f_equal. apply map_ext. intros gamma.
  rewrite !app_assoc.
  now rewrite (feasible_period (sigma ++ gamma) (Qofnat t) (Qofnat t')),
              (objective_period (sigma ++ gamma) (Qofnat t) (Qofnat t')).
Qed.

Lemma value_table_period t t' last vnext : value_table m p t last vnext = value_table m p t' last vnext.
Proof.
  unfold value_table, tabulate. f_equal. apply map_ext. intros idx. f_equal. apply value_at_period.
Qed.

(* the tables depend only on the number of periods to go *)
Theorem solve_from_period : forall k t t', solve_from m p t k = solve_from m p t' k.
Proof.
  induction k as [|k IH]; intros t t'; [reflexivity|]. destruct k as [|k'].
  - cbn [solve_from]. now rewrite (value_table_period t t').
  - change (solve_from m p t (S (S k'))) with
      (value_table m p t false (hd (scalar VUndef) (solve_from m p (S t) (S k'))) :: solve_from m p (S t) (S k')).
    change (solve_from m p t' (S (S k'))) with
      (value_table m p t' false (hd (scalar VUndef) (solve_from m p (S t') (S k'))) :: solve_from m p (S t') (S k')).
    now rewrite (IH (S t) (S t')), (value_table_period t t').
Qed.
End Horizon.

(* the same model with another horizon *)
Definition with_periods (n : nat) (m : model) : model := mkModel n (states m) (choices m) (functions m).

Lemma eval_fun_with_periods n m p e : forall fuel name,
  eval_fun fuel (with_periods n m) p e name = eval_fun fuel m p e name.
Proof.
  induction fuel as [|fuel IH]; intros name; [reflexivity|]. cbn [eval_fun].
  change (find_fun (with_periods n m) name) with (find_fun m name).
  destruct (find_fun m name) as [f|]; [|reflexivity].
  rewrite (omap_ext_in _ (fun a => match assoc a e with
                                 | Some v => Some v
                                 | None => match find_fun m a with
                                           | Some _ => eval_fun fuel m p e a
                                           | None => Some (par p (fname f) a) end end) (fargs f)); [reflexivity|].
  intros a _. destruct (assoc a e); [reflexivity|].
  change (find_fun (with_periods n m) a) with (find_fun m a). destruct (find_fun m a); [apply IH|reflexivity].
Qed.

Lemma nodes_with_periods n m p e : forall ss, nodes (with_periods n m) p e ss = nodes m p e ss.
Proof. induction ss as [|[s g] r IH]; [reflexivity|]. cbn [nodes]. now rewrite IH. Qed.

Lemma value_table_with_periods n m p t last vnext :
  value_table (with_periods n m) p t last vnext = value_table m p t last vnext.
Proof.
  unfold value_table, tabulate. change (state_shape (with_periods n m)) with (state_shape m).
  f_equal. apply map_ext. intros idx. f_equal.
  change (state_env (with_periods n m) idx) with (state_env m idx).
  unfold value_at. change (choices (with_periods n m)) with (choices m). f_equal. apply map_ext. intros gamma.
  cbv zeta.
  assert (Hh : forall e f, holds (with_periods n m) p e f = holds m p e f).
  { intros e f. unfold holds. change (depth (with_periods n m)) with (depth m). now rewrite eval_fun_with_periods. }
  assert (Hf : forall e, feasible (with_periods n m) p e = feasible m p e).
  { intros e. unfold feasible. change (filters (with_periods n m)) with (filters m).
    change (constraints (with_periods n m)) with (constraints m).
    now rewrite !(forallb_ext_all _ _ _ (Hh e)). }
  rewrite Hf. destruct (feasible m p _); [|reflexivity].
  unfold objective. change (depth (with_periods n m)) with (depth m). rewrite eval_fun_with_periods.
  destruct (eval_fun (depth m) m p _ "utility"); [|reflexivity]. destruct last; [reflexivity|].
  assert (Hc : forall e, continuation (with_periods n m) p (fun i => get VUndef vnext i) e
                         = continuation m p (fun i => get VUndef vnext i) e).
  { intros e. unfold continuation. change (stoch_states (with_periods n m)) with (stoch_states m).
    rewrite nodes_with_periods. destruct (nodes m p e (stoch_states m)); [|reflexivity].
    apply fold_right_ext_local. intros [labels w] acc. change (states (with_periods n m)) with (states m).
    rewrite (omap_ext_in _ (fun sg : string * grid => match assoc (fst sg) labels with
                                    | Some l => Some l | None => next_det m p e (fst sg) end) (states m)); [reflexivity|].
    intros sg _. destruct (assoc (fst sg) labels); [reflexivity|]. unfold next_det.
    change (depth (with_periods n m)) with (depth m). apply eval_fun_with_periods. }
  now rewrite Hc.
Qed.

Lemma solve_from_with_periods n m p : forall k t, solve_from (with_periods n m) p t k = solve_from m p t k.
Proof.
  induction k as [|k IH]; intros t; [reflexivity|]. destruct k as [|k'].
  - cbn [solve_from]. now rewrite value_table_with_periods.
  - change (solve_from (with_periods n m) p t (S (S k'))) with
      (value_table (with_periods n m) p t false (hd (scalar VUndef) (solve_from (with_periods n m) p (S t) (S k')))
       :: solve_from (with_periods n m) p (S t) (S k')).
    change (solve_from m p t (S (S k'))) with
      (value_table m p t false (hd (scalar VUndef) (solve_from m p (S t) (S k'))) :: solve_from m p (S t) (S k')).
    now rewrite (IH (S t)), value_table_with_periods.
Qed.

(* horizon invariance: the solution with T periods is the tail of the solution with T+1 periods *)
Theorem horizon_invariance m p T :
  (forall f, In f (functions m) -> ~ In period_name (fargs f)) -> (1 <= T)%nat ->
  tl (solve_spec (with_periods (S T) m) p) = solve_spec (with_periods T m) p.
Proof.
  intros Hnp HT. unfold solve_spec. cbn [n_periods with_periods].
  rewrite !solve_from_with_periods. destruct T as [|T']; [lia|].
  change (solve_from m p 0 (S (S T'))) with
    (value_table m p 0 false (hd (scalar VUndef) (solve_from m p 1 (S T'))) :: solve_from m p 1 (S T')).
  cbn [tl]. now apply solve_from_period.
Qed.

(* hence the values k periods before the end agree for any two horizons *)
Theorem horizon_invariance_nth m p T T' k :
  (forall f, In f (functions m) -> ~ In period_name (fargs f)) -> (k < T)%nat -> (k < T')%nat ->
  nth (T - 1 - k) (solve_spec (with_periods T m) p) (scalar VUndef)
  = nth (T' - 1 - k) (solve_spec (with_periods T' m) p) (scalar VUndef).
Proof.
  intros Hnp H1 H2. unfold solve_spec. cbn [n_periods with_periods]. rewrite !solve_from_with_periods.
  assert (G : forall n j t, (j < n)%nat ->
            nth j (solve_from m p t n) (scalar VUndef) = hd (scalar VUndef) (solve_from m p 0 (n - j))).
  { induction n as [|n IH]; intros j t Hj; [lia|]. destruct n as [|n'].
    - assert (j = 0)%nat by lia. subst. cbn [solve_from nth hd Nat.sub]. now rewrite (value_table_period m p Hnp t 0).
    - change (solve_from m p t (S (S n'))) with
        (value_table m p t false (hd (scalar VUndef) (solve_from m p (S t) (S n'))) :: solve_from m p (S t) (S n')).
      destruct j as [|j].
      + cbn [nth]. replace (S (S n') - 0)%nat with (S (S n')) by lia.
        change (solve_from m p 0 (S (S n'))) with
          (value_table m p 0 false (hd (scalar VUndef) (solve_from m p 1 (S n'))) :: solve_from m p 1 (S n')).
        cbn [hd]. now rewrite (value_table_period m p Hnp t 0), (solve_from_period m p Hnp (S n') (S t) 1%nat).
      + cbn [nth]. replace (S (S n') - S j)%nat with (S n' - j)%nat by lia. apply IH. lia. }
  rewrite (G T (T - 1 - k)%nat 0%nat) by lia. rewrite (G T' (T' - 1 - k)%nat 0%nat) by lia.
  f_equal. f_equal. lia.
Qed.

(* ---- degenerate transition rows ------------------------------------------------------------------ *)
(* An expectation whose weights are all zero except one weight 1 is, wherever it is defined, the       *)
(* value read at that node: the stochastic model then computes what the deterministic model that       *)
(* moves to that node computes.                                                                        *)
Lemma expect_zero_weights rd nds c : Forall (fun nw : env * Q => snd nw == 0) nds -> expect rd nds = VFin c -> c == 0.
Proof.
  revert c. induction nds as [|[l w] r IH]; intros c Hz H; simpl in H.
  - injection H as <-. reflexivity.
  - inversion Hz as [|? ? Hw Hr]; subst. destruct (rd l); try discriminate.
    destruct (expect rd r) as [| |c0] eqn:E; try discriminate. injection H as <-.
    rewrite (IH c0 Hr eq_refl). simpl in Hw. rewrite Hw. ring.
Qed.

Theorem expect_degenerate rd pre l0 post c :
  Forall (fun nw : env * Q => snd nw == 0) pre -> Forall (fun nw : env * Q => snd nw == 0) post ->
  expect rd (pre ++ (l0, 1) :: post) = VFin c -> exists v, rd l0 = VFin v /\ c == v.
Proof.
  revert c. induction pre as [|[l w] r IH]; intros c Hpre Hpost H.
  - cbn [app] in H. unfold expect in H. cbn [fold_right fst snd] in H. fold (expect rd post) in H.
    destruct (rd l0) as [| |v]; try discriminate. destruct (expect rd post) as [| |c0] eqn:E; try discriminate.
    injection H as <-. exists v. split; [reflexivity|]. rewrite (expect_zero_weights rd post c0 Hpost E). ring.
  - cbn [app] in H. unfold expect in H. cbn [fold_right fst snd] in H. fold (expect rd (r ++ (l0, 1) :: post)) in H.
    inversion Hpre as [|? ? Hw Hr]; subst. simpl in Hw.
    destruct (rd l); try discriminate. destruct (expect rd (r ++ (l0, 1) :: post)) as [| |c0] eqn:E; try discriminate.
    injection H as <-. destruct (IH c0 Hr Hpost eq_refl) as (v & Hv & Hc). exists v. split; [exact Hv|].
    rewrite Hw, Hc. ring.
Qed.

(* Proofs/C05_LayoutLookupIx.v — with filter-restricted states, the documented layout of the            *)
(* specification's table (Spec/Layout.v: to_layout) IS the indexed layout array of the function-           *)
(* representation capstone (Proofs/C14_OnLayoutIx.v): the entry at [rank] ++ [unrestricted discrete        *)
(* labels] ++ [continuous indices] is the table entry of the state whose restricted labels are those of    *)
(* the rank-th remaining combination.                                                                        *)
From Coq Require Import Lia.
From LCM Require Import Base.Prelude Base.Arr Spec.Lang Spec.Bellman Spec.Layout.
From LCM Require Import Proofs.ArrLemmas Proofs.ArrLemmas2 Proofs.Spec_Bellman Proofs.C14_Refine Proofs.C10_Choices
                        Proofs.C14_OnLayout Proofs.C14_OnLayoutIx Proofs.C05_LayoutLookup.
Local Open Scope nat_scope.

Section Lookup3.
Variable isr : string -> bool.

Definition rnames (sts : list (string * grid)) : list string :=
  map fst (filter (fun sg => isr (fst sg) && negb (is_cont (snd sg))) sts).
Definition fdnames (sts : list (string * grid)) : list string :=
  map fst (filter (fun sg => negb (isr (fst sg)) && negb (is_cont (snd sg))) sts).

Lemma assoc_skip {A} x s (v : A) l1 l2 : x <> s -> assoc x (l1 ++ (s, v) :: l2) = assoc x (l1 ++ l2).
Proof.
  intros H. rewrite !assoc_app. destruct (assoc x l1); [reflexivity|]. cbn [assoc].
  destruct (String.eqb_spec x s); [contradiction|reflexivity].
Qed.

Lemma assoc_notin {A} x (l : list (string * A)) : ~ In x (map fst l) -> assoc x l = None.
Proof.
  induction l as [|[k v] r IH]; intros H; [reflexivity|]. cbn [assoc].
  destruct (String.eqb_spec x k) as [->|E]; [exfalso; apply H; now left|]. apply IH. intros Hin. apply H. now right.
Qed.

Lemma fst_combine_names {B} (ks : list string) (vs : list B) : length ks = length vs -> map fst (combine ks vs) = ks.
Proof. revert vs. induction ks as [|k r IH]; intros [|v vs] H; try discriminate; [reflexivity|]. simpl. f_equal. apply IH. simpl in H. lia. Qed.

(* looking the states up by name in [restricted labels by name] ++ [free discrete names ++ continuous names -> dl ++ cidx] *)
Lemma lookup_is_merge3 : forall sts (re : ienv) dl cidx, NoDup (map fst sts) ->
  map fst re = rnames sts -> length dl = length (fdnames sts) -> length cidx = length (cnames sts) ->
  (forall sg, In sg sts -> isr (fst sg) = true -> is_cont (snd sg) = false) ->
  map (fun sg : string * grid => ilook (re ++ combine (fdnames sts ++ cnames sts) (dl ++ cidx)) (fst sg)) sts
  = merge3 isr sts (map (ilook re) (rnames sts)) dl cidx.
Proof.
  induction sts as [|[s g] r IH]; intros re dl cidx ND Hre Hd Hc Hrd; [reflexivity|].
  inversion ND as [|? ? Hnotin ND']; subst.
  assert (Hrd' : forall sg, In sg r -> isr (fst sg) = true -> is_cont (snd sg) = false) by (intros sg Hin; apply Hrd; now right).
  cbn [map fst].
  destruct g as [n|a b n].
  - (* discrete *)
    destruct (isr s) eqn:Es.
    + (* restricted *)
      unfold rnames, fdnames, cnames in *. cbn [filter fst snd is_cont negb andb map] in *. rewrite Es in *. cbn [andb negb map fst] in *.
      destruct re as [|[k0 v0] re']; [discriminate|]. cbn [map fst] in Hre. injection Hre as -> Hre'.
      cbn [merge3]. rewrite Es. cbn [map]. 
      assert (Hk : ilook ((s, v0) :: re') s = v0) by (unfold ilook; cbn [assoc]; now rewrite String.eqb_refl).
      rewrite Hk. f_equal.
      * unfold ilook. cbn [app assoc]. now rewrite String.eqb_refl.
      * assert (Emap : map (ilook ((s, v0) :: re')) (map fst (filter (fun sg : string * grid => isr (fst sg) && negb (is_cont (snd sg))) r))
                       = map (ilook re') (map fst (filter (fun sg : string * grid => isr (fst sg) && negb (is_cont (snd sg))) r))).
        { apply map_ext_in. intros x Hx. unfold ilook. cbn [assoc]. destruct (String.eqb_spec x s) as [->|E]; [|reflexivity].
          exfalso. apply Hnotin. apply in_map_iff in Hx. destruct Hx as (sg & <- & Hf). apply filter_In in Hf. apply in_map. tauto. }
        rewrite Emap. rewrite <- (IH re' dl cidx ND' Hre' Hd Hc Hrd').
        apply map_ext_in. intros sg Hin. unfold ilook. cbn [app assoc].
        destruct (String.eqb_spec (fst sg) s) as [E|E]; [|reflexivity].
        exfalso. apply Hnotin. rewrite <- E. now apply in_map.
    + (* free discrete *)
      unfold rnames, fdnames, cnames in *. cbn [filter fst snd is_cont negb andb map] in *. rewrite Es in *. cbn [andb negb map fst] in *.
      destruct dl as [|k dl']; [discriminate|]. cbn [merge3]. rewrite Es. cbn [app combine].
      assert (Hs_re : ~ In s (map fst re)).
      { rewrite Hre. intros Hin. apply Hnotin. apply in_map_iff in Hin. destruct Hin as (sg & <- & Hf). apply filter_In in Hf. apply in_map. tauto. }
      f_equal.
      * unfold ilook. rewrite assoc_app, (assoc_notin s re Hs_re). cbn [assoc]. now rewrite String.eqb_refl.
      * rewrite <- (IH re dl' cidx ND' Hre) by (trivial; simpl in Hd; lia).
        apply map_ext_in. intros sg Hin. unfold ilook.
        rewrite (assoc_skip (fst sg) s k re) by (intros E; apply Hnotin; rewrite <- E; now apply in_map). reflexivity.
  - (* continuous: never restricted *)
    assert (Es : isr s = false).
    { destruct (isr s) eqn:E; [|reflexivity]. specialize (Hrd (s, GLin a b n) (or_introl eq_refl) E). discriminate. }
    unfold rnames, fdnames, cnames in *. cbn [filter fst snd is_cont negb andb map] in *. rewrite ?andb_false_r in *. cbn [map fst] in *.
    destruct cidx as [|i ci']; [discriminate|]. cbn [merge3].
    set (dn := map fst (filter (fun sg : string * grid => negb (isr (fst sg)) && negb (is_cont (snd sg))) r)) in *.
    set (cn := map fst (filter (fun sg : string * grid => is_cont (snd sg)) r)) in *.
    rewrite (combine_app' dn dl (s :: cn) (i :: ci')) by (symmetry; exact Hd). cbn [combine].
    assert (Hs_re : ~ In s (map fst re)).
    { rewrite Hre. intros Hin. apply Hnotin. apply in_map_iff in Hin. destruct Hin as (sg & <- & Hf). apply filter_In in Hf. apply in_map. tauto. }
    assert (Hs_dn : ~ In s dn).
    { intros Hin. apply Hnotin. unfold dn in Hin. apply in_map_iff in Hin. destruct Hin as (sg & <- & Hf). apply filter_In in Hf. apply in_map. tauto. }
    f_equal.
    + unfold ilook. rewrite assoc_app, (assoc_notin s re Hs_re), assoc_app.
      rewrite (assoc_notin s (combine dn dl)) by (rewrite fst_combine_names by (symmetry; exact Hd); exact Hs_dn).
      cbn [assoc]. now rewrite String.eqb_refl.
    + rewrite <- (IH re dl ci' ND' Hre Hd) by (trivial; simpl in Hc; lia). fold dn. fold cn.
      rewrite (combine_app' dn dl cn ci') by (symmetry; exact Hd).
      apply map_ext_in. intros sg Hin. unfold ilook. rewrite app_assoc.
      rewrite (assoc_skip (fst sg) s i (re ++ combine dn dl)) by (intros E; apply Hnotin; rewrite <- E; now apply in_map).
      now rewrite <- app_assoc.
Qed.
End Lookup3.

Lemma filter_ext_in' {A} (f g : A -> bool) l : (forall x, In x l -> f x = g x) -> filter f l = filter g l.
Proof.
  induction l as [|x r IH]; intros H; simpl; [reflexivity|]. rewrite (H x (or_introl eq_refl)).
  rewrite IH; [reflexivity|]. intros y Hy. apply H. now right.
Qed.

Lemma nth_map_lt3' {A B} (f : A -> B) l j d d' : j < length l -> nth j (map f l) d = f (nth j l d').
Proof. revert j. induction l as [|x r IH]; intros [|j] H; simpl in *; try lia; auto. apply IH. lia. Qed.

Lemma iassignments_keys : forall vars ie, In ie (iassignments vars) -> map fst ie = map fst vars.
Proof.
  induction vars as [|[x g] r IH]; intros ie H.
  - cbn in H. destruct H as [<-|[]]. reflexivity.
  - cbn [iassignments] in H. apply in_flat_map in H. destruct H as (i & _ & H). apply in_map_iff in H.
    destruct H as (ie' & <- & Hin). cbn [map fst]. f_equal. now apply IH.
Qed.

Section WithFilters.
Variables (m : model) (p : params) (t : nat) (tab : arr val).
Let sts := states m.
Let isr := is_restricted m.
Hypothesis Hnd : NoDup (map fst sts).
(* filter-restricted states are discrete (a continuous variable in a filter is a C12 known finding) *)
Hypothesis Hrd : forall sg, In sg sts -> isr (fst sg) = true -> is_cont (snd sg) = false.
Hypothesis Hhas : has_restricted_states m = true.

Lemma restricted_are_rnames : map fst (restricted_states m) = rnames isr sts.
Proof.
  unfold restricted_states, rnames. f_equal. apply filter_ext_in'. intros sg Hin. fold isr.
  destruct (isr (fst sg)) eqn:E; [|reflexivity]. now rewrite (Hrd sg Hin E).
Qed.
Lemma free_discrete_are_fdnames : map fst (free_discrete_states m) = fdnames isr sts.
Proof. reflexivity. Qed.
Lemma free_continuous_are_cnames : map fst (free_continuous_states m) = cnames sts.
Proof.
  unfold free_continuous_states, cnames. f_equal. apply filter_ext_in'. intros sg Hin. fold isr.
  destruct (isr (fst sg)) eqn:E; [|reflexivity]. now rewrite (Hrd sg Hin E).
Qed.

Lemma sizes_fd : map (fun sg : string * grid => grid_size (snd sg)) (free_discrete_states m) = fdsizes isr sts.
Proof.
  unfold free_discrete_states. fold isr. fold sts. clear. induction sts as [|[s g] r IH]; [reflexivity|].
  cbn [filter fst snd fdsizes]. destruct g as [n|a b n]; cbn [is_cont negb andb].
  - destruct (isr s); cbn [negb andb map snd grid_size]; now rewrite IH.
  - rewrite andb_false_r. exact IH.
Qed.
Lemma sizes_fc : map (fun sg : string * grid => grid_size (snd sg)) (free_continuous_states m) = cont_sizes sts.
Proof.
  unfold free_continuous_states. fold isr. fold sts.
  assert (G : forall l, (forall sg, In sg l -> isr (fst sg) = true -> is_cont (snd sg) = false) ->
            map (fun sg : string * grid => grid_size (snd sg)) (filter (fun sg => negb (isr (fst sg)) && is_cont (snd sg)) l) = cont_sizes l).
  { induction l as [|[s g] r IH]; intros H; [reflexivity|]. cbn [filter fst snd cont_sizes].
    destruct g as [n|a b n]; cbn [is_cont].
    - rewrite andb_false_r. apply IH. intros sg Hin. apply H. now right.
    - assert (E : isr s = false).
      { destruct (isr s) eqn:E; [|reflexivity]. specialize (H (s, GLin a b n) (or_introl eq_refl) E). discriminate. }
      rewrite E. cbn [negb andb map snd grid_size]. f_equal. apply IH. intros sg Hin. apply H. now right. }
  apply G. exact Hrd.
Qed.

(* the remaining restricted-state combinations as label tuples in the order of the restricted states *)
Definition remaining_labels : list (list nat) :=
  map (fun ie : ienv => map (ilook ie) (rnames isr sts)) (remaining_states m p t).

Theorem expected_shape_with_filters :
  expected_shape m p t = (length remaining_labels :: fdsizes isr sts ++ cont_sizes sts)%list.
Proof. unfold expected_shape. rewrite Hhas, sizes_fd, sizes_fc. unfold remaining_labels. now rewrite map_length. Qed.

Theorem to_layout_is_the_indexed_layout_array r rest :
  in_bounds (expected_shape m p t) (r :: rest) ->
  get VUndef (to_layout m p t tab) (r :: rest)
  = get VUndef tab (merge3 isr sts (nth r remaining_labels []) (firstn (length (fdsizes isr sts)) rest)
                           (skipn (length (fdsizes isr sts)) rest)).
Proof.
  intros Hb. rewrite (layout_entry m p t tab (r :: rest) Hb). f_equal.
  unfold state_at. rewrite Hhas, free_discrete_are_fdnames, free_continuous_are_cnames.
  rewrite expected_shape_with_filters in Hb. destruct Hb as [Hr Hrest].
  unfold remaining_labels in Hr. rewrite map_length in Hr.
  set (re := nth r (remaining_states m p t) []).
  assert (Hre : map fst re = rnames isr sts).
  { rewrite <- restricted_are_rnames. apply iassignments_keys.
    assert (Hin : In re (remaining_states m p t)) by (apply nth_In; exact Hr).
    unfold remaining_states in Hin. apply filter_In in Hin. tauto. }
  assert (Hl : length rest = (length (fdsizes isr sts) + length (cont_sizes sts))%nat).
  { rewrite (in_bounds_length _ _ Hrest), app_length. reflexivity. }
  assert (H1 : length (firstn (length (fdsizes isr sts)) rest) = length (fdnames isr sts)).
  { rewrite firstn_length. unfold fdnames. rewrite map_length.
    assert (E : length (filter (fun sg : string * grid => negb (isr (fst sg)) && negb (is_cont (snd sg))) sts) = length (fdsizes isr sts)).
    { clear. induction sts as [|[s g] r' IH]; [reflexivity|]. cbn [filter fst snd fdsizes]. destruct g; cbn [is_cont negb andb].
      - destruct (isr s); cbn [negb andb length]; now rewrite IH.
      - rewrite andb_false_r. exact IH. }
    rewrite E. lia. }
  assert (H2 : length (skipn (length (fdsizes isr sts)) rest) = length (cnames sts)).
  { rewrite skipn_length, length_dnames_cont. lia. }
  pose proof (lookup_is_merge3 isr sts re (firstn (length (fdsizes isr sts)) rest) (skipn (length (fdsizes isr sts)) rest)
                Hnd Hre H1 H2 Hrd) as L.
  rewrite (firstn_skipn (length (fdsizes isr sts)) rest) in L.
  etransitivity; [exact L|]. f_equal. unfold remaining_labels.
  symmetry. apply (nth_map_lt3' (fun ie : ienv => map (ilook ie) (rnames isr sts)) (remaining_states m p t) r [] []). exact Hr.
Qed.
End WithFilters.

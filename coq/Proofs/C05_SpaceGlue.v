(* Proofs/C05_SpaceGlue.v — about the regenerated glue of create_state_choice_space                 *)
(* (Gen/StateSpaceGlue.v) and its consistency with the regenerated choice axes (Gen/ChoiceAxes.v):    *)
(* the axes that survive the reduction over the dense choices are, in order, the axis names the        *)
(* space info announces (what the function representation of the NEXT period's lookup relies on).      *)
From Coq Require Import Lia.
From LCM Require Import Base.Prelude Gen.ChoiceAxes Gen.StateSpaceGlue Proofs.C18_ChoiceAxes.
Local Open Scope nat_scope.

Lemma filter_filter {A} (f g : A -> bool) l : filter f (filter g l) = filter (fun x => g x && f x) l.
Proof. induction l as [|x r IH]; simpl; [reflexivity|]. destruct (g x); simpl; [destruct (f x); now rewrite IH|exact IH]. Qed.

Lemma filter_ext_in' {A} (f g : A -> bool) l : (forall x, In x l -> f x = g x) -> filter f l = filter g l.
Proof.
  induction l as [|x r IH]; intros H; simpl; [reflexivity|]. rewrite (H x (or_introl eq_refl)).
  rewrite IH; [reflexivity|]. intros y Hy. apply H. now right.
Qed.

Section Plan.
Variables (vi0 : list varinfo) (period : nat) (is_last_period : bool).
Let vi := if is_last_period then filter (fun v => negb (is_auxiliary v)) vi0 else vi0.
Let plan := create_state_choice_space_plan vi0 period is_last_period.
(* every variable is either a state or a choice *)
Hypothesis Hkind : forall v, In v vi -> is_state v = negb (is_choice v).

(* the dense axes that are not choices are, in order, the dense state axes of the space info *)
Theorem surviving_dense_axes_are_the_announced_ones :
  map vname (filter (fun v => negb (is_choice v)) (dense_layout vi))
  = (if existsb (fun v => is_sparse v && is_state v) vi then tl (axis_names plan) else axis_names plan).
Proof.
  unfold plan, create_state_choice_space_plan. fold vi. cbn [axis_names].
  assert (E : map vname (filter (fun v => negb (is_choice v)) (dense_layout vi))
              = map vname (filter (fun v => is_dense v && is_state v) vi)).
  { unfold dense_layout. rewrite filter_filter. f_equal. apply filter_ext_in'. intros v Hv.
    rewrite (Hkind v Hv). destruct (is_dense v), (is_choice v), (is_continuous v); reflexivity. }
  rewrite E. destruct (existsb _ vi); reflexivity.
Qed.

Theorem state_index_axis_iff_sparse_states :
  (exists r, axis_names plan = "state_index"%string :: r /\ has_state_indexer plan = true)
  \/ (has_state_indexer plan = false /\ indexer_axis_names plan = None).
Proof.
  unfold plan, create_state_choice_space_plan. fold vi. cbn [axis_names has_state_indexer indexer_axis_names].
  destruct (existsb (fun v => is_sparse v && is_state v) vi); [left; eexists; split; reflexivity|right; split; reflexivity].
Qed.

Theorem filters_are_evaluated_at_the_period : filters_at_period plan = period.
Proof. reflexivity. Qed.

Theorem mask_and_combination_grid_use_the_same_variables : sparse_subset plan = grid_subset plan.
Proof. reflexivity. Qed.

Theorem indexer_exists_iff_a_sparse_state : forall n, n_sparse_states plan = Some n ->
  (has_state_indexer plan = true <-> 1 <= n).
Proof.
  unfold plan, create_state_choice_space_plan. fold vi. cbn [n_sparse_states has_state_indexer].
  destruct (existsb is_sparse vi); [|discriminate]. intros n H. injection H as <-.
  generalize vi. clear. intros l. induction l as [|v r IH]; cbn [existsb filter length]; [split; [discriminate|lia]|].
  destruct (is_sparse v && is_state v); cbn [orb length]; [split; [lia|reflexivity]|exact IH].
Qed.
End Plan.

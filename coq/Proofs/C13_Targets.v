(* Proofs/C13_Targets.v — the additional targets of the panel, as the regenerated _compute_targets computes them         *)
(* (Gen/ComputeTargets.v): entry j of a target's column is the target function evaluated at the values of row j.       *)
From Coq Require Import Lia.
From LCM Require Import Base.Prelude Base.Arr Model.Dispatchers Gen.ComputeTargets.
From LCM Require Import Proofs.ArrLemmas Proofs.C19_Dispatch.
Local Open Scope nat_scope.

Lemma index_of_nth_nodup : forall (l : list string) i, NoDup l -> i < length l -> index_of (nth i l ""%string) l = Some i.
Proof.
  induction l as [|x r IH]; intros i Hn Hi; [simpl in Hi; lia|]. inversion Hn as [|? ? Hx Hn']; subst. destruct i as [|i'].
  - cbn [nth index_of]. now rewrite String.eqb_refl.
  - cbn [nth index_of]. destruct (String.eqb_spec (nth i' r ""%string) x) as [E|E].
    + exfalso. apply Hx. rewrite <- E. apply nth_In. simpl in Hi. lia.
    + rewrite IH; [reflexivity|exact Hn'|simpl in Hi; lia].
Qed.

Lemma positions_of_signature (f : func) : NoDup (params f) -> map (pos_of f) (params f) = seq 0 (length (params f)).
Proof.
  intros Hn. apply (nth_ext _ _ 0 0); [now rewrite map_length, seq_length|]. intros i Hi. rewrite map_length in Hi.
  rewrite (nth_indep _ 0 (pos_of f ""%string)) by (now rewrite map_length).
  rewrite (map_nth (pos_of f)), seq_nth by exact Hi. unfold pos_of. now rewrite index_of_nth_nodup.
Qed.

Lemma qslice_vec' l j : qslice (vec l) j = scalar (nth j l 0%Q).
Proof.
  unfold qslice, slice, vec, tabulate, scalar, get. cbn [shape data tl indices map ravel size].
  now rewrite Nat.mul_1_r, Nat.add_0_r.
Qed.

Lemma slice_at_all_vectors (cols : list (list Q)) j :
  slice_at (map (fun c => vec c) cols) (seq 0 (length cols)) j = map (fun c : list Q => scalar (nth j c 0%Q)) cols.
Proof.
  apply (nth_ext _ _ dflt_arr dflt_arr).
  - unfold slice_at.
    assert (L : forall l a, length (fold_left (fun acc p => upd acc p (qslice (nth p (map (fun c => vec c) cols) dflt_arr) j)) l a) = length a).
    { induction l as [|q qs IH]; intros a; [reflexivity|]. cbn [fold_left]. rewrite IH. apply length_upd. }
    rewrite L. now rewrite !map_length.
  - intros q Hq.
    assert (Hq' : q < length cols).
    { unfold slice_at in Hq.
      assert (L : forall l a, length (fold_left (fun acc p => upd acc p (qslice (nth p (map (fun c => vec c) cols) dflt_arr) j)) l a) = length a).
      { induction l as [|x xs IH]; intros a; [reflexivity|]. cbn [fold_left]. rewrite IH. apply length_upd. }
      rewrite L, map_length in Hq. exact Hq. }
    rewrite slice_at_spec by (now rewrite map_length).
    replace (existsb (Nat.eqb q) (seq 0 (length cols))) with true.
    2:{ symmetry. apply existsb_exists. exists q. split; [apply in_seq; lia|apply Nat.eqb_refl]. }
    rewrite (nth_indep _ dflt_arr (vec [])) by (now rewrite map_length). rewrite (map_nth (fun c => vec c)).
    rewrite (nth_indep (map _ cols) dflt_arr ((fun c : list Q => scalar (nth j c 0%Q)) [])) by (now rewrite map_length).
    rewrite (map_nth (fun c : list Q => scalar (nth j c 0%Q))). apply qslice_vec'.
Qed.

Lemma select_keeps (variables : list string) (processed : list (string * qarr)) v :
  In v variables -> lookup (ct_select variables processed) v = lookup processed v.
Proof.
  intros Hin. unfold lookup, ct_select. induction processed as [|[k a] r IH]; [reflexivity|]. cbn [filter fst].
  destruct (mem_str k variables) eqn:Ek.
  - cbn [assoc]. destruct (String.eqb v k); [reflexivity|exact IH].
  - cbn [assoc]. destruct (String.eqb_spec v k) as [->|Hne]; [|exact IH].
    exfalso. unfold mem_str in Ek. apply Bool.not_true_iff_false in Ek. apply Ek. apply existsb_exists. exists k. split; [exact Hin|apply String.eqb_refl].
Qed.

Section Targets.
Variables (signature : list string) (target_at : string -> list qarr -> qarr).
Hypothesis Hscalar : forall tn a, wf (target_at tn a) /\ shape (target_at tn a) = [].
Let variables := ct_variables signature.
Hypothesis Hnd : NoDup variables.
Hypothesis Hvars : variables <> [].
(* the processed results: every variable of the target function has a column, all of the same length n *)
Variables (processed : list (string * qarr)) (cols : list (list Q)) (n : nat).
Hypothesis Hcols : map (lookup processed) variables = map (fun c => vec c) cols.
Hypothesis Hlen : Forall (fun c : list Q => length c = n) cols.

Lemma target_column_shape tn :
  shape (vmap_1d_named (mkFunc variables (target_at tn)) variables (ct_select variables processed)) = [n].
Proof.
  unfold vmap_1d_named.
  pose proof (positions_of_signature (mkFunc variables (target_at tn)) Hnd) as Hpos. cbn [params] in Hpos.
  cbn [params fn]. rewrite Hpos.
  assert (Eargs : map (lookup (ct_select variables processed)) variables = map (fun c => vec c) cols).
  { rewrite <- Hcols. apply map_ext_in. intros v Hv. now apply select_keeps. }
  rewrite Eargs.
  assert (Lc : length cols = length variables) by (rewrite <- (map_length (fun c => vec c) cols), <- Hcols; now rewrite map_length).
  rewrite <- Lc. unfold vmap_1d.
  rewrite (vmap_shape (target_at tn) (seq 0 (length cols)) (map (fun c => vec c) cols) [] (fun i => Hscalar tn _)).
  f_equal. destruct cols as [|c0 r]; [exfalso; apply Hvars; destruct variables; [reflexivity|discriminate]|].
  cbn [length seq hd map nth]. inversion Hlen as [|? ? Hc0 Hr]; subst. unfold lead, vec. cbn [shape hd]. reflexivity.
Qed.

(* entry j of the column computed for target tn is the target function at the values of row j *)
Theorem target_entry_is_row_evaluation tn j : j < n ->
  let col := vmap_1d_named (mkFunc variables (target_at tn)) variables (ct_select variables processed) in
  qget col [j] = qget (target_at tn (map (fun c : list Q => scalar (nth j c 0%Q)) cols)) [] /\ shape col = [n].
Proof.
  intros Hj col. unfold col, vmap_1d_named.
  pose proof (positions_of_signature (mkFunc variables (target_at tn)) Hnd) as Hpos. cbn [params] in Hpos.
  cbn [params fn]. rewrite Hpos.
  assert (Eargs : map (lookup (ct_select variables processed)) variables = map (fun c => vec c) cols).
  { rewrite <- Hcols. apply map_ext_in. intros v Hv. now apply select_keeps. }
  rewrite Eargs.
  assert (Lc : length cols = length variables) by (rewrite <- (map_length (fun c => vec c) cols), <- Hcols; now rewrite map_length).
  rewrite <- Lc.
  assert (Hlead : lead (nth (hd 0 (seq 0 (length cols))) (map (fun c => vec c) cols) dflt_arr) = n).
  { destruct cols as [|c0 r]; [exfalso; apply Hvars; destruct variables; [reflexivity|discriminate]|].
    cbn [length seq hd map nth]. inversion Hlen as [|? ? Hc0 Hr]; subst. unfold lead, vec. cbn [shape hd]. reflexivity. }
  destruct (vmap_1d_get (target_at tn) (seq 0 (length cols)) (map (fun c => vec c) cols) [] j [] (Hscalar tn) ltac:(rewrite Hlead; exact Hj) I) as [E S].
  rewrite E, S, Hlead, slice_at_all_vectors. split; reflexivity.
Qed.

(* the list the function returns: one column per requested target, in the order of the request *)
Theorem compute_targets_columns targets :
  compute_targets signature target_at targets processed
  = map (fun tn => (tn, vmap_1d_named (mkFunc variables (target_at tn)) variables (ct_select variables processed))) targets.
Proof. reflexivity. Qed.
End Targets.

Theorem target_columns_are_row_evaluations :
  forall (signature : list string) (target_at : string -> list qarr -> qarr),
  (forall tn a, wf (target_at tn a) /\ shape (target_at tn a) = []) ->
  NoDup (ct_variables signature) -> ct_variables signature <> [] ->
  forall (processed : list (string * qarr)) (cols : list (list Q)) (n : nat),
  map (lookup processed) (ct_variables signature) = map (fun c => vec c) cols ->
  Forall (fun c : list Q => length c = n) cols ->
  forall targets,
  map fst (compute_targets signature target_at targets processed) = targets /\
  forall tn col, In (tn, col) (compute_targets signature target_at targets processed) ->
    shape col = [n] /\
    forall j, j < n -> qget col [j] = qget (target_at tn (map (fun c : list Q => scalar (nth j c 0%Q)) cols)) [].
Proof.
  intros sg tat Hs Hnd Hv processed cols n Hc Hl targets. split.
  - unfold compute_targets. rewrite map_map. cbn [fst]. apply map_id.
  - intros tn col Hin. unfold compute_targets in Hin. apply in_map_iff in Hin. destruct Hin as [tn' [E _]]. inversion E; subst tn' col.
    split.
    + apply (target_column_shape sg tat Hs Hnd Hv processed cols n Hc Hl tn).
    + intros j Hj. apply (target_entry_is_row_evaluation sg tat Hs Hnd Hv processed cols n Hc Hl tn j Hj).
Qed.

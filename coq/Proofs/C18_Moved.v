(* Proofs/C18_Moved.v — index plumbing of _move_axes_to_back + _flatten_last_n_axes        *)
(* (as translated in Gen/Argmax.v): entry (outer ++ [k]) of the moved/flattened array is     *)
(* the entry of the original array at the index that has [outer] on the kept axes and        *)
(* [unravel k] on the reduced axes.                                                          *)
From LCM Require Import Base.Prelude Base.Arr Base.ArrOps Gen.Argmax.
From LCM Require Import Proofs.ArrLemmas Proofs.ArrLemmas2.
Local Open Scope nat_scope.

Definition perm_of (rank : nat) (axes : list nat) : list nat := front_axes rank axes ++ axes.

(* the index of the original array addressed by (outer, inner) *)
Definition orig_index (rank : nat) (axes outer inner : list nat) : list nat :=
  map (fun ax => match index_of_nat ax (perm_of rank axes) with
                 | Some j => nth j (outer ++ inner) 0
                 | None => 0 end) (seq 0 rank).

Definition front_shape (sh axes : list nat) : list nat :=
  map (fun p => nth p sh 0) (front_axes (length sh) axes).
Definition inner_shape (sh axes : list nat) : list nat := map (fun p => nth p sh 0) axes.

Definition moved {A} (d : A) (a : arr A) (axes : list nat) : arr A :=
  flatten_last_n_axes d (move_axes_to_back d a axes) (length axes).

Lemma firstn_length_app {B} (l1 l2 : list B) : firstn (length l1) (l1 ++ l2) = l1.
Proof. induction l1 as [|x r IH]; simpl; [reflexivity|]. now rewrite IH. Qed.
Lemma skipn_length_app {B} (l1 l2 : list B) : skipn (length l1) (l1 ++ l2) = l2.
Proof. induction l1 as [|x r IH]; simpl; [reflexivity|]. exact IH. Qed.

Lemma moved_shape {A} (d : A) (a : arr A) axes :
  shape (moved d a axes) = front_shape (shape a) axes ++ [size (inner_shape (shape a) axes)].
Proof.
  unfold moved, flatten_last_n_axes, reshape_flatten_last, move_axes_to_back, transpose_to, transpose.
  cbn [shape tabulate reshape]. rewrite map_app.
  fold (front_shape (shape a) axes). fold (inner_shape (shape a) axes).
  assert (E : length (front_shape (shape a) axes ++ inner_shape (shape a) axes) - length axes
              = length (front_shape (shape a) axes)).
  { rewrite app_length. unfold inner_shape. rewrite map_length. lia. }
  rewrite E, firstn_length_app, skipn_length_app. reflexivity.
Qed.

Lemma moved_get {A} (d : A) (a : arr A) axes outer k :
  in_bounds (front_shape (shape a) axes) outer -> k < size (inner_shape (shape a) axes) ->
  get d (moved d a axes) (outer ++ [k])
  = get d a (orig_index (length (shape a)) axes outer (unravel (inner_shape (shape a) axes) k)).
Proof.
  intros Hb Hk.
  pose proof (moved_shape d a axes) as Hs.
  rewrite get_as_nth, Hs.
  rewrite ravel_app by (now apply in_bounds_length).
  unfold moved, flatten_last_n_axes, reshape_flatten_last. cbn [data reshape].
  unfold move_axes_to_back, transpose_to, transpose.
  set (tsh := map (fun p => nth p (shape a) 0) (front_axes (length (shape a)) axes ++ axes)).
  assert (Et : tsh = front_shape (shape a) axes ++ inner_shape (shape a) axes).
  { unfold tsh. now rewrite map_app. }
  set (F := fun idx => get d a (map (fun ax => match index_of_nat ax (front_axes (length (shape a)) axes ++ axes) with
                                                | Some j => nth j idx 0 | None => 0 end)
                                     (seq 0 (length (shape a))))).
  assert (Hin : in_bounds tsh (outer ++ unravel (inner_shape (shape a) axes) k)).
  { rewrite Et. apply in_bounds_app; [exact Hb|]. now apply unravel_in_bounds. }
  pose proof (get_tabulate _ d tsh F _ Hin) as G. rewrite get_as_nth in G. cbn [shape data tabulate] in G.
  rewrite Et in G at 1. rewrite ravel_app in G by (now apply in_bounds_length).
  rewrite ravel_unravel in G by exact Hk.
  replace (ravel (front_shape (shape a) axes) outer * size [size (inner_shape (shape a) axes)]
           + ravel [size (inner_shape (shape a) axes)] [k])
    with (ravel (front_shape (shape a) axes) outer * size (inner_shape (shape a) axes) + k)
    by (simpl; lia).
  fold tsh. cbn [data tabulate]. rewrite G. reflexivity.
Qed.

(* ---- the addressed index is a legal index of the original array ----------------- *)
Lemma index_of_nat_some l : forall x, In x l ->
  exists j, index_of_nat x l = Some j /\ j < length l /\ nth j l 0 = x.
Proof.
  induction l as [|y r IH]; intros x Hin; [destruct Hin|].
  simpl. destruct (Nat.eqb_spec x y) as [->|Hne].
  - exists 0. simpl. repeat split; lia.
  - destruct Hin as [->|Hin]; [congruence|].
    destruct (IH x Hin) as (j & E & Hj & Hn). rewrite E. exists (S j). simpl. repeat split; auto; lia.
Qed.

Lemma index_of_nat_nodup l : NoDup l -> forall j, j < length l -> index_of_nat (nth j l 0) l = Some j.
Proof.
  induction 1 as [|y r Hy Hr IH]; intros j Hj; simpl in *; [lia|].
  destruct j as [|j].
  - now rewrite Nat.eqb_refl.
  - destruct (Nat.eqb_spec (nth j r 0) y) as [E|_].
    + exfalso. apply Hy. rewrite <- E. apply nth_In. lia.
    + rewrite IH by lia. reflexivity.
Qed.

Lemma perm_covers rank axes ax : ax < rank -> In ax (perm_of rank axes).
Proof.
  intros H. unfold perm_of, front_axes. apply in_or_app.
  destruct (existsb (Nat.eqb ax) axes) eqn:E.
  - right. apply existsb_exists in E. destruct E as (y & Hy & E). apply Nat.eqb_eq in E. now subst.
  - left. apply filter_In. split; [apply in_seq; lia|]. now rewrite E.
Qed.

Lemma in_bounds_nth sh : forall idx, in_bounds sh idx ->
  forall j, j < length sh -> nth j idx 0 < nth j sh 0.
Proof.
  induction sh as [|n r IH]; intros [|i js] H j Hj; simpl in *; try tauto; try lia.
  destruct H as [Hi Hjs]. destruct j as [|j]; [exact Hi|]. apply IH; [exact Hjs|lia].
Qed.

Lemma in_bounds_map_seq sh (g : nat -> nat) :
  (forall ax, ax < length sh -> g ax < nth ax sh 0) -> in_bounds sh (map g (seq 0 (length sh))).
Proof.
  assert (G : forall sh s (g : nat -> nat), (forall ax, ax < length sh -> g (s + ax) < nth ax sh 0) ->
              in_bounds sh (map g (seq s (length sh)))).
  { clear. induction sh as [|n r IH]; intros s g H; simpl; [exact I|]. split.
    - specialize (H 0). simpl in H. rewrite Nat.add_0_r in H. apply H. lia.
    - apply IH. intros ax Hax. specialize (H (S ax)). simpl in H.
      replace (S s + ax) with (s + S ax) by lia. apply H. lia. }
  intros H. apply G. intros ax Hax. simpl. now apply H.
Qed.

Lemma orig_index_in_bounds sh axes outer inner :
  in_bounds (front_shape sh axes) outer -> in_bounds (inner_shape sh axes) inner ->
  in_bounds sh (orig_index (length sh) axes outer inner).
Proof.
  intros Ho Hi. unfold orig_index. apply in_bounds_map_seq. intros ax Hax.
  destruct (index_of_nat_some _ _ (@perm_covers (length sh) axes ax Hax)) as (j & E & Hj & Hn).
  rewrite E. rewrite <- Hn.
  pose proof (in_bounds_app _ _ _ _ Ho Hi) as Hb.
  unfold front_shape, inner_shape in Hb. rewrite <- map_app in Hb. fold (perm_of (length sh) axes) in Hb.
  pose proof (in_bounds_nth _ _ Hb j) as Hlt. rewrite map_length in Hlt. specialize (Hlt Hj).
  assert (En : nth j (map (fun p => nth p sh 0) (perm_of (length sh) axes)) 0
               = nth (nth j (perm_of (length sh) axes) 0) sh 0).
  { rewrite (nth_indep _ 0 ((fun p => nth p sh 0) 0)) by (now rewrite map_length).
    apply (map_nth (fun p => nth p sh 0)). }
  now rewrite En in Hlt.
Qed.

(* ---- and it carries [outer] on the kept axes and [inner] on the reduced axes ------ *)
Lemma nodup_app {B} (l1 l2 : list B) :
  NoDup l1 -> NoDup l2 -> (forall x, In x l1 -> In x l2 -> False) -> NoDup (l1 ++ l2).
Proof.
  induction 1 as [|x r Hx Hr IH]; intros H2 Hd; simpl; [exact H2|].
  constructor.
  - intro Hin. apply in_app_or in Hin. destruct Hin as [Hin|Hin]; [tauto|]. apply (Hd x); simpl; auto.
  - apply IH; [exact H2|]. intros y Hy1 Hy2. apply (Hd y); simpl; auto.
Qed.

Lemma orig_index_spec rank axes outer inner j :
  NoDup axes -> (forall ax, In ax axes -> ax < rank) -> j < length (perm_of rank axes) ->
  nth (nth j (perm_of rank axes) 0) (orig_index rank axes outer inner) 0 = nth j (outer ++ inner) 0.
Proof.
  intros Hnd Hr Hj.
  assert (Hperm : NoDup (perm_of rank axes)).
  { unfold perm_of. apply nodup_app.
    - unfold front_axes. apply NoDup_filter, seq_NoDup.
    - exact Hnd.
    - intros x Hf Ha. unfold front_axes in Hf. apply filter_In in Hf. destruct Hf as [_ Hf].
      apply negb_true_iff in Hf. assert (existsb (Nat.eqb x) axes = true); [|congruence].
      apply existsb_exists. exists x. split; [exact Ha|apply Nat.eqb_refl]. }
  assert (Hlt : nth j (perm_of rank axes) 0 < rank).
  { unfold perm_of in *. rewrite app_length in Hj.
    destruct (Nat.lt_ge_cases j (length (front_axes rank axes))) as [L|L].
    - rewrite app_nth1 by exact L.
      assert (In (nth j (front_axes rank axes) 0) (front_axes rank axes)) by (now apply nth_In).
      unfold front_axes in H at 2. apply filter_In in H. destruct H as [H _]. apply in_seq in H. lia.
    - rewrite app_nth2 by exact L. apply Hr. apply nth_In. lia. }
  unfold orig_index.
  set (g := fun ax => match index_of_nat ax (perm_of rank axes) with
                      | Some j0 => nth j0 (outer ++ inner) 0 | None => 0 end).
  rewrite (nth_indep _ 0 (g 0)) by (now rewrite map_length, seq_length).
  rewrite (map_nth g), seq_nth by exact Hlt. unfold g. simpl.
  now rewrite index_of_nat_nodup.
Qed.

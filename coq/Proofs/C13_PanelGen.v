(* Proofs/C13_PanelGen.v — the regenerated panel construction (Gen/PanelGen.v) IS the model of        *)
(* Model/Panel.v that C13's theorems are about.                                                          *)
From Coq Require Import Lia.
From LCM Require Import Base.Prelude Model.Panel Gen.PanelGen.
Local Open Scope nat_scope.

Theorem gen_process_simulated_data_is_model results : gen_process_simulated_data results = process_simulated_data results.
Proof. unfold gen_process_simulated_data, process_simulated_data. cbv zeta. now rewrite map_map. Qed.

Theorem gen_panel_index_is_model n_periods n_initial_states : 0 < n_periods ->
  gen_panel_index (n_periods * n_initial_states) n_periods = panel_index n_periods n_initial_states.
Proof.
  intros H. unfold gen_panel_index, panel_index. cbv zeta.
  replace (n_periods * n_initial_states / n_periods) with n_initial_states; [reflexivity|].
  rewrite Nat.mul_comm. symmetry. apply Nat.div_mul. lia.
Qed.

(* Proofs/ArrLemmas.v — characterising lemmas of the L0 array library.          *)
From LCM Require Import Base.Prelude Base.Arr.
Local Open Scope nat_scope.

Section ArrLemmas.
Variable A : Type.
Variable d : A.

Lemma length_indices sh : length (indices sh) = size sh.
Proof.
  induction sh as [|n r IH]; simpl; [reflexivity|].
  assert (H: forall k s, length (flat_map (fun i => map (cons i) (indices r)) (seq s k)) = k * size r).
  { induction k as [|k IHk]; intros s; simpl; [reflexivity|].
    rewrite app_length, map_length, IH, IHk. reflexivity. }
  apply H.
Qed.

Lemma nth_flat_map_const (B : Type) (db : B) (g : nat -> list B) (m : nat) :
  forall k s i j, (forall x, length (g x) = m) -> i < k -> j < m ->
  nth (i * m + j) (flat_map g (seq s k)) db = nth j (g (s + i)) db.
Proof.
  induction k as [|k IH]; intros s i j Hlen Hi Hj; [lia|].
  simpl. destruct i as [|i].
  - rewrite app_nth1 by (rewrite Hlen; lia). simpl. now rewrite Nat.add_0_r.
  - rewrite app_nth2 by (rewrite Hlen; simpl; lia).
    rewrite Hlen. replace (S i * m + j - m) with (i * m + j) by (simpl; lia).
    rewrite IH by (auto; lia). f_equal. f_equal. lia.
Qed.

Lemma ravel_lt sh : forall idx, in_bounds sh idx -> ravel sh idx < size sh.
Proof.
  induction sh as [|n r IH]; intros [|i js] H; simpl in *; try tauto; try lia.
  destruct H as [Hi Hjs]. specialize (IH _ Hjs). nia.
Qed.

Lemma nth_indices sh : forall idx, in_bounds sh idx -> nth (ravel sh idx) (indices sh) [] = idx.
Proof.
  induction sh as [|n r IH]; intros [|i js] H; simpl in *; try tauto.
  destruct H as [Hi Hjs].
  rewrite (@nth_flat_map_const _ [] (fun i => map (cons i) (indices r)) (size r)); auto.
  - simpl. pose proof (ravel_lt _ _ Hjs) as Hlt.
    rewrite <- (length_indices r) in Hlt.
    rewrite (nth_indep _ [] (i :: [])) by (rewrite map_length; exact Hlt).
    change (i :: []) with ((cons i) []). rewrite map_nth. now rewrite IH.
  - intros x. now rewrite map_length, length_indices.
  - now apply ravel_lt.
Qed.

Theorem get_tabulate sh (f : list nat -> A) idx :
  in_bounds sh idx -> get d (tabulate sh f) idx = f idx.
Proof.
  intros H. unfold get, tabulate; simpl.
  pose proof (ravel_lt _ _ H) as Hlt. rewrite <- length_indices in Hlt.
  rewrite (nth_indep _ d (f [])) by (now rewrite map_length).
  rewrite map_nth. now rewrite nth_indices.
Qed.

Lemma wf_tabulate sh (f : list nat -> A) : wf (tabulate sh f).
Proof. unfold wf, tabulate; simpl. now rewrite map_length, length_indices. Qed.

Lemma shape_tabulate sh (f : list nat -> A) : shape (tabulate sh f) = sh.
Proof. reflexivity. Qed.

Lemma in_bounds_iff sh : forall idx, in_boundsb sh idx = true <-> in_bounds sh idx.
Proof.
  induction sh as [|n r IH]; intros [|i js]; simpl; try tauto; try (split; [discriminate|tauto]).
  rewrite andb_true_iff, Nat.ltb_lt, IH. tauto.
Qed.

Lemma in_bounds_length sh : forall idx, in_bounds sh idx -> length idx = length sh.
Proof.
  induction sh as [|n r IH]; intros [|i js] H; simpl in *; try tauto.
  f_equal. apply IH. tauto.
Qed.

Lemma in_indices sh : forall idx, In idx (indices sh) <-> in_bounds sh idx.
Proof.
  induction sh as [|n r IH]; intros idx; simpl.
  - destruct idx; simpl; split; intros H; try tauto; try (destruct H as [H|H]; [discriminate|tauto]).
  - rewrite in_flat_map. split.
    + intros (i & Hi & Hin). apply in_map_iff in Hin. destruct Hin as (js & <- & Hjs).
      apply in_seq in Hi. split; [lia|]. now apply IH.
    + destruct idx as [|i js]; [tauto|]. intros [Hi Hjs]. exists i. split.
      * apply in_seq. lia.
      * apply in_map. now apply IH.
Qed.

(* unravel inverts ravel *)
Lemma size_pos_of_in_bounds sh : forall idx, in_bounds sh idx -> 0 < size sh.
Proof. intros idx H. pose proof (ravel_lt _ _ H). lia. Qed.

Lemma unravel_ravel sh : forall idx, in_bounds sh idx -> unravel sh (ravel sh idx) = idx.
Proof.
  induction sh as [|n r IH]; intros [|i js] H; simpl in *; try tauto.
  destruct H as [Hi Hjs]. pose proof (ravel_lt _ _ Hjs) as Hlt.
  assert (Hpos : size r <> 0) by lia.
  f_equal.
  - rewrite Nat.div_add_l by exact Hpos. rewrite Nat.div_small by exact Hlt. lia.
  - rewrite Nat.add_comm, Nat.mod_add by exact Hpos. rewrite Nat.mod_small by exact Hlt. now apply IH.
Qed.

Lemma unravel_in_bounds sh : forall k, k < size sh -> in_bounds sh (unravel sh k).
Proof.
  induction sh as [|n r IH]; intros k Hk; simpl in *; [exact I|].
  assert (Hpos : size r <> 0) by (intro E; rewrite E in Hk; lia).
  split.
  - apply Nat.div_lt_upper_bound; [exact Hpos|]. lia.
  - apply IH. now apply Nat.mod_upper_bound.
Qed.

Lemma ravel_unravel sh : forall k, k < size sh -> ravel sh (unravel sh k) = k.
Proof.
  induction sh as [|n r IH]; intros k Hk; simpl in *; [lia|].
  assert (Hpos : size r <> 0) by (intro E; rewrite E in Hk; lia).
  rewrite IH by (now apply Nat.mod_upper_bound).
  rewrite (Nat.div_mod k (size r)) at 3 by exact Hpos. lia.
Qed.
End ArrLemmas.

(* Proofs/Refine_StateSpace.v — refinement of the state-choice space: the combinations stored by *)
(* the array-level model (Model/StateSpace.v, on the filter mask over the restricted variables    *)
(* in canonical order) are exactly the combinations of the specification (Spec/Layout.v).          *)
From LCM Require Import Base.Prelude Base.Arr Base.ArrOps Spec.Lang Spec.Bellman Spec.Layout Model.StateSpace.
From LCM Require Import Proofs.ArrLemmas Proofs.ArrLemmas2 Proofs.C17_StateSpace.
Local Open Scope nat_scope.

Definition var_sizes (vars : list (string * grid)) : list nat := map (fun sg => grid_size (snd sg)) vars.
Definition as_ienv (vars : list (string * grid)) (idx : list nat) : ienv := combine (map fst vars) idx.

(* the filter mask as create_filter_mask builds it: the logical_and-aggregated filters mapped over
   the product of the restricted grids in canonical order (restricted states, then restricted
   choices); by C19 the entry at idx is the filters evaluated at the idx-th grid points *)
Definition restricted_vars (m : model) := (restricted_states m ++ restricted_choices m)%list.
Definition filter_mask (m : model) (p : params) (t : nat) : arr bool :=
  tabulate (var_sizes (restricted_vars m))
           (fun idx => passes m p t (env_of (restricted_vars m) (as_ienv (restricted_vars m) idx))).

Lemma iassignments_as_indices vars :
  iassignments vars = map (as_ienv vars) (indices (var_sizes vars)).
Proof.
  induction vars as [|[x g] r IH]; [reflexivity|].
  cbn [iassignments var_sizes map indices fst snd]. fold (var_sizes r).
  rewrite map_flat_map. apply flat_map_ext_in. intros i _.
  rewrite IH, !map_map. reflexivity.
Qed.

Lemma filter_ext_in {A} (f g : A -> bool) l : (forall x, In x l -> f x = g x) -> filter f l = filter g l.
Proof.
  induction l as [|x r IH]; intros H; simpl; [reflexivity|].
  rewrite (H x) by (now left). rewrite IH; [reflexivity|]. intros y Hy. apply H. now right.
Qed.

(* R1: the stored combinations of the array model are the specification's, in the same order *)
Theorem stored_combinations_refined m p t :
  stored_combinations m p t
  = map (as_ienv (restricted_vars m)) (true_positions (filter_mask m p t)).
Proof.
  unfold stored_combinations. fold (restricted_vars m).
  rewrite iassignments_as_indices, filter_map_comm. f_equal.
  unfold true_positions, filter_mask. cbn [shape tabulate].
  apply filter_ext_in. intros idx Hin. apply in_indices in Hin.
  symmetry. now rewrite get_tabulate.
Qed.

Theorem stored_combinations_count m p t :
  length (stored_combinations m p t) = length (true_positions (filter_mask m p t)).
Proof. rewrite stored_combinations_refined. apply map_length. Qed.

(* ---- R2: the restricted states that remain in the space ------------------------------------- *)
Lemma assoc_app {A} k (l1 l2 : list (string * A)) :
  assoc k (l1 ++ l2) = match assoc k l1 with Some v => Some v | None => assoc k l2 end.
Proof.
  induction l1 as [|[k' v] r IH]; simpl; [reflexivity|]. destruct (String.eqb k k'); [reflexivity|exact IH].
Qed.

Lemma assoc_combine_none {A} k : forall (ns : list string) (vs : list A), ~ In k ns -> assoc k (combine ns vs) = None.
Proof.
  induction ns as [|n r IH]; intros vs H; [reflexivity|]. destruct vs as [|v vs]; [reflexivity|].
  simpl. destruct (String.eqb_spec k n) as [->|Hne]; [exfalso; apply H; now left|].
  apply IH. intro X. apply H. now right.
Qed.

Lemma assoc_combine_some {A} k : forall (ns : list string) (vs : list A), In k ns -> length ns = length vs ->
  exists v, assoc k (combine ns vs) = Some v.
Proof.
  induction ns as [|n r IH]; intros vs H HL; [destruct H|]. destruct vs as [|v vs]; [discriminate|].
  simpl. destruct (String.eqb_spec k n) as [->|Hne]; [eauto|].
  apply IH; [destruct H; [congruence|assumption]|]. now injection HL.
Qed.

Lemma combine_app {A B} : forall (l1 : list A) (m1 : list B) l2 m2, length l1 = length m1 ->
  combine (l1 ++ l2) (m1 ++ m2) = (combine l1 m1 ++ combine l2 m2)%list.
Proof.
  induction l1 as [|x r IH]; intros [|y m1] l2 m2 H; simpl in *; try discriminate; [reflexivity|].
  f_equal. apply IH. now injection H.
Qed.

Lemma NoDup_app_remove_mid_local {A} (l1 l2 : list A) x :
  NoDup (l1 ++ l2) -> In x l1 -> In x l2 -> False.
Proof.
  induction l1 as [|y r IH]; intros H H1 H2; [destruct H1|].
  simpl in H. inversion H as [|? ? Hn Hr]; subst. destruct H1 as [->|H1].
  - apply Hn. apply in_or_app. now right.
  - now apply IH.
Qed.

Lemma firstn_length_app_local {B} (l1 l2 : list B) : firstn (length l1) (l1 ++ l2) = l1.
Proof. induction l1 as [|x r IH]; simpl; [reflexivity|]. now rewrite IH. Qed.
Lemma skipn_length_app_local {B} (l1 l2 : list B) : skipn (length l1) (l1 ++ l2) = l2.
Proof. induction l1 as [|x r IH]; simpl; [reflexivity|]. exact IH. Qed.
Lemma existsb_map_local {A B} (f : B -> bool) (g : A -> B) l : existsb f (map g l) = existsb (fun x => f (g x)) l.
Proof. induction l as [|x r IH]; simpl; [reflexivity|]. now rewrite IH. Qed.
Lemma existsb_ext_in_local {A} (f g : A -> bool) l : (forall x, In x l -> f x = g x) -> existsb f l = existsb g l.
Proof.
  induction l as [|x r IH]; intros H; simpl; [reflexivity|].
  rewrite (H x) by (now left). rewrite IH; [reflexivity|]. intros y Hy. apply H. now right.
Qed.

Section Remaining.
Variables (m : model) (p : params) (t : nat).
Let rs := restricted_states m.
Let rc := restricted_choices m.
Hypothesis Hnodup : NoDup (map fst (rs ++ rc)).

Lemma env_of_split si ci : length si = length rs -> length ci = length rc ->
  env_of (restricted_vars m) (as_ienv (restricted_vars m) (si ++ ci))
  = (env_of rs (as_ienv rs si) ++ env_of rc (as_ienv rc ci))%list.
Proof.
  intros Hs Hc. unfold restricted_vars, env_of, as_ienv. fold rs rc.
  rewrite map_app at 1. rewrite (map_app fst), combine_app by (now rewrite map_length).
  f_equal.
  - apply map_ext_in. intros [x g] Hin. cbn [fst snd]. f_equal. f_equal. unfold ilook. rewrite assoc_app.
    destruct (assoc_combine_some x (map fst rs) si) as [v Ev];
      [apply in_map_iff; exists (x, g); auto|now rewrite map_length|]. now rewrite Ev.
  - apply map_ext_in. intros [x g] Hin. cbn [fst snd]. f_equal. f_equal. unfold ilook. rewrite assoc_app.
    rewrite assoc_combine_none; [reflexivity|].
    intro Hx. rewrite map_app in Hnodup. apply (NoDup_app_remove_mid_local _ _ x Hnodup Hx).
    apply in_map_iff. exists (x, g). auto.
Qed.

Let mask := filter_mask m p t.
Let n := length rs.

Lemma sizes_split : shape mask = (var_sizes rs ++ var_sizes rc)%list.
Proof. unfold mask, filter_mask, restricted_vars, var_sizes. cbn [shape tabulate]. fold rs rc. apply map_app. Qed.

Lemma state_shape_is : state_shape_of mask n = var_sizes rs.
Proof.
  unfold state_shape_of. rewrite sizes_split. unfold n.
  replace (length rs) with (length (var_sizes rs)) by (unfold var_sizes; apply map_length).
  apply firstn_length_app_local.
Qed.
Lemma choice_shape_is : choice_shape_of mask n = var_sizes rc.
Proof.
  unfold choice_shape_of. rewrite sizes_split. unfold n.
  replace (length rs) with (length (var_sizes rs)) by (unfold var_sizes; apply map_length).
  apply skipn_length_app_local.
Qed.

Lemma mask_entry si ci : in_bounds (var_sizes rs) si -> in_bounds (var_sizes rc) ci ->
  get false mask (si ++ ci)
  = passes m p t (env_of rs (as_ienv rs si) ++ env_of rc (as_ienv rc ci))%list.
Proof.
  intros Hs Hc. unfold mask, filter_mask.
  rewrite get_tabulate.
  - rewrite env_of_split; [reflexivity| |].
    + apply in_bounds_length in Hs. now rewrite Hs; unfold var_sizes; rewrite map_length.
    + apply in_bounds_length in Hc. now rewrite Hc; unfold var_sizes; rewrite map_length.
  - unfold restricted_vars, var_sizes. fold rs rc. rewrite map_app. now apply in_bounds_app.
Qed.

(* R2: the restricted states kept by the array model are the specification's remaining states *)
Theorem remaining_states_refined :
  remaining_states m p t = map (as_ienv rs) (feasible_states mask n).
Proof.
  unfold remaining_states, feasible_states.
  change (restricted_states m) with rs. change (restricted_choices m) with rc.
  rewrite (iassignments_as_indices rs), filter_map_comm, state_shape_is. f_equal.
  apply filter_ext_in. intros si Hsi. apply in_indices in Hsi.
  unfold has_passing. rewrite choice_shape_is, (iassignments_as_indices rc).
  rewrite existsb_map_local. apply existsb_ext_in_local. intros ci Hci. apply in_indices in Hci.
  symmetry. now apply mask_entry.
Qed.
End Remaining.

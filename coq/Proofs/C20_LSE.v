(* Proofs/C20_LSE.v — C20: the numerically stable segment-wise log-sum-exp and the *)
(* extreme-value EMAX aggregation built on it (Gen/SegLSE.v, translated from       *)
(* src/lcm/discrete_problem.py).                                                   *)
(*                                                                                 *)
(* Contents                                                                        *)
(*   Part 0  real-number helpers (monotonicity of exp/ln, Rsum, Rmaxl)             *)
(*   Part 1  list-level facts about  lse_scaled scale l = scale*ln(Σ exp(x/scale)) *)
(*           lse_bounds, lse_shift, lse_limit, lse_perm                            *)
(*   Part 2  array plumbing (get of amap / amap2 / segment ops / take)             *)
(*   Part 3  segment_lse_exact, segment_lse_no_overflow,                           *)
(*           segment_emax_is_scaled_lse                                            *)
(*   Part 4  calculate_emax_extreme_value_shocks: None/None, segments, dense axes  *)
(*   Part 5  corollaries: segment_emax_bounds, segment_emax_shift, layout          *)
(*           irrelevance (axes vs segments)                                        *)
(* Everything is proved by unfolding the generated definitions; no axioms beyond   *)
(* those of the standard library's Reals.                                          *)
From Coq Require Import Reals Lra Lia Permutation.
From LCM Require Import Base.Prelude Base.Arr Base.ArrOps Base.RBase Gen.SegLSE Proofs.ArrLemmas.
Local Open Scope R_scope.

(* ========================================================================= *)
(* Part 0: real-number helpers                                               *)
(* ========================================================================= *)

Lemma exp_le_mono x y : x <= y -> exp x <= exp y.
Proof.
  intros [H|H]; [left; now apply exp_increasing | subst; right; reflexivity].
Qed.

Lemma ln_le_mono x y : 0 < x -> x <= y -> ln x <= ln y.
Proof.
  intros Hx [H|H]; [left; now apply ln_increasing | subst; right; reflexivity].
Qed.

Lemma Rsum_cons x l : Rsum (x :: l) = x + Rsum l.
Proof. reflexivity. Qed.

Lemma Rsum_nonneg l : (forall x, In x l -> 0 <= x) -> 0 <= Rsum l.
Proof.
  induction l as [|y l IH]; intros H; simpl; [lra|].
  assert (0 <= y) by (apply H; now left).
  assert (0 <= Rsum l) by (apply IH; intros x Hx; apply H; now right).
  lra.
Qed.

Lemma Rsum_ge_in l y : (forall x, In x l -> 0 <= x) -> In y l -> y <= Rsum l.
Proof.
  induction l as [|z l IH]; intros H Hin; simpl in *; [tauto|].
  assert (Hz : 0 <= z) by (apply H; now left).
  assert (Hl : 0 <= Rsum l) by (apply Rsum_nonneg; intros x Hx; apply H; now right).
  destruct Hin as [->|Hin]; [lra|].
  assert (y <= Rsum l) by (apply IH; [intros x Hx; apply H; now right|exact Hin]).
  lra.
Qed.

Lemma Rsum_le_len l c : (forall x, In x l -> x <= c) -> Rsum l <= INR (List.length l) * c.
Proof.
  induction l as [|z l IH]; intros H.
  - simpl. lra.
  - rewrite Rsum_cons. change (List.length (z :: l)) with (S (List.length l)).
    rewrite S_INR.
    assert (z <= c) by (apply H; now left).
    assert (Rsum l <= INR (List.length l) * c) by (apply IH; intros x Hx; apply H; now right).
    lra.
Qed.

Lemma Rsum_map_scal {B} c (f : B -> R) l :
  Rsum (map (fun x => c * f x) l) = c * Rsum (map f l).
Proof. induction l as [|z l IH]; simpl; [lra|]. rewrite IH. lra. Qed.

Lemma Rsum_perm l l' : Permutation l l' -> Rsum l = Rsum l'.
Proof. induction 1; simpl; lra. Qed.

Lemma Rsum_map_exp_nonneg {B} (g : B -> R) l : 0 <= Rsum (map (fun x => exp (g x)) l).
Proof.
  induction l as [|z l IH]; simpl; [lra|]. pose proof (exp_pos (g z)). lra.
Qed.

Lemma Rsum_map_exp_pos {B} (g : B -> R) l :
  l <> [] -> 0 < Rsum (map (fun x => exp (g x)) l).
Proof.
  destruct l as [|z l]; [congruence|]. intros _. simpl.
  pose proof (exp_pos (g z)). pose proof (Rsum_map_exp_nonneg g l). lra.
Qed.

(* Rmaxl: upper bound of the list, and attained *)
Lemma fold_Rmax_spec x r :
  In (fold_right Rmax x r) (x :: r) /\ forall z, In z (x :: r) -> z <= fold_right Rmax x r.
Proof.
  induction r as [|y r [IHin IHge]].
  - simpl. split; [now left|]. intros z [<-|[]]. lra.
  - change (fold_right Rmax x (y :: r)) with (Rmax y (fold_right Rmax x r)).
    set (m := fold_right Rmax x r) in *. split.
    + unfold Rmax. destruct (Rle_dec y m).
      * destruct IHin as [E|Hin]; [left; exact E|right; right; exact Hin].
      * right; left; reflexivity.
    + intros z [<-|[<-|Hz]].
      * apply Rle_trans with m; [apply IHge; now left|apply Rmax_r].
      * apply Rmax_l.
      * apply Rle_trans with m; [apply IHge; now right|apply Rmax_r].
Qed.

Lemma Rmaxl_in l : l <> [] -> In (Rmaxl l) l.
Proof. destruct l as [|x r]; [congruence|]. intros _. apply fold_Rmax_spec. Qed.

Lemma Rmaxl_ge l x : In x l -> x <= Rmaxl l.
Proof. destruct l as [|y r]; [intros []|]. intros H. now apply fold_Rmax_spec. Qed.

Lemma INR_length_pos {B} (l : list B) : l <> [] -> 1 <= INR (List.length l).
Proof.
  destruct l as [|x r]; [congruence|]. intros _.
  change (List.length (x :: r)) with (S (List.length r)). rewrite S_INR.
  pose proof (pos_INR (List.length r)). lra.
Qed.

(* ========================================================================= *)
(* Part 1: list-level log-sum-exp                                            *)
(* ========================================================================= *)

(* the max-subtraction trick is exact, for ANY subtracted constant m *)
Lemma Rsum_exp_shift {B} (g : B -> R) m l :
  Rsum (map (fun x => exp (g x - m)) l) = exp (- m) * Rsum (map (fun x => exp (g x)) l).
Proof.
  rewrite <- Rsum_map_scal. f_equal. apply map_ext. intros x.
  rewrite <- exp_plus. f_equal. lra.
Qed.

Lemma lse_stable_eq {B} (g : B -> R) m l :
  l <> [] ->
  m + ln (Rsum (map (fun x => exp (g x - m)) l)) = ln (Rsum (map (fun x => exp (g x)) l)).
Proof.
  intros Hl. rewrite Rsum_exp_shift.
  rewrite ln_mult; [|apply exp_pos|now apply Rsum_map_exp_pos].
  rewrite ln_exp. lra.
Qed.

(* with m the maximum: every exponent is <= 0 and the sum lies in [1, n] *)
Lemma stable_sum_bounds {B} (g : B -> R) l :
  l <> [] ->
  1 <= Rsum (map (fun x => exp (g x - Rmaxl (map g l))) l) <= INR (List.length l).
Proof.
  intros Hl. set (m := Rmaxl (map g l)).
  assert (Hne : map g l <> []) by (destruct l; [congruence|discriminate]).
  split.
  - destruct (proj1 (in_map_iff g l m) (Rmaxl_in _ Hne)) as (x0 & Hx0 & Hin).
    apply Rsum_ge_in.
    + intros y Hy. apply in_map_iff in Hy. destruct Hy as (x & <- & _).
      left. apply exp_pos.
    + apply in_map_iff. exists x0. split; [|exact Hin].
      rewrite Hx0. replace (m - m) with 0 by lra. apply exp_0.
  - rewrite <- (map_length (fun x => exp (g x - m)) l).
    rewrite <- (Rmult_1_r (INR _)). apply Rsum_le_len.
    intros y Hy. apply in_map_iff in Hy. destruct Hy as (x & <- & Hin).
    rewrite <- exp_0. apply exp_le_mono.
    assert (g x <= m) by (apply Rmaxl_ge; now apply in_map). lra.
Qed.

Definition lse_scaled (scale : R) (l : list R) : R :=
  scale * ln (Rsum (map (fun x => exp (x / scale)) l)).

Theorem lse_bounds scale l :
  0 < scale -> l <> [] ->
  Rmaxl l <= lse_scaled scale l <= Rmaxl l + scale * ln (INR (List.length l)).
Proof.
  intros Hs Hl. unfold lse_scaled.
  set (m := Rmaxl l). set (S := Rsum (map (fun x => exp (x / scale)) l)).
  assert (Hinv : 0 < / scale) by now apply Rinv_0_lt_compat.
  assert (Hlo : exp (m / scale) <= S).
  { apply Rsum_ge_in.
    - intros y Hy. apply in_map_iff in Hy. destruct Hy as (x & <- & _). left. apply exp_pos.
    - apply (in_map (fun x => exp (x / scale))). now apply Rmaxl_in. }
  assert (Hhi : S <= INR (List.length l) * exp (m / scale)).
  { unfold S. rewrite <- (map_length (fun x => exp (x / scale)) l). apply Rsum_le_len.
    intros y Hy. apply in_map_iff in Hy. destruct Hy as (x & <- & Hin).
    apply exp_le_mono. unfold Rdiv. apply Rmult_le_compat_r; [lra|]. now apply Rmaxl_ge. }
  assert (Hn : 0 < INR (List.length l)) by (pose proof (INR_length_pos l Hl); lra).
  assert (HS : 0 < S) by (pose proof (exp_pos (m / scale)); lra).
  assert (L1 : m / scale <= ln S).
  { rewrite <- (ln_exp (m / scale)). apply ln_le_mono; [apply exp_pos|exact Hlo]. }
  assert (L2 : ln S <= ln (INR (List.length l)) + m / scale).
  { rewrite <- (ln_exp (m / scale)). rewrite <- ln_mult; [|exact Hn|apply exp_pos].
    apply ln_le_mono; [exact HS|exact Hhi]. }
  assert (E : scale * (m / scale) = m) by (field; lra).
  split.
  - rewrite <- E. apply Rmult_le_compat_l; [lra|exact L1].
  - apply Rle_trans with (scale * (ln (INR (List.length l)) + m / scale)).
    + apply Rmult_le_compat_l; [lra|exact L2].
    + rewrite Rmult_plus_distr_l, E. lra.
Qed.

Theorem lse_shift scale l c :
  0 < scale -> l <> [] ->
  lse_scaled scale (map (fun x => x + c) l) = lse_scaled scale l + c.
Proof.
  intros Hs Hl. unfold lse_scaled. rewrite map_map.
  rewrite (map_ext (fun x => exp ((x + c) / scale))
                   (fun x => exp (c / scale) * exp (x / scale))).
  2:{ intros x. rewrite <- exp_plus. f_equal. unfold Rdiv. ring. }
  rewrite Rsum_map_scal.
  rewrite ln_mult; [|apply exp_pos|now apply (Rsum_map_exp_pos (fun x => x / scale))].
  rewrite ln_exp. field. lra.
Qed.

Theorem lse_limit scale l :
  0 < scale -> l <> [] ->
  forall eps, 0 < eps -> scale * ln (INR (List.length l) + 1) < eps ->
  Rabs (lse_scaled scale l - Rmaxl l) < eps.
Proof.
  intros Hs Hl eps Heps Hsmall.
  destruct (lse_bounds scale l Hs Hl) as [Hlo Hhi].
  pose proof (INR_length_pos l Hl) as Hn.
  assert (ln (INR (List.length l)) <= ln (INR (List.length l) + 1))
    by (apply ln_le_mono; lra).
  assert (scale * ln (INR (List.length l)) <= scale * ln (INR (List.length l) + 1))
    by (apply Rmult_le_compat_l; lra).
  apply Rabs_def1; lra.
Qed.

Theorem lse_perm scale l l' :
  Permutation l l' -> lse_scaled scale l = lse_scaled scale l'.
Proof.
  intros H. unfold lse_scaled. f_equal. f_equal. apply Rsum_perm. now apply Permutation_map.
Qed.

(* ========================================================================= *)
(* Part 2: array plumbing                                                    *)
(* ========================================================================= *)

Lemma nth_map_lt {A B} (f : A -> B) l k d d' :
  (k < List.length l)%nat -> nth k (map f l) d' = f (nth k l d).
Proof.
  intros H. rewrite (nth_indep _ d' (f d)) by (now rewrite map_length). apply map_nth.
Qed.

Lemma nth_zip_with {A B C} (f : A -> B -> C) da db dc :
  forall l1 l2 k, (k < List.length l1)%nat -> (k < List.length l2)%nat ->
  nth k (zip_with f l1 l2) dc = f (nth k l1 da) (nth k l2 db).
Proof.
  induction l1 as [|x l1 IH]; intros [|y l2] [|k] H1 H2; simpl in *; try lia; auto.
  apply IH; lia.
Qed.

Lemma length_zip_with {A B C} (f : A -> B -> C) :
  forall l1 l2, List.length l1 = List.length l2 ->
  List.length (zip_with f l1 l2) = List.length l1.
Proof.
  induction l1 as [|x l1 IH]; intros [|y l2] H; simpl in *; try lia. f_equal. apply IH. lia.
Qed.

Lemma wf_amap {A B} (f : A -> B) a : wf a -> wf (amap f a).
Proof. unfold wf, amap; simpl. now rewrite map_length. Qed.

Lemma wf_amap2 {A B C} (f : A -> B -> C) a b :
  wf a -> wf b -> shape a = shape b -> wf (amap2 f a b).
Proof.
  unfold wf, amap2; simpl. intros Ha Hb Hsh.
  rewrite length_zip_with; [exact Ha|]. rewrite Ha, Hb, Hsh. reflexivity.
Qed.

Lemma get_amap {A B} (f : A -> B) a d d' idx :
  wf a -> in_bounds (shape a) idx -> get d' (amap f a) idx = f (get d a idx).
Proof.
  intros Hwf Hin. unfold get, amap; simpl.
  apply nth_map_lt. rewrite Hwf. now apply ravel_lt.
Qed.

Lemma get_amap2 {A B C} (f : A -> B -> C) a b da db dc idx :
  wf a -> wf b -> shape a = shape b -> in_bounds (shape a) idx ->
  get dc (amap2 f a b) idx = f (get da a idx) (get db b idx).
Proof.
  intros Ha Hb Hsh Hin. unfold get, amap2; simpl. rewrite <- Hsh.
  pose proof (ravel_lt _ _ Hin) as Hlt.
  apply nth_zip_with; [rewrite Ha; exact Hlt|rewrite Hb, <- Hsh; exact Hlt].
Qed.

Lemma rget_amap (f : R -> R) (a : rarr) idx :
  wf a -> in_bounds (shape a) idx -> rget (amap f a) idx = f (rget a idx).
Proof. intros. unfold rget. now apply get_amap. Qed.

Lemma rget_amap2 (f : R -> R -> R) (a b : rarr) idx :
  wf a -> wf b -> shape a = shape b -> in_bounds (shape a) idx ->
  rget (amap2 f a b) idx = f (rget a idx) (rget b idx).
Proof. intros. unfold rget. now apply get_amap2. Qed.

Lemma rget_segment_max (a : rarr) ids num s rest :
  (s < num)%nat -> in_bounds (tl (shape a)) rest ->
  rget (r_segment_max a ids num) (s :: rest)
  = Rmaxl (map (fun r => rget a (r :: rest)) (rows_of_segment ids s)).
Proof.
  intros Hs Hin. unfold rget at 1, r_segment_max.
  rewrite get_tabulate; [reflexivity|]. simpl. auto.
Qed.

Lemma rget_segment_sum (a : rarr) ids num s rest :
  (s < num)%nat -> in_bounds (tl (shape a)) rest ->
  rget (r_segment_sum a ids num) (s :: rest)
  = Rsum (map (fun r => rget a (r :: rest)) (rows_of_segment ids s)).
Proof.
  intros Hs Hin. unfold rget at 1, r_segment_sum.
  rewrite get_tabulate; [reflexivity|]. simpl. auto.
Qed.

Lemma rget_take (a : rarr) ids r rest :
  (r < List.length ids)%nat -> in_bounds (tl (shape a)) rest ->
  rget (r_take a ids) (r :: rest) = rget a (nth r ids 0%nat :: rest).
Proof.
  intros Hr Hin. unfold rget at 1, r_take, take_lead.
  rewrite get_tabulate; [reflexivity|]. simpl. auto.
Qed.

(* ========================================================================= *)
(* Part 3: the segment-wise log-sum-exp                                      *)
(* ========================================================================= *)

Definition seg_ok (a : rarr) (seg : seginfo) : Prop :=
  wf a /\
  (exists n rest, shape a = n :: rest /\ List.length (segment_ids seg) = n) /\
  Forall (fun s => (s < num_segments seg)%nat) (segment_ids seg).

Definition rows (seg : seginfo) (s : nat) : list nat :=
  rows_of_segment (segment_ids seg) s.

Lemma rows_in seg s r :
  In r (rows seg s) ->
  (r < List.length (segment_ids seg))%nat /\ nth r (segment_ids seg) 0%nat = s.
Proof.
  unfold rows, rows_of_segment. intros H. apply filter_In in H. destruct H as [H1 H2].
  apply in_seq in H1. apply Nat.eqb_eq in H2. split; [lia|exact H2].
Qed.

Lemma seg_ok_row_in_bounds a seg s rest r :
  seg_ok a seg -> in_bounds (tl (shape a)) rest -> In r (rows seg s) ->
  in_bounds (shape a) (r :: rest).
Proof.
  intros (_ & (n & sh & Hsh & Hlen) & _) Hin Hr.
  apply rows_in in Hr. destruct Hr as [Hr _].
  rewrite Hsh in *. simpl in *. split; [lia|exact Hin].
Qed.

Lemma seg_ok_amap (f : R -> R) a seg : seg_ok a seg -> seg_ok (amap f a) seg.
Proof.
  intros (Hwf & Hsh & Hall). split; [now apply wf_amap|]. split; [exact Hsh|exact Hall].
Qed.

(* shape/wf of the intermediate arrays *)
Lemma shape_take_segmax a seg :
  seg_ok a seg ->
  shape a = shape (r_take (r_segment_max a (segment_ids seg) (num_segments seg)) (segment_ids seg)).
Proof.
  intros (_ & (n & sh & Hsh & Hlen) & _).
  unfold r_take, take_lead, r_segment_max, tabulate. simpl.
  rewrite Hsh. simpl. now rewrite Hlen.
Qed.

Lemma wf_take (a : rarr) ids : wf (r_take a ids).
Proof. unfold r_take, take_lead. apply wf_tabulate. Qed.

(* the argument of exp that the code computes, at a row of segment s *)
Lemma segment_lse_exp_arg a seg s rest r :
  seg_ok a seg -> (s < num_segments seg)%nat -> in_bounds (tl (shape a)) rest ->
  In r (rows seg s) ->
  rget (r_sub a (r_take (r_segment_max a (segment_ids seg) (num_segments seg)) (segment_ids seg)))
       (r :: rest)
  = rget a (r :: rest)
    - rget (r_segment_max a (segment_ids seg) (num_segments seg)) (s :: rest).
Proof.
  intros Hok Hs Hin Hr.
  pose proof (seg_ok_row_in_bounds a seg s rest r Hok Hin Hr) as Hb.
  destruct (rows_in _ _ _ Hr) as [Hlt Hnth].
  unfold r_sub. rewrite rget_amap2.
  - rewrite rget_take; [|exact Hlt|exact Hin]. now rewrite Hnth.
  - apply Hok.
  - apply wf_take.
  - now apply shape_take_segmax.
  - exact Hb.
Qed.

Lemma segment_lse_summed a seg s rest :
  seg_ok a seg -> (s < num_segments seg)%nat -> in_bounds (tl (shape a)) rest ->
  rget (r_segment_sum
          (r_exp (r_sub a (r_take (r_segment_max a (segment_ids seg) (num_segments seg))
                                  (segment_ids seg))))
          (segment_ids seg) (num_segments seg)) (s :: rest)
  = Rsum (map (fun r => exp (rget a (r :: rest)
                             - rget (r_segment_max a (segment_ids seg) (num_segments seg))
                                    (s :: rest)))
              (rows seg s)).
Proof.
  intros Hok Hs Hin.
  rewrite rget_segment_sum; [|exact Hs|exact Hin].
  f_equal. apply map_ext_in. intros r Hr. fold (rows seg s) in Hr.
  unfold r_exp. rewrite rget_amap.
  - f_equal. now apply segment_lse_exp_arg.
  - apply wf_amap2; [apply Hok|apply wf_take|now apply shape_take_segmax].
  - exact (seg_ok_row_in_bounds a seg s rest r Hok Hin Hr).
Qed.

Lemma wf_segment_logsumexp a seg : wf (segment_logsumexp a seg).
Proof.
  unfold segment_logsumexp, r_add, r_log.
  apply wf_amap2.
  - apply wf_tabulate.
  - apply wf_amap. apply wf_tabulate.
  - reflexivity.
Qed.

Lemma shape_segment_logsumexp a seg :
  shape (segment_logsumexp a seg) = num_segments seg :: tl (shape a).
Proof. reflexivity. Qed.

(* value of the code as "max + ln (sum of shifted exps)" *)
Lemma segment_lse_unfold a seg s rest :
  seg_ok a seg -> (s < num_segments seg)%nat -> in_bounds (tl (shape a)) rest ->
  rget (segment_logsumexp a seg) (s :: rest)
  = Rmaxl (map (fun r => rget a (r :: rest)) (rows seg s))
    + ln (Rsum (map (fun r => exp (rget a (r :: rest)
                                   - Rmaxl (map (fun r => rget a (r :: rest)) (rows seg s))))
                    (rows seg s))).
Proof.
  intros Hok Hs Hin.
  assert (Hb : in_bounds (num_segments seg :: tl (shape a)) (s :: rest)) by (simpl; auto).
  unfold segment_logsumexp. cbv zeta. unfold r_add, r_log.
  rewrite rget_amap2.
  - rewrite rget_amap; [|apply wf_tabulate|exact Hb].
    rewrite segment_lse_summed; [|exact Hok|exact Hs|exact Hin].
    rewrite rget_segment_max; [|exact Hs|exact Hin]. reflexivity.
  - apply wf_tabulate.
  - apply wf_amap. apply wf_tabulate.
  - reflexivity.
  - exact Hb.
Qed.

(* 1. the stable computation is exactly ln Σ exp *)
Theorem segment_lse_exact a seg s rest :
  seg_ok a seg -> (s < num_segments seg)%nat -> in_bounds (tl (shape a)) rest ->
  rows seg s <> [] ->
  rget (segment_logsumexp a seg) (s :: rest)
  = ln (Rsum (map (fun r => exp (rget a (r :: rest))) (rows seg s))).
Proof.
  intros Hok Hs Hin Hne.
  rewrite segment_lse_unfold; [|exact Hok|exact Hs|exact Hin].
  now apply (lse_stable_eq (fun r => rget a (r :: rest))).
Qed.

(* 2. no overflow: every exponent the code feeds to exp is <= 0, and the sum that
      is fed to ln lies in [1, #rows] — whatever the magnitude of the inputs *)
Theorem segment_lse_no_overflow a seg s rest :
  seg_ok a seg -> (s < num_segments seg)%nat -> in_bounds (tl (shape a)) rest ->
  rows seg s <> [] ->
  (forall r, In r (rows seg s) ->
     rget a (r :: rest)
     - rget (r_segment_max a (segment_ids seg) (num_segments seg)) (s :: rest) <= 0) /\
  1 <= rget (r_segment_sum
               (r_exp (r_sub a (r_take (r_segment_max a (segment_ids seg) (num_segments seg))
                                       (segment_ids seg))))
               (segment_ids seg) (num_segments seg)) (s :: rest)
    <= INR (List.length (rows seg s)).
Proof.
  intros Hok Hs Hin Hne. split.
  - intros r Hr. rewrite rget_segment_max; [|exact Hs|exact Hin].
    assert (rget a (r :: rest) <= Rmaxl (map (fun r => rget a (r :: rest)) (rows seg s))).
    { apply Rmaxl_ge. now apply (in_map (fun r => rget a (r :: rest))). }
    unfold rows in *. lra.
  - rewrite segment_lse_summed; [|exact Hok|exact Hs|exact Hin].
    rewrite rget_segment_max; [|exact Hs|exact Hin].
    now apply (stable_sum_bounds (fun r => rget a (r :: rest))).
Qed.

(* the same statement phrased on the expression that literally occurs in the code *)
Corollary segment_lse_exp_arg_nonpos a seg s rest r :
  seg_ok a seg -> (s < num_segments seg)%nat -> in_bounds (tl (shape a)) rest ->
  In r (rows seg s) ->
  rget (r_sub a (r_take (r_segment_max a (segment_ids seg) (num_segments seg)) (segment_ids seg)))
       (r :: rest) <= 0.
Proof.
  intros Hok Hs Hin Hr.
  rewrite (segment_lse_exp_arg a seg s rest r Hok Hs Hin Hr).
  assert (Hne : rows seg s <> []) by (intros E; rewrite E in Hr; exact Hr).
  now apply (proj1 (segment_lse_no_overflow a seg s rest Hok Hs Hin Hne)).
Qed.

(* 3. the segment EMAX is scale * ln Σ exp(v / scale).
      (The identity itself does not use [0 < scale]; the hypothesis is kept because
      it is the domain on which the formula is the EMAX and on which lse_bounds,
      lse_shift, lse_limit apply.) *)
Theorem segment_emax_is_scaled_lse a scale seg s rest :
  seg_ok a seg -> (s < num_segments seg)%nat -> in_bounds (tl (shape a)) rest ->
  rows seg s <> [] -> 0 < scale ->
  rget (segment_extreme_value_emax_over_first_axis a scale seg) (s :: rest)
  = scale * ln (Rsum (map (fun r => exp (rget a (r :: rest) / scale)) (rows seg s))).
Proof.
  intros Hok Hs Hin Hne _.
  unfold segment_extreme_value_emax_over_first_axis, r_s_mul.
  rewrite rget_amap.
  - f_equal.
    assert (Hok' : seg_ok (r_div_s a scale) seg) by (now apply seg_ok_amap).
    rewrite segment_lse_exact; [|exact Hok'|exact Hs|exact Hin|exact Hne].
    f_equal. f_equal. apply map_ext_in. intros r Hr. f_equal.
    unfold r_div_s. rewrite rget_amap; [reflexivity|apply Hok|].
    exact (seg_ok_row_in_bounds a seg s rest r Hok Hin Hr).
  - apply wf_segment_logsumexp.
  - rewrite shape_segment_logsumexp. simpl. auto.
Qed.

(* ========================================================================= *)
(* Part 4: calculate_emax_extreme_value_shocks                               *)
(* ========================================================================= *)

Theorem calculate_emax_none v s :
  calculate_emax_extreme_value_shocks v None None s = v.
Proof. reflexivity. Qed.

Theorem calculate_emax_segments v seg s :
  calculate_emax_extreme_value_shocks v None (Some seg) s
  = segment_extreme_value_emax_over_first_axis v s seg.
Proof. reflexivity. Qed.

Lemma length_axis_mask rank axes : List.length (axis_mask rank axes) = rank.
Proof. unfold axis_mask. now rewrite map_length, seq_length. Qed.

Lemma interleave_in_bounds :
  forall mask sh keep red,
    List.length mask = List.length sh ->
    in_bounds (select_mask mask sh false) keep ->
    in_bounds (select_mask mask sh true) red ->
    in_bounds sh (interleave mask keep red).
Proof.
  induction mask as [|m ms IH]; intros [|x sh] keep red Hlen Hk Hr;
    try (simpl in Hlen; discriminate Hlen).
  - exact I.
  - simpl in Hlen. destruct m; simpl in *.
    + destruct red as [|i red]; [destruct Hr|]. destruct Hr as [Hi Hr]. simpl.
      split; [exact Hi|]. apply IH; [lia|exact Hk|exact Hr].
    + destruct keep as [|i keep]; [destruct Hk|]. destruct Hk as [Hi Hk]. simpl.
      split; [exact Hi|]. apply IH; [lia|exact Hk|exact Hr].
Qed.

(* 4. dense case: the same formula with the choices laid out along axes *)
Theorem dense_emax_is_scaled_lse values axes scale keep :
  wf values ->
  in_bounds (select_mask (axis_mask (List.length (shape values)) axes) (shape values) false) keep ->
  rget (calculate_emax_extreme_value_shocks values (Some axes) None scale) keep
  = scale * ln (Rsum (map (fun red =>
        exp (rget values (interleave (axis_mask (List.length (shape values)) axes) keep red)
             / scale))
      (indices (select_mask (axis_mask (List.length (shape values)) axes) (shape values) true)))).
Proof.
  intros Hwf Hkeep.
  unfold calculate_emax_extreme_value_shocks, shock_scale. cbv zeta.
  unfold r_s_mul. rewrite rget_amap.
  - f_equal. unfold r_logsumexp. cbv zeta.
    change (shape (r_div_s values scale)) with (shape values).
    unfold rget at 1. rewrite get_tabulate by exact Hkeep.
    f_equal. f_equal. apply map_ext_in. intros red Hred. f_equal.
    unfold r_div_s. rewrite rget_amap; [reflexivity|exact Hwf|].
    apply interleave_in_bounds.
    + apply length_axis_mask.
    + exact Hkeep.
    + now apply in_indices.
  - unfold r_logsumexp. apply wf_tabulate.
  - exact Hkeep.
Qed.

(* ========================================================================= *)
(* Part 5: corollaries                                                       *)
(* ========================================================================= *)

(* both layouts compute lse_scaled of the list of alternatives' values *)
Lemma segment_emax_eq_lse_scaled a scale seg s rest :
  seg_ok a seg -> (s < num_segments seg)%nat -> in_bounds (tl (shape a)) rest ->
  rows seg s <> [] -> 0 < scale ->
  rget (segment_extreme_value_emax_over_first_axis a scale seg) (s :: rest)
  = lse_scaled scale (map (fun r => rget a (r :: rest)) (rows seg s)).
Proof.
  intros Hok Hs Hin Hne Hsc.
  rewrite segment_emax_is_scaled_lse by assumption.
  unfold lse_scaled. now rewrite map_map.
Qed.

Lemma dense_emax_eq_lse_scaled values axes scale keep :
  wf values ->
  in_bounds (select_mask (axis_mask (List.length (shape values)) axes) (shape values) false) keep ->
  rget (calculate_emax_extreme_value_shocks values (Some axes) None scale) keep
  = lse_scaled scale
      (map (fun red =>
              rget values (interleave (axis_mask (List.length (shape values)) axes) keep red))
           (indices (select_mask (axis_mask (List.length (shape values)) axes)
                                 (shape values) true))).
Proof.
  intros Hwf Hkeep. rewrite dense_emax_is_scaled_lse by assumption.
  unfold lse_scaled. now rewrite map_map.
Qed.

Lemma map_nonempty {A B} (f : A -> B) l : l <> [] -> map f l <> [].
Proof. destruct l; [congruence|discriminate]. Qed.

Theorem segment_emax_bounds a scale seg s rest :
  seg_ok a seg -> (s < num_segments seg)%nat -> in_bounds (tl (shape a)) rest ->
  rows seg s <> [] -> 0 < scale ->
  Rmaxl (map (fun r => rget a (r :: rest)) (rows seg s))
  <= rget (segment_extreme_value_emax_over_first_axis a scale seg) (s :: rest)
  <= Rmaxl (map (fun r => rget a (r :: rest)) (rows seg s))
     + scale * ln (INR (List.length (rows seg s))).
Proof.
  intros Hok Hs Hin Hne Hsc.
  rewrite segment_emax_eq_lse_scaled by assumption.
  rewrite <- (map_length (fun r => rget a (r :: rest)) (rows seg s)).
  apply lse_bounds; [exact Hsc|now apply map_nonempty].
Qed.

Theorem segment_emax_limit a scale seg s rest eps :
  seg_ok a seg -> (s < num_segments seg)%nat -> in_bounds (tl (shape a)) rest ->
  rows seg s <> [] -> 0 < scale ->
  0 < eps -> scale * ln (INR (List.length (rows seg s)) + 1) < eps ->
  Rabs (rget (segment_extreme_value_emax_over_first_axis a scale seg) (s :: rest)
        - Rmaxl (map (fun r => rget a (r :: rest)) (rows seg s))) < eps.
Proof.
  intros Hok Hs Hin Hne Hsc Heps Hsmall.
  rewrite segment_emax_eq_lse_scaled by assumption.
  apply lse_limit; [exact Hsc|now apply map_nonempty|exact Heps|].
  now rewrite map_length.
Qed.

Theorem segment_emax_shift a scale seg s rest c :
  seg_ok a seg -> (s < num_segments seg)%nat -> in_bounds (tl (shape a)) rest ->
  rows seg s <> [] -> 0 < scale ->
  rget (segment_extreme_value_emax_over_first_axis (amap (fun x => x + c) a) scale seg)
       (s :: rest)
  = rget (segment_extreme_value_emax_over_first_axis a scale seg) (s :: rest) + c.
Proof.
  intros Hok Hs Hin Hne Hsc.
  assert (Hok' : seg_ok (amap (fun x => x + c) a) seg) by (now apply seg_ok_amap).
  rewrite (segment_emax_eq_lse_scaled _ scale seg s rest Hok' Hs Hin Hne Hsc).
  rewrite (segment_emax_eq_lse_scaled a scale seg s rest Hok Hs Hin Hne Hsc).
  rewrite <- lse_shift; [|exact Hsc|now apply map_nonempty].
  f_equal. rewrite map_map. apply map_ext_in. intros r Hr.
  rewrite rget_amap; [reflexivity|apply Hok|].
  exact (seg_ok_row_in_bounds a seg s rest r Hok Hin Hr).
Qed.

(* layout irrelevance: if a dense cell and a segment hold the same alternatives'
   values (in any order), the two code paths give the same number *)
Theorem emax_axes_segments_agree values axes keep a seg s rest scale :
  wf values ->
  in_bounds (select_mask (axis_mask (List.length (shape values)) axes) (shape values) false) keep ->
  seg_ok a seg -> (s < num_segments seg)%nat -> in_bounds (tl (shape a)) rest ->
  rows seg s <> [] -> 0 < scale ->
  Permutation
    (map (fun red =>
            rget values (interleave (axis_mask (List.length (shape values)) axes) keep red))
         (indices (select_mask (axis_mask (List.length (shape values)) axes)
                               (shape values) true)))
    (map (fun r => rget a (r :: rest)) (rows seg s)) ->
  rget (calculate_emax_extreme_value_shocks values (Some axes) None scale) keep
  = rget (calculate_emax_extreme_value_shocks a None (Some seg) scale) (s :: rest).
Proof.
  intros Hwf Hkeep Hok Hs Hin Hne Hsc Hperm.
  rewrite calculate_emax_segments.
  rewrite dense_emax_eq_lse_scaled by assumption.
  rewrite segment_emax_eq_lse_scaled by assumption.
  now apply lse_perm.
Qed.

(* the hypotheses of the pointwise theorems are jointly satisfiable (non-vacuity):
   3 rows x 2 columns, segment ids [0;1;0], two segments, cell (segment 0, column 1) *)
Example pointwise_hypotheses_satisfiable :
  let a : rarr := tabulate [3%nat; 2%nat] (fun _ => 1) in
  let seg := mkSeg [0%nat; 1%nat; 0%nat] 2 in
  seg_ok a seg /\ (0 < num_segments seg)%nat /\
  in_bounds (tl (shape a)) [1%nat] /\ rows seg 0%nat = [0%nat; 2%nat].
Proof.
  cbv zeta. split; [|split; [|split]].
  - split; [apply wf_tabulate|]. split.
    + exists 3%nat, [2%nat]. split; reflexivity.
    + simpl. repeat constructor.
  - simpl. lia.
  - simpl. split; [lia|exact I].
  - reflexivity.
Qed.

Print Assumptions segment_lse_exact.
Print Assumptions segment_emax_is_scaled_lse.
Print Assumptions lse_bounds.
Print Assumptions lse_limit.

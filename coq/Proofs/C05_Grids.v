(* Proofs/C05_Grids.v — the regenerated get_gridspecs / get_grids (Gen/VariableInfo.v): model.grids lists every variable of the model *)
(* once, in the order of variable_info, with the array of its own grid.                                                                *)
From Coq Require Import Lia.
From LCM Require Import Base.Prelude Model.PyVocab Gen.ChoiceAxes Gen.VariableInfo.
From LCM Require Import Proofs.PyVocabLemmas Proofs.C05_VariableInfo.
Local Open Scope nat_scope.

Lemma reorder_all {G} (d : list (string * G)) : forall order, (forall k, In k order -> exists g, assoc k d = Some g) ->
  exists r, reorder d order = Some r /\ map fst r = order /\ forall k g, In (k, g) r -> assoc k d = Some g.
Proof.
  induction order as [|k rest IH]; intros H; [exists []; split; [reflexivity|split; [reflexivity|intros ? ? []]]|].
  destruct (H k (or_introl eq_refl)) as [g Hg]. destruct IH as (r & Hr & Hk & Hv); [intros k' Hk'; apply H; now right|].
  exists ((k, g) :: r). unfold reorder in *. cbn [omap]. rewrite Hg. cbn. rewrite Hr. cbn. split; [reflexivity|]. split.
  - now rewrite Hk.
  - intros k' g' [E|Hin]; [injection E as <- <-; exact Hg|now apply Hv].
Qed.

Lemma assoc_exists {A} k (d : list (string * A)) : In k (map fst d) -> exists v, assoc k d = Some v.
Proof.
  induction d as [|[k0 v0] r IH]; intros H; [destruct H|]. cbn [assoc]. destruct (String.eqb_spec k k0) as [->|N]; [now exists v0|].
  destruct H as [E|H]; [cbn in E; congruence|now apply IH].
Qed.

Section Grids.
Variables (G A : Type) (is_cont : G -> bool) (to_jax : G -> A).
Variables (is_stochastic_next : string -> bool) (auxiliary_variables filtered_variables : list string).
Variables (S C : list (string * G)).
Hypothesis Hnames : NoDup (map fst S ++ map fst C).
Let states := map (fun sg : string * G => (fst sg, is_cont (snd sg))) S.
Let choices := map (fun sg : string * G => (fst sg, is_cont (snd sg))) C.

Lemma Hn2 : NoDup (map fst states ++ map fst choices).
Proof. unfold states, choices. rewrite !map_map. exact Hnames. Qed.

Lemma vi_names_are_variables vi : get_variable_info is_stochastic_next auxiliary_variables filtered_variables states choices = Some vi ->
  forall k, In k (map vname vi) -> In k (map fst S ++ map fst C)%list.
Proof.
  rewrite get_variable_info_is_canonical. intros E. injection E as <-. intros k Hk.
  assert (Hrows : forall q, forall x, In x (map vname (filter q (vi_rows is_stochastic_next auxiliary_variables filtered_variables states choices))) ->
                   In x (map fst S ++ map fst C)%list).
  { intros q x Hx. apply in_map_iff in Hx. destruct Hx as (r & <- & Hr). apply filter_In in Hr. destruct Hr as [Hr _].
    unfold vi_rows in Hr. apply in_map_iff in Hr. destruct Hr as (var & <- & Hv). cbn [vname vi_row].
    rewrite (variables_in_declaration_order states choices Hn2) in Hv. rewrite <- map_app.
    unfold states, choices in Hv. rewrite <- map_app in Hv. apply in_map_iff in Hv. destruct Hv as (sg & <- & Hsg). cbn [fst].
    now apply in_map. }
  rewrite !map_app in Hk. repeat (apply in_app_or in Hk; destruct Hk as [Hk|Hk]); eapply Hrows; exact Hk.
Qed.

Theorem grids_follow_variable_info :
  exists vi grids,
    get_variable_info is_stochastic_next auxiliary_variables filtered_variables states choices = Some vi /\
    get_grids is_stochastic_next auxiliary_variables filtered_variables is_cont to_jax S C = Some grids /\
    map fst grids = map vname vi /\
    forall k a, In (k, a) grids -> exists g, In (k, g) (S ++ C)%list /\ a = to_jax g.
Proof.
  destruct (state_axes_in_declaration_order is_stochastic_next auxiliary_variables filtered_variables states choices Hn2) as (vi & Hvi & _).
  exists vi. unfold get_grids, get_gridspecs. fold states. fold choices. rewrite Hvi.
  assert (Hraw : fold_left (fun d kv => dict_set d (fst kv) (snd kv)) C (fold_left (fun d kv => dict_set d (fst kv) (snd kv)) S []) = (S ++ C)%list).
  { destruct (nodup_app_parts _ _ Hnames) as (Hs & Hc & Hd).
    rewrite (fold_dict_set_fresh S [] Hs) by (intros k _ []). cbn [app]. apply fold_dict_set_fresh; [exact Hc|].
    intros k Hk Hks. exact (Hd k Hks Hk). }
  rewrite Hraw.
  assert (Hnd : NoDup (map fst (S ++ C)%list)) by (now rewrite map_app).
  destruct (reorder_all (S ++ C)%list (map vname vi)) as (specs & Hspecs & Hkeys & Hvals).
  { intros k Hk. pose proof (vi_names_are_variables vi Hvi k Hk) as Hin. rewrite <- map_app in Hin. apply in_map_iff in Hin.
    destruct Hin as ([k' g] & E & Hin). cbn in E. subst k'. exists g. now apply assoc_In_nodup. }
  rewrite Hspecs.
  destruct (reorder_all (map (fun ns : string * G => (fst ns, to_jax (snd ns))) specs) (map vname vi)) as (grids & Hgrids & Hgk & Hgv).
  { intros k Hk. rewrite <- Hkeys in Hk. apply in_map_iff in Hk. destruct Hk as ([k' g] & E & Hin). cbn in E. subst k'.
    rewrite (assoc_map_val to_jax). 
    assert (Hs : assoc k specs = Some g).
    { destruct (assoc_exists k specs) as [g' Hg']; [apply in_map_iff; exists (k, g); split; [reflexivity|exact Hin]|].
      pose proof (Hvals k g' (assoc_Some_In k g' specs Hg')) as H1. pose proof (Hvals k g Hin) as H2. congruence. }
    rewrite Hs. now exists (to_jax g). }
  exists grids. split; [reflexivity|]. split; [exact Hgrids|]. split; [exact Hgk|].
  intros k a Hin. pose proof (Hgv k a Hin) as Ha. rewrite (assoc_map_val to_jax) in Ha.
  destruct (assoc k specs) as [g|] eqn:Eg; [|discriminate]. injection Ha as <-. exists g. split; [|reflexivity].
  apply assoc_Some_In. apply Hvals. now apply assoc_Some_In.
Qed.
End Grids.

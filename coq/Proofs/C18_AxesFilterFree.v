(* Proofs/C18_AxesFilterFree.v — the choice axes the regenerated code determines for a model WITHOUT filter-restricted *)
(* variables: variable_info lists discrete states, discrete choices, continuous states, continuous choices; the solver  *)
(* reduces over the axes |dst| .. |dst|+|dch|-1 of the conditional-continuation-value array, the simulation over        *)
(* 1 .. |dch| (axis 0 being the agents); no axes when there is no dense discrete choice.                               *)
From Coq Require Import Lia.
From LCM Require Import Base.Prelude Base.Arr Base.ArrOps Gen.ChoiceAxes Gen.DiscreteNoShocks Gen.SolveDiscrete.
From LCM Require Import Spec.Lang.
From LCM Require Export Proofs.C18_VarInfo.
Local Open Scope nat_scope.

Lemma combine_seq_app {A} (l1 l2 : list A) s :
  combine (seq s (length (l1 ++ l2))) (l1 ++ l2) = (combine (seq s (length l1)) l1 ++ combine (seq (s + length l1) (length l2)) l2)%list.
Proof.
  revert s. induction l1 as [|x r IH]; intros s.
  - cbn [app length combine seq]. now rewrite Nat.add_0_r.
  - cbn [app length seq combine]. f_equal. rewrite IH. f_equal. replace (s + S (length r)) with (S s + length r) by lia. reflexivity.
Qed.

Lemma filter_combine_none (P : string -> bool) l s : (forall x, In x l -> P x = false) ->
  filter (fun iax : nat * string => P (snd iax)) (combine (seq s (length l)) l) = [].
Proof.
  revert s. induction l as [|x r IH]; intros s H; [reflexivity|]. cbn [length seq combine filter snd].
  rewrite (H x (or_introl eq_refl)). apply IH. intros y Hy. apply H. now right.
Qed.
Lemma filter_combine_all (P : string -> bool) l s : (forall x, In x l -> P x = true) ->
  map fst (filter (fun iax : nat * string => P (snd iax)) (combine (seq s (length l)) l)) = seq s (length l).
Proof.
  revert s. induction l as [|x r IH]; intros s H; [reflexivity|]. cbn [length seq combine filter snd].
  rewrite (H x (or_introl eq_refl)). cbn [map fst]. f_equal. apply IH. intros y Hy. apply H. now right.
Qed.

Lemma mem_str_in x l : mem_str x l = true <-> In x l.
Proof.
  unfold mem_str. rewrite existsb_exists. split.
  - intros (y & Hy & E). apply String.eqb_eq in E. now subst.
  - intros H. exists x. split; [exact H|apply String.eqb_refl].
Qed.

Section FilterFree.
Variables (dst dch cst cch : list (string * grid)).
Hypothesis Hnd : NoDup (map fst (dst ++ dch ++ cst ++ cch)).
Let vi := vi_of dst dch cst cch.

Lemma no_sparse : existsb is_sparse vi = false.
Proof.
  unfold vi, vi_of. rewrite !existsb_app.
  assert (H : forall st cont l, existsb is_sparse (map (vinfo st cont) l) = false)
    by (intros st cont l; induction l as [|x r IH]; [reflexivity|exact IH]).
  now rewrite !H.
Qed.

Lemma names_map st cont l : map vname (map (vinfo st cont) l) = map fst l.
Proof. rewrite map_map. reflexivity. Qed.

Lemma dense_vars_are : map vname (filter (fun v => is_dense v && negb (is_choice v && is_continuous v)) vi)
  = (map fst dst ++ map fst dch ++ map fst cst)%list.
Proof.
  unfold vi, vi_of. rewrite !filter_app, !map_app.
  rewrite (filter_map_const (vinfo true false) _ true) by reflexivity.
  rewrite (filter_map_const (vinfo false false) _ true) by reflexivity.
  rewrite (filter_map_const (vinfo true true) _ true) by reflexivity.
  rewrite (filter_map_const (vinfo false true) _ false) by reflexivity.
  cbn [map]. now rewrite app_nil_r, !names_map.
Qed.

Lemma choice_vars_are : map vname (filter (fun v => is_choice v) vi) = (map fst dch ++ map fst cch)%list.
Proof.
  unfold vi, vi_of. rewrite !filter_app, !map_app.
  rewrite (filter_map_const (vinfo true false) _ false) by reflexivity.
  rewrite (filter_map_const (vinfo false false) _ true) by reflexivity.
  rewrite (filter_map_const (vinfo true true) _ false) by reflexivity.
  rewrite (filter_map_const (vinfo false true) _ true) by reflexivity.
  cbn [map app]. now rewrite !names_map.
Qed.

Lemma nodup_parts : NoDup (map fst dst ++ map fst dch ++ map fst cst ++ map fst cch).
Proof. now rewrite <- !map_app. Qed.

Lemma state_not_choice x : In x (map fst dst) \/ In x (map fst cst) -> mem_str x (map fst dch ++ map fst cch) = false.
Proof.
  intros H. apply Bool.not_true_is_false. intros E. apply mem_str_in in E.
  pose proof nodup_parts as N.
  assert (D : forall (l1 l2 : list string) y, NoDup (l1 ++ l2) -> In y l1 -> ~ In y l2).
  { induction l1 as [|a l1' IHl]; intros l2 y Hn Hy; [destruct Hy|]. cbn [app] in Hn. inversion Hn as [|? ? Hna Hn']; subst.
    destruct Hy as [->|Hy]; [intros Hin; apply Hna; apply in_or_app; now right|now apply IHl]. }
  assert (R : forall (l1 l2 : list string), NoDup (l1 ++ l2) -> NoDup l2).
  { induction l1 as [|a l1' IHl]; intros l2 Hn; [exact Hn|]. cbn [app] in Hn. inversion Hn; subst. now apply IHl. }
  destruct H as [H|H].
  - apply (D _ _ x N H). apply in_app_or in E. destruct E as [E|E].
    + apply in_or_app. now left.
    + apply in_or_app. right. apply in_or_app. now right.
  - apply in_app_or in E. destruct E as [E|E].
    + (* dch before cst *)
      apply R in N. apply (D _ _ x N E). apply in_or_app. now left.
    + apply R in N. apply R in N. apply (D _ _ x N H E).
Qed.

Lemma choice_is_choice x : In x (map fst dch) -> mem_str x (map fst dch ++ map fst cch) = true.
Proof. intros H. apply mem_str_in. apply in_or_app. now left. Qed.

(* the solver: axes |dst| .. |dst|+|dch|-1 *)
Theorem solver_axes_of_filter_free :
  determine_dense_discrete_choice_axes vi = match dch with [] => None | _ => Some (seq (length dst) (length dch)) end.
Proof.
  unfold determine_dense_discrete_choice_axes. rewrite no_sparse, dense_vars_are, choice_vars_are.
  set (cv := (map fst dch ++ map fst cch)%list).
  rewrite combine_seq_app, combine_seq_app, !filter_app, !map_app.
  rewrite (filter_combine_none (fun x => mem_str x cv) (map fst dst) 0) by (intros x Hx; apply state_not_choice; now left).
  rewrite (filter_combine_none (fun x => mem_str x cv) (map fst cst)) by (intros x Hx; apply state_not_choice; now right).
  rewrite (filter_combine_all (fun x => mem_str x cv) (map fst dch)) by (intros x Hx; now apply choice_is_choice).
  cbn [map app Nat.add]. rewrite app_nil_r, !map_length. destruct dch; reflexivity.
Qed.

(* no auxiliary variables: the last period uses the same variable_info *)
Lemma non_auxiliary_all : filter (fun v => negb (is_auxiliary v)) vi = vi.
Proof.
  unfold vi, vi_of. rewrite !filter_app.
  rewrite (filter_map_const (vinfo true false) _ true), (filter_map_const (vinfo false false) _ true),
          (filter_map_const (vinfo true true) _ true), (filter_map_const (vinfo false true) _ true) by reflexivity.
  reflexivity.
Qed.

(* what get_solve_discrete_problem builds for such a model, in either kind of period *)
Theorem solve_discrete_of_filter_free is_last cc :
  get_solve_discrete_problem vi is_last None cc tt
  = solve_discrete_problem_no_shocks cc (match dch with [] => None | _ => Some (seq (length dst) (length dch)) end) None tt.
Proof.
  unfold get_solve_discrete_problem. destruct is_last; [rewrite non_auxiliary_all|]; now rewrite solver_axes_of_filter_free.
Qed.

End FilterFree.

(* ---- with filter-restricted variables: one sparse leading axis ------------------------------------------------------------ *)
Section WithFilters.
Variables (rs rc dst dch cst cch : list (string * grid)).
Hypothesis Hrv : (rs ++ rc)%list <> [].
Hypothesis Hnd : NoDup (map fst (rc ++ dst ++ dch ++ cst ++ cch)).
Hypothesis Hname : ~ In "__sparse__"%string (map fst (rc ++ dch ++ cch)).
Let vi := vi_sparse rs rc dst dch cst cch.

Lemma has_sparse : existsb is_sparse vi = true.
Proof.
  unfold vi, vi_sparse. rewrite !existsb_app. destruct rs as [|x r]; [|reflexivity]. destruct rc as [|y r']; [now contradiction Hrv|reflexivity].
Qed.

Lemma sparse_dense_vars : map vname (filter (fun v => is_dense v && negb (is_choice v && is_continuous v)) vi)
  = (map fst dst ++ map fst dch ++ map fst cst)%list.
Proof.
  unfold vi, vi_sparse, vi_of. rewrite !filter_app, !map_app.
  rewrite (filter_map_const (vinfo_sparse true) _ false), (filter_map_const (vinfo_sparse false) _ false) by reflexivity.
  rewrite (filter_map_const (vinfo true false) _ true), (filter_map_const (vinfo false false) _ true),
          (filter_map_const (vinfo true true) _ true), (filter_map_const (vinfo false true) _ false) by reflexivity.
  cbn [map app]. rewrite app_nil_r, !map_map. reflexivity.
Qed.

Lemma sparse_choice_vars : map vname (filter (fun v => is_choice v) vi) = (map fst rc ++ map fst dch ++ map fst cch)%list.
Proof.
  unfold vi, vi_sparse, vi_of. rewrite !filter_app, !map_app.
  rewrite (filter_map_const (vinfo_sparse true) _ false), (filter_map_const (vinfo_sparse false) _ true) by reflexivity.
  rewrite (filter_map_const (vinfo true false) _ false), (filter_map_const (vinfo false false) _ true),
          (filter_map_const (vinfo true true) _ false), (filter_map_const (vinfo false true) _ true) by reflexivity.
  cbn [map app]. rewrite !map_map. reflexivity.
Qed.

Lemma nodup_split' {A} (l1 l2 : list A) y : NoDup (l1 ++ l2) -> In y l1 -> ~ In y l2.
Proof.
  induction l1 as [|a l1' IHl]; intros Hn Hy; [destruct Hy|]. cbn [app] in Hn. inversion Hn as [|? ? Hna Hn']; subst.
  destruct Hy as [->|Hy]; [intros Hin; apply Hna; apply in_or_app; now right|now apply IHl].
Qed.
Lemma nodup_tail' {A} (l1 l2 : list A) : NoDup (l1 ++ l2) -> NoDup l2.
Proof. induction l1 as [|a l1' IHl]; intros Hn; [exact Hn|]. cbn [app] in Hn. inversion Hn; subst. now apply IHl. Qed.

Lemma sparse_state_not_choice x : In x (map fst dst) \/ In x (map fst cst) ->
  mem_str x (map fst rc ++ map fst dch ++ map fst cch) = false.
Proof.
  intros H. apply Bool.not_true_is_false. intros E. apply mem_str_in in E.
  pose proof Hnd as N. rewrite !map_app in N.
  (* N : NoDup (rc ++ dst ++ dch ++ cst ++ cch) on names *)
  apply in_app_or in E. destruct E as [E|E].
  - (* x in rc and in dst or cst *)
    apply (nodup_split' _ _ x N E). destruct H as [H|H]; apply in_or_app; [now left|right; apply in_or_app; right; apply in_or_app; now left].
  - apply nodup_tail' in N. apply in_app_or in E. destruct H as [H|H].
    + (* x in dst, and in dch or cch *)
      apply (nodup_split' _ _ x N H). destruct E as [E|E]; apply in_or_app; [now left|right; apply in_or_app; now right].
    + apply nodup_tail' in N. destruct E as [E|E].
      * apply (nodup_split' _ _ x N E). apply in_or_app. now left.
      * apply nodup_tail' in N. apply (nodup_split' _ _ x N H E).
Qed.

Theorem solver_axes_with_filters :
  determine_dense_discrete_choice_axes vi = match dch with [] => None | _ => Some (seq (1 + length dst) (length dch)) end.
Proof.
  unfold determine_dense_discrete_choice_axes. rewrite has_sparse, sparse_dense_vars, sparse_choice_vars.
  set (cv := (map fst rc ++ map fst dch ++ map fst cch)%list).
  cbn [length seq combine filter snd].
  replace (mem_str "__sparse__" cv) with false.
  2:{ symmetry. apply Bool.not_true_is_false. intros E. apply mem_str_in in E. apply Hname. unfold cv in E. now rewrite !map_app. }
  rewrite (combine_seq_app (map fst dst) (map fst dch ++ map fst cst) 1), (combine_seq_app (map fst dch) (map fst cst)), !filter_app, !map_app.
  rewrite (filter_combine_none (fun x => mem_str x cv) (map fst dst) 1) by (intros x Hx; apply sparse_state_not_choice; now left).
  rewrite (filter_combine_none (fun x => mem_str x cv) (map fst cst)) by (intros x Hx; apply sparse_state_not_choice; now right).
  rewrite (filter_combine_all (fun x => mem_str x cv) (map fst dch))
    by (intros x Hx; apply mem_str_in; unfold cv; apply in_or_app; right; apply in_or_app; now left).
  cbn [map app]. rewrite app_nil_r, !map_length. destruct dch; reflexivity.
Qed.

Lemma non_auxiliary_all_sparse : filter (fun v => negb (is_auxiliary v)) vi = vi.
Proof.
  unfold vi, vi_sparse, vi_of. rewrite !filter_app.
  rewrite (filter_map_const (vinfo_sparse true) _ true), (filter_map_const (vinfo_sparse false) _ true),
          (filter_map_const (vinfo true false) _ true), (filter_map_const (vinfo false false) _ true),
          (filter_map_const (vinfo true true) _ true), (filter_map_const (vinfo false true) _ true) by reflexivity.
  reflexivity.
Qed.

Theorem solve_discrete_with_filters is_last cc seg :
  get_solve_discrete_problem vi is_last (Some seg) cc tt
  = solve_discrete_problem_no_shocks cc (match dch with [] => None | _ => Some (seq (1 + length dst) (length dch)) end) (Some seg) tt.
Proof. unfold get_solve_discrete_problem. destruct is_last; [rewrite non_auxiliary_all_sparse|]; now rewrite solver_axes_with_filters. Qed.
End WithFilters.

(* Proofs/C08_Agents.v — in the simulation the agents are the leading axis of the data           *)
(* state-choice space: create_data_scs pairs every agent with every combination of the            *)
(* filter-restricted choices (repeat/tile) and keeps the filter-passing rows; the segment id of a  *)
(* kept row is the agent it belongs to.  This is the state-space construction of C17 with the      *)
(* agents in the role of the restricted states (mask shape [n_agents; n_combinations]).            *)
From LCM Require Import Base.Prelude Base.Arr Base.ArrOps Model.StateSpace.
From LCM Require Import Proofs.ArrLemmas Proofs.ArrLemmas2 Proofs.C17_StateSpace.
Local Open Scope nat_scope.

Lemma filter_all {A} (p : A -> bool) l : (forall x, In x l -> p x = true) -> filter p l = l.
Proof.
  induction l as [|x r IH]; intros H; simpl; [reflexivity|].
  rewrite (H x) by (now left). f_equal. apply IH. intros y Hy. apply H. now right.
Qed.

Section Agents.
Variables (mask : arr bool) (n_agents n_comb : nat).
Hypothesis Hshape : shape mask = [n_agents; n_comb].
(* every agent has at least one filter-passing row (otherwise lcm's num_segments shrinks and the
   whole batch fails: known finding G, outside the supported inputs) *)
Hypothesis Hall : forall i, i < n_agents -> has_passing mask 1 [i] = true.

Lemma agent_axis : indices (state_shape_of mask 1) = map (fun i => [i]) (seq 0 n_agents).
Proof.
  unfold state_shape_of. rewrite Hshape. cbn [firstn indices].
  generalize (seq 0 n_agents). intros l. induction l as [|i r IH]; [reflexivity|].
  simpl. f_equal; exact IH.
Qed.

Theorem every_agent_keeps_its_own_segment :
  feasible_states mask 1 = map (fun i => [i]) (seq 0 n_agents) /\
  num_segments_r (create_indexers_and_segments mask 1) = n_agents.
Proof.
  assert (E : feasible_states mask 1 = map (fun i => [i]) (seq 0 n_agents)).
  { unfold feasible_states. rewrite agent_axis. apply filter_all.
    intros x Hx. apply in_map_iff in Hx. destruct Hx as (i & <- & Hi). apply in_seq in Hi. apply Hall. lia. }
  split; [exact E|].
  destruct (segments_are_the_ranks_of_the_state_parts mask 1) as (_ & _ & Hn).
  rewrite Hn, E. now rewrite map_length, seq_length.
Qed.

(* the rows tagged with segment id i are exactly agent i's filter-passing rows *)
Theorem segment_id_is_the_agent k idx :
  In (k, idx) (tagged mask 1 0 (feasible_states mask 1)) ->
  exists ci, idx = [k] ++ ci /\ In ci (passing mask 1 [k]) /\ k < n_agents.
Proof.
  intros H. destruct (tagged_in mask 1 _ _ _ _ H) as (si & ci & E & Hc & _ & Hn & Hl).
  rewrite Nat.sub_0_r in Hn, Hl.
  destruct every_agent_keeps_its_own_segment as [Ef _]. rewrite Ef in Hn, Hl.
  rewrite map_length, seq_length in Hl.
  rewrite (nth_indep _ [] ((fun i => [i]) 0)) in Hn by (now rewrite map_length, seq_length).
  rewrite (map_nth (fun i => [i])), seq_nth in Hn by exact Hl. simpl in Hn. subst si.
  exists ci. auto.
Qed.
End Agents.

(* Proofs/C02_DataRows.v — the rows of the data state-choice space (create_data_scs with filter-restricted choices): for     *)
(* every agent, in agent order, its filter-passing restricted-choice combinations in row-major order; the columns repeat the     *)
(* agent's states and list the combination's grid values; the segment of a row is its agent.                                  *)
From Coq Require Import Lia.
From LCM Require Import Base.Prelude Base.Arr Base.ArrOps Spec.Lang.
From LCM Require Import Proofs.ArrLemmas Proofs.C18_Segment Proofs.C01_MaxCompose Proofs.C01_Period Proofs.C01_Agents Proofs.C02_SparseDecision.
Local Open Scope nat_scope.

Section DataRows.
Variables (rc : list (string * grid)) (nag : nat) (keepA : nat -> list nat -> bool).
(* the agents' state values: per state variable one column over the agents *)
Variables (stRs stDst stCst : list (list Q)).

Definition agent_rows (a : nat) : list (nat * list nat) := map (fun ci => (a, ci)) (filter (keepA a) (indices (sizes rc))).
Definition data_rows : list (nat * list nat) := flat_map agent_rows (seq 0 nag).
Definition data_ids : list nat := map fst data_rows.
Definition ci_of_row (row : nat) : list nat := snd (nth row data_rows (0, [])).
Definition agent_of_row (row : nat) : nat := fst (nth row data_rows (0, [])).

(* columns over the rows *)
Definition rep_col (col : list Q) : list Q := map (fun r : nat * list nat => nth (fst r) col 0%Q) data_rows.
Definition rc_cols : list (list Q) :=
  map (fun jg : nat * (string * grid) => map (fun r : nat * list nat => grid_point (snd (snd jg)) (nth (fst jg) (snd r) 0)) data_rows)
      (combine (seq 0 (length rc)) rc).
Definition data_colsA : list (list Q) := ((map rep_col stRs ++ rc_cols) ++ map rep_col stDst)%list.
Definition data_colsC : list (list Q) := map rep_col stCst.

Lemma in_data_rows a ci : In (a, ci) data_rows <-> a < nag /\ in_bounds (sizes rc) ci /\ keepA a ci = true.
Proof.
  unfold data_rows, agent_rows. rewrite in_flat_map. split.
  - intros (a' & Ha & Hin). apply in_seq in Ha. apply in_map_iff in Hin. destruct Hin as (ci' & E & Hf). injection E as <- <-.
    apply filter_In in Hf. destruct Hf as [Hi Hk]. apply in_indices in Hi. repeat split; [lia|exact Hi|exact Hk].
  - intros (Ha & Hb & Hk). exists a. split; [apply in_seq; lia|]. apply in_map_iff. exists ci. split; [reflexivity|].
    apply filter_In. split; [now apply in_indices|exact Hk].
Qed.

Lemma row_in_segment row a : In row (rows_of_segment data_ids a) <-> row < length data_rows /\ agent_of_row row = a.
Proof.
  rewrite in_rows. unfold data_ids, agent_of_row. rewrite map_length. split; intros [H1 H2]; split; try exact H1.
  - rewrite <- H2. rewrite (nth_indep _ 0 (fst (0, @nil nat))) by (now rewrite map_length). now rewrite map_nth.
  - rewrite <- H2. rewrite (nth_indep _ 0 (fst (0, @nil nat))) by (now rewrite map_length). now rewrite map_nth.
Qed.

Lemma row_pair row : row < length data_rows -> In (agent_of_row row, ci_of_row row) data_rows.
Proof. intros H. unfold agent_of_row, ci_of_row. rewrite <- surjective_pairing. now apply nth_In. Qed.

(* the values of a row *)
Lemma at_row_rep cols row : row < length data_rows -> at_row (map rep_col cols) row = at_row cols (agent_of_row row).
Proof.
  intros H. unfold at_row. rewrite map_map. apply map_ext. intros col. unfold rep_col, agent_of_row.
  rewrite (nth_indep _ 0%Q ((fun r : nat * list nat => nth (fst r) col 0%Q) (0, []))) by (now rewrite map_length).
  now rewrite (map_nth (fun r : nat * list nat => nth (fst r) col 0%Q)).
Qed.

Lemma env_values_offset : forall (vars : list (string * grid)) (pre idx : list nat), length idx = length vars ->
  map (fun jg : nat * (string * grid) => grid_point (snd (snd jg)) (nth (fst jg) (pre ++ idx) 0)) (combine (seq (length pre) (length vars)) vars)
  = map snd (env_of_idx vars idx).
Proof.
  induction vars as [|[x g] r IH]; intros pre idx H; [reflexivity|]. destruct idx as [|k idx']; [discriminate|].
  cbn [length seq combine map fst snd env_of_idx]. f_equal.
  - now rewrite app_nth2, Nat.sub_diag by lia.
  - change (pre ++ k :: idx')%list with (pre ++ [k] ++ idx')%list. rewrite app_assoc.
    replace (S (length pre)) with (length (pre ++ [k])) by (rewrite app_length; simpl; lia). apply IH. simpl in H. lia.
Qed.

Lemma at_row_rc row : row < length data_rows -> length (ci_of_row row) = length rc ->
  at_row rc_cols row = map snd (env_of_idx rc (ci_of_row row)).
Proof.
  intros H Hl. unfold at_row, rc_cols. rewrite map_map.
  rewrite <- (env_values_offset rc [] (ci_of_row row) Hl). cbn [length app]. apply map_ext. intros [j [x g]]. cbn [fst snd].
  unfold ci_of_row.
  rewrite (nth_indep _ 0%Q ((fun r : nat * list nat => grid_point g (nth j (snd r) 0)) (0, []))) by (now rewrite map_length).
  now rewrite (map_nth (fun r : nat * list nat => grid_point g (nth j (snd r) 0))).
Qed.

(* the row structure the decision theorem asks for *)
Theorem data_rows_structure a : a < nag ->
  (forall row, In row (rows_of_segment data_ids a) ->
     in_bounds (sizes rc) (ci_of_row row) /\
     row_is rc data_colsA data_colsC (at_row stRs a) (at_row stDst a) (at_row stCst a) row (ci_of_row row)) /\
  (forall ci, in_bounds (sizes rc) ci -> keepA a ci = true -> exists row, In row (rows_of_segment data_ids a) /\ ci_of_row row = ci).
Proof.
  intros Ha. split.
  - intros row Hrow. apply row_in_segment in Hrow. destruct Hrow as [Hr Ea].
    pose proof (row_pair row Hr) as Hin. rewrite Ea in Hin. apply in_data_rows in Hin. destruct Hin as (_ & Hb & _).
    split; [exact Hb|]. unfold row_is, data_colsA, data_colsC.
    assert (Hl : length (ci_of_row row) = length rc) by (rewrite (in_bounds_length _ _ Hb); unfold sizes; now rewrite map_length).
    split.
    + unfold at_row at 1. rewrite !map_app. fold (at_row (map rep_col stRs) row). fold (at_row rc_cols row). fold (at_row (map rep_col stDst) row).
      now rewrite !at_row_rep, at_row_rc, Ea by assumption.
    + now rewrite at_row_rep, Ea by assumption.
  - intros ci Hb Hk. assert (Hin : In (a, ci) data_rows) by (apply in_data_rows; auto).
    destruct (In_nth _ _ (0, []) Hin) as (row & Hr & E). exists row. split.
    + apply row_in_segment. split; [exact Hr|]. unfold agent_of_row. now rewrite E.
    + unfold ci_of_row. now rewrite E.
Qed.

Lemma data_ids_length : length data_ids = length data_rows.
Proof. unfold data_ids. apply map_length. Qed.

Lemma data_cols_format : Forall (fun c : list Q => length c = length data_rows) (data_colsA ++ data_colsC).
Proof.
  apply Forall_forall. intros c Hc. unfold data_colsA, data_colsC in Hc. rewrite !in_app_iff in Hc.
  destruct Hc as [[[Hc|Hc]|Hc]|Hc].
  - apply in_map_iff in Hc. destruct Hc as (col & <- & _). unfold rep_col. now rewrite map_length.
  - unfold rc_cols in Hc. apply in_map_iff in Hc. destruct Hc as (jg & <- & _). now rewrite map_length.
  - apply in_map_iff in Hc. destruct Hc as (col & <- & _). unfold rep_col. now rewrite map_length.
  - apply in_map_iff in Hc. destruct Hc as (col & <- & _). unfold rep_col. now rewrite map_length.
Qed.

Lemma data_cols_lengths (rs dst cst : list (string * grid)) : length stRs = length rs -> length stDst = length dst -> length stCst = length cst ->
  length data_colsA = length ((rs ++ rc) ++ dst) /\ length data_colsC = length cst.
Proof.
  intros H1 H2 H3. unfold data_colsA, data_colsC, rc_cols. rewrite !app_length, !map_length, combine_length, seq_length, Nat.min_id. lia.
Qed.

(* every agent with a passing combination has a row *)
Lemma agent_has_rows a : a < nag -> (exists ci, in_bounds (sizes rc) ci /\ keepA a ci = true) -> rows_of_segment data_ids a <> [].
Proof.
  intros Ha (ci & Hb & Hk) E. destruct (proj2 (data_rows_structure a Ha) ci Hb Hk) as (row & Hrow & _). rewrite E in Hrow. destruct Hrow.
Qed.
End DataRows.

(* ---- the decision theorem on this data space ---------------------------------------------------------------------------------- *)
From Coq Require Import Permutation.
From LCM Require Import Spec.Bellman Spec.Layout Proofs.C10_Choices Proofs.C14_Refine Proofs.C01_Sparse Proofs.C02_Decision.

Section OnDataRows.
Variables (m : model) (p : params) (t : nat) (rs rc dst dch cst cch : list (string * grid)).
Variables (nag : nat) (stRs stDst stCst : list (list Q)).
Hypothesis Hfree : forall x, In x (map fst (dch ++ cch)) -> is_restricted m x = false.

Definition agent_sigma (a : nat) : env := sigma_agent rs dst cst (at_row stRs a) (at_row stDst a) (at_row stCst a).
(* the filters at the agent's states and a restricted-choice combination (what create_data_scs evaluates) *)
Definition keep_of (a : nat) (ci : list nat) : bool :=
  forallb (holds m p (agent_sigma a ++ env_of_idx rc ci ++ [(period_name, Qofnat t)])%list) (filters m).

Lemma dropped_on_data_rows a ci dc cidx : keep_of a ci = false ->
  feasible m p (agent_sigma a ++ (env_of_idx rc ci ++ env_of_idx dch dc ++ env_of_idx cch cidx) ++ [(period_name, Qofnat t)])%list = false.
Proof.
  intros Hk. unfold feasible. apply andb_false_iff. left. rewrite <- Hk. unfold keep_of.
  assert (E : forall f, In f (filters m) ->
            holds m p (agent_sigma a ++ (env_of_idx rc ci ++ env_of_idx dch dc ++ env_of_idx cch cidx) ++ [(period_name, Qofnat t)])%list f
            = holds m p (agent_sigma a ++ env_of_idx rc ci ++ [(period_name, Qofnat t)])%list f).
  { intros f Hf. apply (filter_holds_locally m p _ _ f Hf). intros x Hx. rewrite !assoc_app.
    assert (F : forall vars idx, (forall y, In y (map fst vars) -> In y (map fst (dch ++ cch))) -> assoc x (env_of_idx vars idx) = None).
    { intros vars idx Hsub. apply assoc_env_of_idx_notin. intros Hin. rewrite (Hfree x (Hsub x Hin)) in Hx. discriminate. }
    rewrite (F dch dc), (F cch cidx); [destruct (assoc x (agent_sigma a)); [reflexivity|]; destruct (assoc x (env_of_idx rc ci)); reflexivity| |];
      intros y Hy; rewrite map_app; apply in_or_app; [now right|now left]. }
  clear Hk. induction (filters m) as [|f r IH]; [reflexivity|]. cbn [forallb]. rewrite (E f (or_introl eq_refl)), IH; [reflexivity|].
  intros g Hg. apply E. now right.
Qed.
End OnDataRows.

Theorem sparse_decision_on_the_data_space :
  forall (m : model) (p : params) (t : nat) (F : list nat -> Q) (rs rc dst dch cst cch : list (string * grid))
         (isr : string -> bool) (remaining : list (list nat)),
  Permutation (rc ++ dch ++ cch) (choices m) -> NoDup (map fst (choices m)) ->
  NoDup (map fst (rs ++ rc ++ dst ++ cst ++ dch ++ cch) ++ [period_name]) ->
  NoDup (map fst (states m)) -> grids_valid (states m) ->
  (forall x, In x (map fst (dch ++ cch)) -> is_restricted m x = false) ->
  (* the agents' states: one column per state variable *)
  forall (nag : nat) (stRs stDst stCst : list (list Q)),
  length stRs = length rs -> length stDst = length dst -> length stCst = length cst ->
  let keepA := keep_of m p t rs rc dst cst stRs stDst stCst in
  let rows := data_rows rc nag keepA in
  let colsA := data_colsA rc nag keepA stRs stDst in
  let colsC := data_colsC rc nag keepA stCst in
  let ids := data_ids rc nag keepA in
  (colsA ++ colsC)%list <> [] ->
  let uf := uf_code_sparse m p t F rs rc dst dch cst cch isr remaining in
  (forall row dc cc, row < length rows -> in_bounds (sizes dch) dc -> in_bounds (sizes cch) cc ->
     evaluates_at_ix m p F isr remaining (env_of_vals6 t rs rc dst dch cst cch (agent_vals dch cch colsA colsC row dc cc))) ->
  forall a, a < nag ->
  (* the agent has an admissible restricted-choice combination (otherwise: finding C12) *)
  (exists ci, in_bounds (sizes rc) ci /\ keepA a ci = true) ->
  let vnext := fun idx => VFin (F idx) in
  let sigma := agent_sigma rs dst cst stRs stDst stCst a in
  let V := value_agent rs rc dst dch cst cch uf colsA colsC ids nag a in
  veq V (value_at m p t false vnext sigma) /\
  (V <> VNegInf ->
   let row := row_agent rs rc dst dch cst cch uf colsA colsC ids nag a in
   let ci := ci_of_row rc nag keepA row in
   let red := red_g ((rs ++ rc) ++ dst) dch cst cch uf colsA colsC row in
   let cidx := unravel (sizes cch) (cont_argmax_g ((rs ++ rc) ++ dst) dch cst cch uf colsA colsC row) in
   In row (rows_of_segment ids a) /\ in_bounds (sizes rc) ci /\ in_bounds (sizes dch) red /\ in_bounds (sizes cch) cidx /\
   feasible m p (sigma ++ (env_of_idx rc ci ++ env_of_idx dch red ++ env_of_idx cch cidx) ++ [(period_name, Qofnat t)])%list = true /\
   veq (objective m p false vnext (sigma ++ (env_of_idx rc ci ++ env_of_idx dch red ++ env_of_idx cch cidx) ++ [(period_name, Qofnat t)])%list) V).
Proof.
  intros m p t F rs rc dst dch cst cch isr remaining Hperm Hnd Hnames Hnds Hvalid Hfree nag stRs stDst stCst L1 L2 L3
         keepA rows colsA colsC ids Hne uf Heval a Ha Hex vnext sigma V.
  destruct (data_cols_lengths rc nag keepA stRs stDst stCst rs dst cst L1 L2 L3) as [HlA HlC].
  destruct (data_rows_structure rc nag keepA stRs stDst stCst a Ha) as [Hrows Hstored].
  assert (La : forall cols : list (list Q), length (at_row cols a) = length cols) by (intros; unfold at_row; apply map_length).
  exact (sparse_decision_of_the_code_is_optimal m p t F rs rc dst dch cst cch isr remaining Hperm Hnd Hnames Hnds Hvalid
           (length rows) colsA colsC HlA HlC (data_cols_format rc nag keepA stRs stDst stCst) Hne Heval
           ids nag (data_ids_length rc nag keepA) a (at_row stRs a) (at_row stDst a) (at_row stCst a) (keepA a) (ci_of_row rc nag keepA)
           Ha (eq_trans (La stRs) L1) (eq_trans (La stDst) L2) (eq_trans (La stCst) L3) Hrows Hstored
           (fun ci dc cidx _ _ _ Hk => dropped_on_data_rows m p t rs rc dst dch cst cch stRs stDst stCst Hfree a ci dc cidx Hk)
           (agent_has_rows rc nag keepA stRs stDst stCst a Ha Hex)).
Qed.

(* the last period *)
Theorem sparse_last_decision_on_the_data_space :
  forall (m : model) (p : params) (t : nat) (vnext : list nat -> val) (rs rc dst dch cst cch : list (string * grid)),
  Permutation (rc ++ dch ++ cch) (choices m) -> NoDup (map fst (choices m)) ->
  NoDup (map fst (rs ++ rc ++ dst ++ cst ++ dch ++ cch) ++ [period_name]) ->
  (forall x, In x (map fst (dch ++ cch)) -> is_restricted m x = false) ->
  forall (nag : nat) (stRs stDst stCst : list (list Q)),
  length stRs = length rs -> length stDst = length dst -> length stCst = length cst ->
  let keepA := keep_of m p t rs rc dst cst stRs stDst stCst in
  let rows := data_rows rc nag keepA in
  let colsA := data_colsA rc nag keepA stRs stDst in
  let colsC := data_colsC rc nag keepA stCst in
  let ids := data_ids rc nag keepA in
  (colsA ++ colsC)%list <> [] ->
  let uf := uf_code_sparse_last m p t rs rc dst dch cst cch in
  (forall row dc cc, row < length rows -> in_bounds (sizes dch) dc -> in_bounds (sizes cch) cc ->
     exists u, eval_fun (depth m) m p (env_of_vals6 t rs rc dst dch cst cch (agent_vals dch cch colsA colsC row dc cc)) "utility" = Some u) ->
  forall a, a < nag ->
  (exists ci, in_bounds (sizes rc) ci /\ keepA a ci = true) ->
  let sigma := agent_sigma rs dst cst stRs stDst stCst a in
  let V := value_agent rs rc dst dch cst cch uf colsA colsC ids nag a in
  veq V (value_at m p t true vnext sigma) /\
  (V <> VNegInf ->
   let row := row_agent rs rc dst dch cst cch uf colsA colsC ids nag a in
   let ci := ci_of_row rc nag keepA row in
   let red := red_g ((rs ++ rc) ++ dst) dch cst cch uf colsA colsC row in
   let cidx := unravel (sizes cch) (cont_argmax_g ((rs ++ rc) ++ dst) dch cst cch uf colsA colsC row) in
   In row (rows_of_segment ids a) /\ in_bounds (sizes rc) ci /\ in_bounds (sizes dch) red /\ in_bounds (sizes cch) cidx /\
   feasible m p (sigma ++ (env_of_idx rc ci ++ env_of_idx dch red ++ env_of_idx cch cidx) ++ [(period_name, Qofnat t)])%list = true /\
   veq (objective m p true vnext (sigma ++ (env_of_idx rc ci ++ env_of_idx dch red ++ env_of_idx cch cidx) ++ [(period_name, Qofnat t)])%list) V).
Proof.
  intros m p t vnext rs rc dst dch cst cch Hperm Hnd Hnames Hfree nag stRs stDst stCst L1 L2 L3
         keepA rows colsA colsC ids Hne uf Heval a Ha Hex sigma V.
  destruct (data_cols_lengths rc nag keepA stRs stDst stCst rs dst cst L1 L2 L3) as [HlA HlC].
  destruct (data_rows_structure rc nag keepA stRs stDst stCst a Ha) as [Hrows Hstored].
  assert (La : forall cols : list (list Q), length (at_row cols a) = length cols) by (intros; unfold at_row; apply map_length).
  exact (sparse_last_decision_of_the_code_is_optimal m p t vnext rs rc dst dch cst cch Hperm Hnd Hnames
           (length rows) colsA colsC HlA HlC (data_cols_format rc nag keepA stRs stDst stCst) Hne Heval
           ids nag (data_ids_length rc nag keepA) a (at_row stRs a) (at_row stDst a) (at_row stCst a) (keepA a) (ci_of_row rc nag keepA)
           Ha (eq_trans (La stRs) L1) (eq_trans (La stDst) L2) (eq_trans (La stCst) L3) Hrows Hstored
           (fun ci dc cidx _ _ _ Hk => dropped_on_data_rows m p t rs rc dst dch cst cch stRs stDst stCst Hfree a ci dc cidx Hk)
           (agent_has_rows rc nag keepA stRs stDst stCst a Ha Hex)).
Qed.

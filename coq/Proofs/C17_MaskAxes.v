(* Proofs/C17_MaskAxes.v — the axes of the filter mask when model.grids follows variable_info (C05_Grids): the filter-restricted       *)
(* variables in the order of variable_info — restricted states, then restricted choices, each in declaration order.                     *)
From LCM Require Import Base.Prelude Base.Arr Model.Dispatchers Model.PyVocab Spec.Lang Gen.ChoiceAxes Gen.FilterMask.
From LCM Require Import Proofs.PyVocabLemmas Proofs.C17_FilterMask Proofs.C18_VarInfo.
Local Open Scope nat_scope.

Lemma nodup_map_inj {A B} (f : A -> B) : forall l a b, NoDup (map f l) -> In a l -> In b l -> f a = f b -> a = b.
Proof.
  induction l as [|x r IH]; intros a b Hn Ha Hb E; [destruct Ha|]. inversion Hn as [|? ? Hx Hr]; subst.
  destruct Ha as [->|Ha], Hb as [->|Hb]; try reflexivity.
  - exfalso. apply Hx. rewrite E. now apply in_map.
  - exfalso. apply Hx. rewrite <- E. now apply in_map.
  - now apply IH.
Qed.

Theorem mask_axes_are_the_sparse_variables (vi : list varinfo) (grids : list (string * list Q)) :
  NoDup (map vname vi) -> map fst grids = map vname vi ->
  fm_axis vi grids None = map vname (filter (fun v => is_sparse v) vi).
Proof.
  intros Hn Hg. unfold fm_axis, fm_subset. rewrite Hg, filter_map_comm. f_equal. apply filter_ext_in. intros r Hr.
  destruct (is_sparse r) eqn:E.
  - apply mem_str_In. apply in_map. apply filter_In. now split.
  - apply Bool.not_true_iff_false. intros H. apply mem_str_In in H. apply in_map_iff in H. destruct H as (r' & En & Hr').
    apply filter_In in Hr'. destruct Hr' as [Hin Hs]. rewrite (nodup_map_inj vname vi r' r Hn Hin Hr En) in Hs. congruence.
Qed.

(* for the variable_info of a model: the restricted states, then the restricted choices *)
Theorem mask_axes_of_a_model (rs rc dst dch cst cch : list (string * grid)) (grids : list (string * list Q)) :
  NoDup (map vname (vi_sparse rs rc dst dch cst cch)) -> map fst grids = map vname (vi_sparse rs rc dst dch cst cch) ->
  fm_axis (vi_sparse rs rc dst dch cst cch) grids None = (map fst rs ++ map fst rc)%list.
Proof.
  intros Hn Hg. rewrite (mask_axes_are_the_sparse_variables _ grids Hn Hg). unfold vi_sparse, vi_of.
  rewrite !filter_app, !map_app.
  rewrite (filter_map_const (vinfo_sparse true) (fun v => is_sparse v) true) by reflexivity.
  rewrite (filter_map_const (vinfo_sparse false) (fun v => is_sparse v) true) by reflexivity.
  rewrite !(filter_map_const (vinfo _ _) (fun v => is_sparse v) false) by reflexivity.
  cbn [map app]. rewrite !app_nil_r, !map_map. reflexivity.
Qed.

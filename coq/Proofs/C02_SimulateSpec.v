(* Proofs/C02_SimulateSpec.v — END TO END (models without filter-restricted variables): every row of what simulate returns   *)
(* is a feasible maximiser of the objective built from THE SPECIFICATION's solution (solve_spec), not merely from the arrays     *)
(* the code computed: the all-rows theorem (C02_SimulateAll) composed with "what solve returns is solve_spec" (C01_SolveSpec).  *)
From Coq Require Import Lqa Lia Permutation.
From LCM Require Import Base.Prelude Base.Arr Base.ArrOps Model.RandomChoice.
From LCM Require Import Spec.Lang Spec.Bellman Proofs.ArrLemmas Proofs.Spec_Algebra Proofs.C14_Refine Proofs.C14_OnLayout Proofs.C04_SimulateLoop
                        Proofs.C01_Compose Proofs.C01_MaxCompose Proofs.C01_Period Proofs.C01_Agents Proofs.C01_Solve Proofs.C01_SolveSpec
                        Proofs.C02_Decision Proofs.C02_SimulateAll.
Local Open Scope nat_scope.

Section SimulateSpec.
Variables (m : model) (p : params) (dch cch : list (string * grid)).
Let n := Lang.n_periods m.
Let sts := states m.
Let dst := dstates sts.
Let cst := cstates sts.
Hypothesis Hperm : Permutation (dch ++ cch) (choices m).
Hypothesis Hnd : NoDup (map fst (choices m)).
Hypothesis Hnds : NoDup (map fst sts).
Hypothesis Hvalid : grids_valid sts.
Hypothesis Hnames : NoDup (map fst (dst ++ dch ++ cst ++ cch)).
Hypothesis Hn : 1 <= n.
(* the hypotheses of "solve is solve_spec" *)
Hypothesis Heval : forall t, S t < n -> forall ds dc cs cc,
  in_bounds (sizes dst) ds -> in_bounds (sizes dch) dc -> in_bounds (sizes cst) cs -> in_bounds (sizes cch) cc ->
  evaluates_at m p (fun _ => 0%Q) (spec_env t dst dch cst cch ds dc cs cc).
Hypothesis Hlast : forall t, S t = n -> forall ds dc cs cc,
  in_bounds (sizes dst) ds -> in_bounds (sizes dch) dc -> in_bounds (sizes cst) cs -> in_bounds (sizes cch) cc ->
  exists u, eval_fun (depth m) m p (spec_env t dst dch cst cch ds dc cs cc) "utility" = Some u.
Hypothesis Hfin : forall t idx, t < n -> in_bounds (state_shape m) idx ->
  exists q, get VUndef (nth t (solve_spec m p) (scalar VUndef)) idx = VFin q.

(* the table the code reads in period t is the specification's table of period t+1, on the grid *)
Lemma next_table_is_the_specifications t : S t < n ->
  forall idx, in_bounds (state_shape m) idx ->
  veq (VFin (next_table m p n dch cch t idx)) (get VUndef (nth (S t) (solve_spec m p) (scalar VUndef)) idx).
Proof.
  intros Ht idx Hb. unfold next_table, table_of.
  pose proof (lcm_solve_is_the_specifications_solve m p dch cch Hperm Hnd Hnds Hvalid Hnames Heval Hlast Hfin (S t) idx Ht Hb) as V.
  destruct (Hfin (S t) idx Ht Hb) as (q & Hq). rewrite Hq in *. unfold n, sts in *.
  destruct (get VUndef (nth (S t) (code_solve m p (Lang.n_periods m) dch cch) (scalar VUndef)) (dpart (states m) idx ++ cpart (states m) idx));
    simpl in V; try contradiction.
  exact V.
Qed.

Variable nag : nat.
Variable trans : S_states -> list (list nat * list nat) -> nat -> list key -> S_states.
Variables (initial : S_states) (seed : nat) (prng : nat -> key) (n_stoch : nat).
Let st := states_at m p n dch cch nag trans initial seed prng n_stoch.
Hypothesis Hformat : forall t, t < n ->
  length (fst (st t)) = length dst /\ length (snd (st t)) = length cst /\
  Forall (fun c : list Q => length c = nag) (fst (st t) ++ snd (st t)) /\ (fst (st t) ++ snd (st t))%list <> [].
Hypothesis Heval_rows : forall t i dc cc, S t < n -> i < nag -> in_bounds (sizes dch) dc -> in_bounds (sizes cch) cc ->
  evaluates_at m p (fun _ => 0%Q) (agent_env t dst dch cst cch (fst (st t)) (snd (st t)) i dc cc).
Hypothesis Hlast_rows : forall t i dc cc, S t = n -> i < nag -> in_bounds (sizes dch) dc -> in_bounds (sizes cch) cc ->
  exists u, eval_fun (depth m) m p (agent_env t dst dch cst cch (fst (st t)) (snd (st t)) i dc cc) "utility" = Some u.

Theorem every_simulated_row_is_optimal_for_the_specifications_solution t i : t < n -> i < nag ->
  let V := C02_SimulateAll.row_value m p n dch cch nag trans initial seed prng n_stoch t i in
  let ch := row_choice m p n dch cch nag trans initial seed prng n_stoch t i in
  let cD := fst (st t) in let cC := snd (st t) in
  let vspec := fun idx => get VUndef (nth (S t) (solve_spec m p) (scalar VUndef)) idx in
  let last := (t =? n - 1) in
  veq V (value_at m p t last vspec (agent_state dst cst cD cC i)) /\
  (V <> VNegInf ->
   in_bounds (sizes dch) (fst ch) /\ in_bounds (sizes cch) (snd ch) /\
   feasible m p (agent_env t dst dch cst cch cD cC i (fst ch) (snd ch)) = true /\
   veq (objective m p last vspec (agent_env t dst dch cst cch cD cC i (fst ch) (snd ch))) V).
Proof.
  intros Ht Hi. cbv zeta.
  pose proof (every_simulated_row_is_a_feasible_maximiser m p n dch cch Hperm Hnd Hnds Hvalid Hnames Hn nag trans initial seed prng n_stoch
                Hformat
                (fun t' i' dc cc H1 H2 H3 H4 => evaluates_at_indep m p _ _ _ (Heval_rows t' i' dc cc H1 H2 H3 H4))
                Hlast_rows t i Ht Hi) as [HV HM]. cbv zeta in HV, HM.
  destruct (row_unfold m p n dch cch Hn nag trans initial seed prng n_stoch t i Ht Hi) as (Es & _ & _). cbv zeta in Es.
  fold st in Es. rewrite Es in HV, HM.
  destruct (Nat.eq_dec (S t) n) as [E|E].
  - (* last period: no continuation *)
    replace (t =? n - 1) with true in * by (symmetry; apply Nat.eqb_eq; lia).
    split.
    + eapply veq_trans; [exact HV|]. apply value_at_last_any_next. intros a. reflexivity.
    + intros Hne. destruct (HM Hne) as (B1 & B2 & B3 & B4). repeat split; assumption.
  - assert (Ht' : S t < n) by lia. replace (t =? n - 1) with false in * by (symmetry; apply Nat.eqb_neq; lia).
    split.
    + eapply veq_trans; [exact HV|].
      apply (value_at_veq_on_grid m p Hvalid _ _ (fun idx Hb => next_table_is_the_specifications t Ht' idx Hb) t false). intros a. reflexivity.
    + intros Hne. destruct (HM Hne) as (B1 & B2 & B3 & B4). repeat split; try assumption.
      eapply veq_trans; [|exact B4]. apply veq_sym.
      apply (objective_veq_on_grid m p Hvalid _ _ (fun idx Hb => next_table_is_the_specifications t Ht' idx Hb) false).
Qed.
End SimulateSpec.

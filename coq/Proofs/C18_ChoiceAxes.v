(* Proofs/C18_ChoiceAxes.v — about the regenerated _determine_dense_discrete_choice_axes             *)
(* (Gen/ChoiceAxes.v): the axes reduced by the plain maximum are exactly the positions, in the layout   *)
(* [sparse axis if any] ++ [dense variables that are not continuous choices, in index order], of the    *)
(* dense variables that are choices; None iff there is none.                                            *)
From Coq Require Import Lia.
From LCM Require Import Base.Prelude Gen.ChoiceAxes.
Local Open Scope nat_scope.

Lemma mem_str_In x l : mem_str x l = true <-> In x l.
Proof.
  unfold mem_str. rewrite existsb_exists. split.
  - intros (y & Hy & E). apply String.eqb_eq in E. now subst.
  - intros H. exists x. split; [exact H|apply String.eqb_refl].
Qed.

(* positions selected by enumerate + filter *)
Lemma positions_spec {A} (P : A -> bool) (d : A) : forall (l : list A) s i,
  In i (map fst (filter (fun ix => P (snd ix)) (combine (seq s (length l)) l)))
  <-> s <= i < s + length l /\ P (nth (i - s) l d) = true.
Proof.
  induction l as [|x r IH]; intros s i; cbn [length seq combine filter map].
  - split; [intros []|intros [H _]; lia].
  - cbn [snd]. destruct (P x) eqn:Px; cbn [map fst In]; rewrite IH; split.
    + intros [<-|[H1 H2]].
      * split; [lia|]. now rewrite Nat.sub_diag.
      * split; [lia|]. replace (i - s) with (S (i - S s)) by lia. exact H2.
    + intros [H1 H2]. destruct (Nat.eq_dec s i) as [E|E]; [now left|right]. split; [lia|].
      replace (i - s) with (S (i - S s)) in H2 by lia. exact H2.
    + intros [H1 H2]. split; [lia|]. replace (i - s) with (S (i - S s)) by lia. exact H2.
    + intros [H1 H2]. destruct (Nat.eq_dec s i) as [E|E].
      * subst. rewrite Nat.sub_diag in H2. cbn [nth] in H2. congruence.
      * split; [lia|]. replace (i - s) with (S (i - S s)) in H2 by lia. exact H2.
Qed.

Section Axes.
Variable vi : list varinfo.
Hypothesis Hnames : NoDup (map vname vi).
Hypothesis Hreserved : ~ In "__sparse__"%string (map vname vi).

Definition dense_layout : list varinfo := filter (fun v => is_dense v && negb (is_choice v && is_continuous v)) vi.
Definition offset : nat := if existsb is_sparse vi then 1 else 0.
Definition d_var : varinfo := mkVarinfo "" false false false false false false false false.

Lemma choice_name_iff v : In v vi -> (mem_str (vname v) (map vname (filter (fun v => is_choice v) vi)) = true <-> is_choice v = true).
Proof.
  intros Hv. rewrite mem_str_In, in_map_iff. split.
  - intros (w & Hw & Hin). apply filter_In in Hin. destruct Hin as [Hwi Hc].
    assert (w = v); [|now subst].
    clear Hc. revert Hnames Hv Hwi Hw. clear. induction vi as [|a r IH]; intros ND Hv Hw E; [contradiction|].
    inversion ND as [|? ? Hn ND']; subst. destruct Hv as [->|Hv], Hw as [->|Hw]; auto.
    + exfalso. apply Hn. rewrite <- E. now apply in_map.
    + exfalso. apply Hn. rewrite E. now apply in_map.
  - intros Hc. exists v. split; [reflexivity|]. apply filter_In. now split.
Qed.

Theorem choice_axes_spec :
  match determine_dense_discrete_choice_axes vi with
  | Some axes => axes <> [] /\
                 forall i, In i axes <-> exists j, i = offset + j /\ j < length dense_layout /\
                                                  is_choice (nth j dense_layout d_var) = true
  | None => forall j, j < length dense_layout -> is_choice (nth j dense_layout d_var) = false
  end.
Proof.
  unfold determine_dense_discrete_choice_axes. fold dense_layout.
  set (cv := map vname (filter (fun v => is_choice v) vi)).
  set (axes := if existsb is_sparse vi then "__sparse__"%string :: map vname dense_layout else map vname dense_layout).
  assert (Hpos : forall i, In i (map fst (filter (fun iax => mem_str (snd iax) cv) (combine (seq 0 (length axes)) axes)))
                       <-> exists j, i = offset + j /\ j < length dense_layout /\ is_choice (nth j dense_layout d_var) = true).
  { intros i. rewrite (positions_spec (fun ax => mem_str ax cv) ""%string axes 0 i). rewrite Nat.sub_0_r. cbn [plus].
    assert (Hd : forall j, j < length dense_layout ->
               (mem_str (nth j (map vname dense_layout) ""%string) cv = true <-> is_choice (nth j dense_layout d_var) = true)).
    { intros j Hj. change ""%string with (vname d_var). rewrite map_nth. apply choice_name_iff.
      assert (Hin : In (nth j dense_layout d_var) dense_layout) by (now apply nth_In).
      unfold dense_layout in Hin. apply filter_In in Hin. tauto. }
    unfold axes, offset. destruct (existsb is_sparse vi).
    - cbn [length]. split.
      + intros [[_ H1] H2]. destruct i as [|j].
        * exfalso. cbn [nth] in H2. apply mem_str_In in H2. unfold cv in H2. apply in_map_iff in H2.
          destruct H2 as (w & Hw & Hin). apply filter_In in Hin. apply Hreserved. rewrite <- Hw. apply in_map. tauto.
        * exists j. rewrite map_length in H1. split; [reflexivity|]. split; [lia|]. cbn [nth] in H2. apply Hd; [lia|exact H2].
      + intros (j & -> & Hj & Hc). rewrite map_length. split; [lia|]. cbn [plus nth]. now apply Hd.
    - rewrite map_length. split.
      + intros [[_ H1] H2]. exists i. split; [reflexivity|]. split; [exact H1|]. now apply Hd.
      + intros (j & -> & Hj & Hc). cbn [plus]. split; [lia|]. now apply Hd. }
  destruct (map fst (filter _ (combine (seq 0 (length axes)) axes))) as [|a0 rest] eqn:E.
  - intros j Hj. destruct (is_choice (nth j dense_layout d_var)) eqn:Ec; [|reflexivity].
    exfalso. apply (proj2 (Hpos (offset + j))). now exists j.
  - split; [discriminate|exact Hpos].
Qed.
End Axes.

(* Proofs/C17_IndexersGen.v — the regenerated array programs of state_space.py (Gen/IndexersGen.v)     *)
(* ARE the model of Model/StateSpace.v that C17's (and C08's) theorems are about.                          *)
From LCM Require Import Base.Prelude Base.Arr Base.ArrOps Model.StateSpace Gen.IndexersGen.

Theorem gen_create_indexers_and_segments_is_model mask n :
  gen_create_indexers_and_segments mask n = create_indexers_and_segments mask n.
Proof. reflexivity. Qed.

Theorem gen_create_combination_grid_is_model grids mask :
  gen_create_combination_grid grids mask = combination_grid grids mask.
Proof. unfold gen_create_combination_grid, combination_grid. cbv zeta. now rewrite map_map. Qed.

(* the mask and the meshgrid it selects from have the same axes in the same order *)
Theorem mask_and_meshgrid_axes_agree grid_names subset :
  gen_filter_mask_axis_names grid_names subset = gen_combination_grid_axis_names grid_names subset.
Proof. reflexivity. Qed.

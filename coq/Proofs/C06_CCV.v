(* Proofs/C06_CCV.v — about the regenerated Gen/CCV.v: the maximum over the continuous choices that     *)
(* simulate recomputes (together with its position) is the maximum that solve stored, for the same       *)
(* utility and feasibility arrays; and that maximum is the maximum over the feasible entries.            *)
From Coq Require Import Lia.
From LCM Require Import Base.Prelude Base.Arr Base.ArrOps Gen.Argmax Gen.CCV.
From LCM Require Import Proofs.ArrLemmas Proofs.ArrLemmas2 Proofs.C18_Moved Proofs.C18_Spec.
Local Open Scope nat_scope.

Lemma nth_map_lt5 {A B} (g : A -> B) l j d d' : j < length l -> nth j (map g l) d = g (nth j l d').
Proof. revert j. induction l as [|x r IH]; intros [|j] H; simpl in *; try lia; auto. apply IH. lia. Qed.

Lemma front_axes_all rank : front_axes rank (seq 0 rank) = [].
Proof.
  unfold front_axes. assert (E : forall l, (forall k, In k l -> k < rank) -> filter (fun k => negb (existsb (Nat.eqb k) (seq 0 rank))) l = []).
  { induction l as [|k r IH]; intros H; [reflexivity|]. cbn [filter].
    assert (Hk : existsb (Nat.eqb k) (seq 0 rank) = true).
    { apply existsb_exists. exists k. split; [apply in_seq; specialize (H k (or_introl eq_refl)); lia|apply Nat.eqb_refl]. }
    rewrite Hk. cbn [negb]. apply IH. intros q Hq. apply H. now right. }
  apply E. intros k Hk. apply in_seq in Hk. lia.
Qed.

Lemma index_of_nat_seq : forall n s k, k < n -> index_of_nat (s + k) (seq s n) = Some k.
Proof.
  induction n as [|n IH]; intros s k H; [lia|]. cbn [seq index_of_nat]. destruct k as [|k].
  - rewrite Nat.add_0_r, Nat.eqb_refl. reflexivity.
  - replace (s + S k =? s) with false by (symmetry; apply Nat.eqb_neq; lia).
    replace (s + S k) with (S s + k) by lia. rewrite IH by lia. reflexivity.
Qed.

Lemma orig_index_identity rank inner : length inner = rank -> orig_index rank (seq 0 rank) [] inner = inner.
Proof.
  intros H. unfold orig_index, perm_of. rewrite front_axes_all. cbn [app].
  apply (nth_ext _ _ 0 0); [now rewrite map_length, seq_length|]. intros k Hk. rewrite map_length, seq_length in Hk.
  rewrite (nth_map_lt5 _ _ k 0 0) by (now rewrite seq_length).
  rewrite seq_nth by exact Hk. cbn [plus]. pose proof (index_of_nat_seq rank 0 k Hk) as E. cbn [plus] in E. now rewrite E.
Qed.

Lemma inner_shape_all sh : inner_shape sh (seq 0 (length sh)) = sh.
Proof.
  unfold inner_shape. apply (nth_ext _ _ 0 0); [now rewrite map_length, seq_length|]. intros k Hk. rewrite map_length, seq_length in Hk.
  rewrite (nth_map_lt5 _ _ k 0 0) by (now rewrite seq_length). now rewrite seq_nth.
Qed.

Lemma zip_with_as_seq {A B C} (f : A -> B -> C) (da : A) (db : B) : forall l1 l2, length l1 = length l2 ->
  zip_with f l1 l2 = map (fun k => f (nth k l1 da) (nth k l2 db)) (seq 0 (length l1)).
Proof.
  induction l1 as [|x r IH]; intros [|y l2] H; try discriminate; [reflexivity|]. cbn [zip_with length seq map nth]. f_equal.
  rewrite <- seq_shift, map_map. apply IH. simpl in H. lia.
Qed.

Section CCV.
Variables (u : arr val) (f : arr bool).
Hypothesis Hwf : wf u.
Hypothesis Hwff : wf f.
Hypothesis Hdef : Forall defined (data u).
Hypothesis Hms : shape f = shape u.

Lemma policy_unfold : compute_ccv_policy u f = argmax u (Some (seq 0 (length (shape u)))) (Some VNegInf) (Some f).
Proof.
  unfold compute_ccv_policy, as_floating.
  change (argmax u None (Some VNegInf) (Some f)) with (argmax u (Some (seq 0 (length (shape u)))) (Some VNegInf) (Some f)).
  now destruct (argmax u (Some (seq 0 (length (shape u)))) (Some VNegInf) (Some f)).
Qed.

(* the maximum simulate recomputes is the maximum solve stored *)
Theorem policy_maximum_is_the_stored_maximum :
  get VUndef (snd (compute_ccv_policy u f)) [] = compute_ccv u f.
Proof.
  rewrite policy_unfold. unfold compute_ccv, as_floating.
  assert (Ho : in_bounds (front_shape (shape u) (seq 0 (length (shape u)))) []).
  { unfold front_shape. rewrite front_axes_all. exact I. }
  destruct (@argmax_max_spec u f (seq 0 (length (shape u))) Hwf Hdef Hms [] Ho) as [HM _].
  rewrite HM. unfold max_where_initial, masked_vals. f_equal.
  rewrite (zip_with_as_seq _ VUndef false (data u) (data f)) by (rewrite Hwf, Hwff, Hms; reflexivity).
  rewrite inner_shape_all, Hwf. apply map_ext_in. intros k Hk. apply in_seq in Hk.
  unfold ok_, val_, at_. rewrite inner_shape_all.
  rewrite orig_index_identity by (rewrite (in_bounds_length (shape u) (unravel (shape u) k)); [reflexivity|apply unravel_in_bounds; lia]).
  unfold get. rewrite Hms, ravel_unravel by lia. reflexivity.
Qed.

(* ... and it is the maximum over the feasible entries: an upper bound of every feasible entry, attained by
   one of them unless there is none, in which case it is -inf *)
Theorem stored_maximum_is_max_over_feasible :
  let M := compute_ccv u f in
  defined M /\
  (forall idx, in_bounds (shape u) idx -> get false f idx = true -> vle (get VUndef u idx) M) /\
  (M = VNegInf \/ exists idx, in_bounds (shape u) idx /\ get false f idx = true /\ get VUndef u idx = M).
Proof.
  intros M. unfold M. rewrite <- policy_maximum_is_the_stored_maximum.
  rewrite policy_unfold.
  assert (Ho : in_bounds (front_shape (shape u) (seq 0 (length (shape u)))) []).
  { unfold front_shape. rewrite front_axes_all. exact I. }
  destruct (@argmax_max_spec u f (seq 0 (length (shape u))) Hwf Hdef Hms [] Ho) as (_ & Hd & Hub & Hat).
  assert (Hat_ : forall k, k < size (shape u) -> at_ u (seq 0 (length (shape u))) [] k = unravel (shape u) k).
  { intros k Hk. unfold at_. rewrite inner_shape_all.
    apply orig_index_identity. rewrite (in_bounds_length (shape u) (unravel (shape u) k)); [reflexivity|now apply unravel_in_bounds]. }
  split; [exact Hd|]. split.
  - intros idx Hb Hf. specialize (Hub (ravel (shape u) idx)). rewrite inner_shape_all in Hub.
    assert (L : ravel (shape u) idx < size (shape u)) by (now apply ravel_lt).
    unfold ok_, val_ in Hub. rewrite (Hat_ _ L), unravel_ravel in Hub by exact Hb. now apply Hub.
  - destruct Hat as [H|(k & Hk & Hok & Hv)]; [now left|right]. rewrite inner_shape_all in Hk.
    unfold ok_, val_ in Hok, Hv. rewrite (Hat_ _ Hk) in Hok, Hv.
    exists (unravel (shape u) k). split; [now apply unravel_in_bounds|split; assumption].
Qed.
End CCV.

(* Proofs/C02_SimKernels.v — about the regenerated index kernels of simulate (Gen/SimulateKernels.v):  *)
(* how arg-max positions become reported choices.                                                        *)
From Coq Require Import Lia.
From LCM Require Import Base.Prelude Base.Arr Base.ArrOps Gen.Argmax Gen.ChoiceAxes Gen.SimulateKernels.
From LCM Require Import Proofs.ArrLemmas Proofs.C14_FunRep Proofs.C18_ChoiceAxes.
Local Open Scope nat_scope.

Lemma nth_map_lt4 {A B} (f : A -> B) l j d d' : j < length l -> nth j (map f l) d = f (nth j l d').
Proof. revert j. induction l as [|x r IH]; intros [|j] H; simpl in *; try lia; auto. apply IH. lia. Qed.

(* the choice of variable j reported for row i is the grid point whose index is the j-th component of
   the multi-index (row-major, jnp.unravel_index) of row i's flat arg-max position *)
Theorem retrieved_choice_is_the_grid_point_at_the_unravelled_index
  (indices : list nat) (grids : list (string * list Q)) (grid_shape : list nat) j i d :
  j < length grids -> i < length indices ->
  let out := retrieve_non_sparse_choices (Some indices) grids grid_shape in
  fst (nth j out d) = fst (nth j grids d) /\
  nth i (snd (nth j out d)) 0%Q
  = nth (nth j (unravel grid_shape (nth i indices 0)) 0) (snd (nth j grids d)) 0%Q.
Proof.
  intros Hj Hi out. unfold out, retrieve_non_sparse_choices.
  rewrite (nth_map_lt4 _ _ j d (d, 0)) by (rewrite combine_length, seq_length, Nat.min_id; exact Hj).
  rewrite combine_nth by (now rewrite seq_length). rewrite seq_nth by exact Hj. cbn [fst snd plus].
  split; [reflexivity|].
  rewrite (nth_map_lt4 _ _ i 0%Q []) by (now rewrite map_length).
  rewrite (nth_map_lt4 (unravel grid_shape) _ i [] 0) by exact Hi. reflexivity.
Qed.

(* hence: when the flat position is that of the multi-index idx, the reported choices are the grid points idx *)
Corollary retrieved_choice_at_a_multi_index
  (indices : list nat) (grids : list (string * list Q)) (grid_shape idx : list nat) j i d :
  j < length grids -> i < length indices -> in_bounds grid_shape idx -> nth i indices 0 = ravel grid_shape idx ->
  nth i (snd (nth j (retrieve_non_sparse_choices (Some indices) grids grid_shape) d)) 0%Q
  = nth (nth j idx 0) (snd (nth j grids d)) 0%Q.
Proof.
  intros Hj Hi Hb E.
  destruct (retrieved_choice_is_the_grid_point_at_the_unravelled_index indices grids grid_shape j i d Hj Hi) as [_ H].
  rewrite H, E, unravel_ravel by exact Hb. reflexivity.
Qed.

Theorem no_indices_no_choices grids shape : retrieve_non_sparse_choices None grids shape = [].
Proof. reflexivity. Qed.

(* the continuous arg-max of a row is read at the multi-index of the row's dense arg-max *)
Theorem filtered_policy_is_the_policy_of_the_chosen_dense_combination
  (ccv_policy : arr nat) (dense_argmax : nat) (dense_shape r : list nat) :
  in_bounds (skipn (length (unravel dense_shape dense_argmax)) (shape ccv_policy)) r ->
  get 0 (filter_ccv_policy_row ccv_policy (Some dense_argmax) dense_shape) r
  = get 0 ccv_policy (unravel dense_shape dense_argmax ++ r).
Proof. intros H. unfold filter_ccv_policy_row. now apply get_subarr. Qed.

(* in the data state-choice space the dense discrete choices occupy the axes 1..k (axis 0 = rows of the data) *)
Theorem simulate_choice_axes (vi : list varinfo) :
  let k := length (filter (fun v => negb (is_continuous v) && is_dense v && is_choice v) vi) in
  SimulateKernels.determine_discrete_dense_choice_axes vi = match k with 0 => None | _ => Some (seq 1 k) end.
Proof.
  unfold SimulateKernels.determine_discrete_dense_choice_axes. cbv zeta.
  set (D := filter (fun v => negb (is_continuous v) && is_dense v && is_choice v) vi).
  set (cv := map vname (filter (fun v => is_choice v) vi)).
  assert (Hall : forall v, In v D -> mem_str (vname v) cv = true).
  { intros v Hv. apply mem_str_In. unfold cv. apply in_map. unfold D in Hv. apply filter_In in Hv. destruct Hv as [Hin Hc].
    apply filter_In. split; [exact Hin|]. apply andb_true_iff in Hc. tauto. }
  assert (E : forall l s, (forall v, In v l -> mem_str (vname v) cv = true) ->
            map (fun iax : nat * string => fst iax + 1)
                (filter (fun iax => mem_str (snd iax) cv) (combine (seq s (length (map vname l))) (map vname l)))
            = seq (S s) (length l)).
  { induction l as [|v r IH]; intros s H; [reflexivity|]. cbn [map length seq combine filter snd].
    rewrite (H v (or_introl eq_refl)). cbn [map fst]. f_equal; [lia|]. apply IH. intros w Hw. apply H. now right. }
  rewrite (E D 0 Hall). destruct (length D); reflexivity.
Qed.

(* Proofs/C13_Panel.v — the panel has n_periods * n_agents rows in period-major order; row    *)
(* (t, i) of every column is agent i's entry of period t; "_period" equals t.                  *)
From LCM Require Import Base.Prelude Model.Panel.
Local Open Scope nat_scope.

Lemma concat_nth {A} (d : A) n : forall (ls : list (list A)) t i,
  Forall (fun l => length l = n) ls -> t < length ls -> i < n ->
  nth (t * n + i) (concat ls) d = nth i (nth t ls []) d.
Proof.
  induction ls as [|l r IH]; intros t i Hall Ht Hi; simpl in *; [lia|].
  inversion Hall as [|? ? Hl Hr]; subst.
  destruct t as [|t]; simpl.
  - rewrite app_nth1 by lia. reflexivity.
  - rewrite app_nth2 by lia. replace (length l + t * length l + i - length l) with (t * length l + i) by lia.
    apply IH; auto. lia.
Qed.

Lemma concat_length {A} n : forall (ls : list (list A)),
  Forall (fun l => length l = n) ls -> length (concat ls) = length ls * n.
Proof.
  induction ls as [|l r IH]; intros Hall; simpl; [reflexivity|].
  inversion Hall; subst. rewrite app_length, IH by assumption. lia.
Qed.

Lemma flat_map_concat {A B} (f : A -> list B) l : flat_map f l = concat (map f l).
Proof. induction l; simpl; [reflexivity|]. now rewrite IHl. Qed.

Lemma assoc_map_app {B} keys (g : string -> B) tail k : In k keys ->
  assoc k (map (fun k0 => (k0, g k0)) keys ++ tail)%list = Some (g k).
Proof.
  induction keys as [|k0 ks IH]; intros Hk; [destruct Hk|].
  simpl. destruct (String.eqb_spec k k0) as [->|Hne]; [reflexivity|].
  apply IH. destruct Hk as [E|H]; [congruence|exact H].
Qed.

Lemma assoc_map_app_notin {B} keys (g : string -> B) tail k : ~ In k keys ->
  assoc k (map (fun k0 => (k0, g k0)) keys ++ tail)%list = assoc k tail.
Proof.
  induction keys as [|k0 ks IH]; intros Hk; [reflexivity|].
  simpl. destruct (String.eqb_spec k k0) as [->|Hne]; [exfalso; apply Hk; now left|].
  apply IH. intro H. apply Hk. now right.
Qed.

Section Panel.
Variables (results : list period_result) (n : nat).
(* every period reports every column for the same n agents *)
Hypothesis Hcols : forall d k, In d results -> In k (map fst (hd [] results)) -> length (col d k) = n.
Hypothesis Hvalue : length (col (hd [] results) "value") = n.
Let T := length results.

Definition panel := process_simulated_data results.

Lemma assoc_panel k : In k (map fst (hd [] results)) ->
  col panel k = concat (map (fun d => col d k) results).
Proof.
  intros Hk. unfold panel, process_simulated_data, col at 1.
  now rewrite (assoc_map_app _ (fun k0 => concat (map (fun d => col d k0) results)) _ k Hk).
Qed.

Theorem column_length k : In k (map fst (hd [] results)) -> length (col panel k) = T * n.
Proof.
  intros Hk. rewrite assoc_panel by exact Hk. rewrite (concat_length n).
  - now rewrite map_length.
  - apply Forall_forall. intros l Hl. apply in_map_iff in Hl. destruct Hl as (d & <- & Hd). now apply Hcols.
Qed.

(* row (t, i) of a column is agent i's entry of period t *)
Theorem row_content k t i : In k (map fst (hd [] results)) -> t < T -> i < n ->
  nth (t * n + i) (col panel k) 0%Q = nth i (col (nth t results []) k) 0%Q.
Proof.
  intros Hk Ht Hi. rewrite assoc_panel by assumption.
  rewrite (concat_nth 0%Q n).
  - rewrite (nth_indep _ [] ((fun d => col d k) [])) by (now rewrite map_length).
    now rewrite (map_nth (fun d => col d k)).
  - apply Forall_forall. intros l Hl. apply in_map_iff in Hl. destruct Hl as (d & <- & Hd). now apply Hcols.
  - now rewrite map_length.
  - exact Hi.
Qed.

Lemma period_col_is : ~ In "_period"%string (map fst (hd [] results)) ->
  col panel "_period" = flat_map (fun t => repeat (Qofnat t) n) (seq 0 T).
Proof.
  intros Hn. unfold panel, process_simulated_data, col at 1. rewrite Hvalue.
  rewrite (assoc_map_app_notin _ (fun k0 => concat (map (fun d => col d k0) results)) _ _ Hn).
  simpl. reflexivity.
Qed.

Theorem period_column t i : ~ In "_period"%string (map fst (hd [] results)) -> t < T -> i < n ->
  nth (t * n + i) (col panel "_period") 0%Q = Qofnat t /\ length (col panel "_period") = T * n.
Proof.
  intros Hn Ht Hi. rewrite period_col_is by assumption. rewrite flat_map_concat.
  assert (Hall : Forall (fun l : list Q => length l = n) (map (fun t0 => repeat (Qofnat t0) n) (seq 0 T))).
  { apply Forall_forall. intros l Hl. apply in_map_iff in Hl. destruct Hl as (t0 & <- & _). apply repeat_length. }
  split.
  - rewrite (concat_nth 0%Q n) by (auto; now rewrite map_length, seq_length).
    rewrite (nth_indep _ [] ((fun t0 => repeat (Qofnat t0) n) 0)) by (now rewrite map_length, seq_length).
    rewrite (map_nth (fun t0 => repeat (Qofnat t0) n)), seq_nth by exact Ht. simpl.
    rewrite (nth_indep _ 0%Q (Qofnat t)) by (now rewrite repeat_length). apply nth_repeat.
  - rewrite (concat_length n) by exact Hall. now rewrite map_length, seq_length.
Qed.
End Panel.

Theorem index_is_period_major n_periods n t i : t < n_periods -> i < n ->
  nth (t * n + i) (panel_index n_periods n) (0, 0) = (t, i) /\
  length (panel_index n_periods n) = n_periods * n.
Proof.
  intros Ht Hi. unfold panel_index. rewrite flat_map_concat.
  assert (Hall : Forall (fun l : list (nat * nat) => length l = n)
                        (map (fun t0 => map (fun i0 => (t0, i0)) (seq 0 n)) (seq 0 n_periods))).
  { apply Forall_forall. intros l Hl. apply in_map_iff in Hl. destruct Hl as (t0 & <- & _).
    now rewrite map_length, seq_length. }
  split.
  - rewrite (concat_nth (0, 0) n) by (auto; now rewrite map_length, seq_length).
    rewrite (nth_indep _ [] ((fun t0 => map (fun i0 => (t0, i0)) (seq 0 n)) 0)) by (now rewrite map_length, seq_length).
    rewrite (map_nth (fun t0 => map (fun i0 => (t0, i0)) (seq 0 n))), seq_nth by exact Ht. simpl.
    rewrite (nth_indep _ (0, 0) ((fun i0 => (t, i0)) 0)) by (now rewrite map_length, seq_length).
    rewrite (map_nth (fun i0 => (t, i0))), seq_nth by exact Hi. reflexivity.
  - rewrite (concat_length n) by exact Hall. now rewrite map_length, seq_length.
Qed.

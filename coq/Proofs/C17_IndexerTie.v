(* Proofs/C17_IndexerTie.v — the state indexer that the function-representation capstone (C14, rank axis + indexer)        *)
(* assumes IS the state indexer create_indexers_and_segments builds (C17's model), when the remaining restricted-state       *)
(* combinations are those with a filter-passing choice.                                                                      *)
From Coq Require Import Lia ZArith.
From LCM Require Import Base.Prelude Base.Arr Base.ArrOps Model.StateSpace.
From LCM Require Import Spec.Lang Proofs.ArrLemmas Proofs.ArrLemmas2 Proofs.C17_StateSpace Proofs.C14_OnLayoutIx.
Local Open Scope nat_scope.

Lemma find_pos_none x : forall l, ~ In x l -> find_pos x l = None.
Proof.
  induction l as [|y r IH]; intros H; [reflexivity|]. cbn [find_pos].
  destruct (list_eqb x y) eqn:E; [apply list_eqb_eq in E; subst; exfalso; apply H; now left|].
  rewrite IH; [reflexivity|]. intros Hin. apply H. now right.
Qed.

Lemma find_pos_filter (P : list nat -> bool) : forall l pos, NoDup l -> pos < length l -> P (nth pos l []) = true ->
  find_pos (nth pos l []) (filter P l) = Some (count_true (map P (firstn pos l))).
Proof.
  induction l as [|y r IH]; intros pos Hn Hp HP; [simpl in Hp; lia|].
  inversion Hn as [|? ? Hy Hn']; subst. destruct pos as [|pos'].
  - cbn [nth] in *. cbn [filter firstn map]. rewrite HP. cbn [find_pos]. now rewrite (proj2 (list_eqb_eq y y) eq_refl).
  - cbn [nth length] in *. cbn [firstn map filter].
    assert (Hne : list_eqb (nth pos' r []) y = false).
    { apply Bool.not_true_is_false. intros E. apply list_eqb_eq in E. apply Hy. rewrite <- E. apply nth_In. lia. }
    specialize (IH pos' Hn' ltac:(lia) HP). unfold count_true in *. cbn [filter].
    destruct (P y); cbn [find_pos filter length]; [rewrite Hne, IH; reflexivity|exact IH].
Qed.

Lemma length_ranks : forall feas k, length (ranks feas k) = length feas.
Proof. induction feas as [|[|] r IH]; intros k; simpl; auto. Qed.

Theorem indexer_of_the_capstone_is_the_codes (isr : string -> bool) (sts : list (string * grid)) (mask : arr bool) (n : nat) :
  rsizes isr sts = state_shape_of mask n ->
  indexer_array isr (feasible_states mask n) sts = state_indexer (create_indexers_and_segments mask n).
Proof.
  intros Hs. unfold indexer_array. rewrite Hs.
  set (s := state_shape_of mask n).
  assert (E : state_indexer (create_indexers_and_segments mask n)
              = mkArr s (data (state_indexer (create_indexers_and_segments mask n)))) by reflexivity.
  rewrite E. unfold tabulate. f_equal.
  apply (nth_ext _ _ (-1)%Z (-1)%Z).
  - rewrite map_length. unfold create_indexers_and_segments. cbn [state_indexer data]. rewrite length_ranks.
    unfold is_feasible_state. now rewrite map_length.
  - intros pos Hp. rewrite map_length in Hp.
    destruct (indexer_is_rank_or_fill mask n pos Hp) as (_ & Ed & _). rewrite Ed. clear Ed.
    rewrite (nth_indep _ (-1)%Z ((fun rl => match find_pos rl (feasible_states mask n) with Some r => Z.of_nat r | None => (-1)%Z end) []))
      by (now rewrite map_length).
    rewrite (map_nth (fun rl => match find_pos rl (feasible_states mask n) with Some r => Z.of_nat r | None => (-1)%Z end)).
    fold s. destruct (has_passing mask n (nth pos (indices s) [])) eqn:Hp'.
    + unfold feasible_states. fold s. rewrite (find_pos_filter (has_passing mask n) (indices s) pos (NoDup_indices s) Hp Hp'). reflexivity.
    + rewrite find_pos_none; [reflexivity|]. unfold feasible_states. fold s. intros Hin. apply filter_In in Hin. destruct Hin as [_ Hin].
      rewrite Hin in Hp'. discriminate.
Qed.

(* Proofs/C02_DataSCSTie.v — the rows and columns the regenerated create_data_scs produces (C02_DataSCS.v) ARE the data rows the *)
(* decision theorems with filters are stated on (C02_DataRows.v).                                                                *)
From Coq Require Import Lia.
From LCM Require Import Base.Prelude Base.Arr Model.Dispatchers Spec.Lang Gen.ChoiceAxes Gen.DataSCS.
From LCM Require Import Proofs.ArrLemmas Proofs.C18_Moved Proofs.C01_Period Proofs.C02_DataRows Proofs.PyVocabLemmas Proofs.C02_DataSCS.
Local Open Scope nat_scope.

Lemma in_combine_seq {A} : forall (l : list A) s j x, In (j, x) (combine (seq s (length l)) l) -> s <= j /\ nth_error l (j - s) = Some x.
Proof.
  induction l as [|y r IH]; intros s j x H; [destruct H|]. cbn [length seq combine] in H. destruct H as [E|H].
  - injection E as <- <-. rewrite Nat.sub_diag. split; [lia|reflexivity].
  - destruct (IH (S s) j x H) as [L E]. split; [lia|]. replace (j - s) with (S (j - S s)) by lia. exact E.
Qed.

Section Tie.
Variables (sig : list string) (scalar_filter : list qarr -> qarr).
Variables (states : list (string * list Q)) (vi : list varinfo) (grids : list (string * list Q)) (period : nat).
(* the restricted choices of the model, with their grids; the code holds each grid as the array of its points *)
Variable rc : list (string * grid).
Hypothesis Hrc : scs_choices vi grids = map (fun xg : string * grid => (fst xg, grid_points (snd xg))) rc.

Let keepA := fun (a : nat) (ci : list nat) => scs_keep sig scalar_filter states vi grids period (a, ci).

Lemma cis_are : scs_cis vi grids = indices (sizes rc).
Proof.
  unfold scs_cis. rewrite Hrc. f_equal. unfold sizes. rewrite !map_map. apply map_ext. intros [x g]. cbn [fst snd].
  unfold grid_points. now rewrite map_length, seq_length.
Qed.

Theorem rows_are_the_data_rows : scs_rows sig scalar_filter states vi grids period = data_rows rc (scs_n states) keepA.
Proof.
  rewrite rows_by_agent. unfold data_rows, agent_rows. rewrite cis_are. reflexivity.
Qed.

(* a state's column is the model's rep_col; a restricted choice's column is the model's column of grid values *)
Theorem state_column_is_rep_col col :
  map (fun r : nat * list nat => nth (fst r) col 0%Q) (scs_rows sig scalar_filter states vi grids period)
  = rep_col rc (scs_n states) keepA col.
Proof. unfold rep_col. now rewrite rows_are_the_data_rows. Qed.

Theorem choice_columns_are_rc_cols :
  map (fun jxg : nat * (string * grid) =>
         map (fun r : nat * list nat => nth (nth (fst jxg) (snd r) 0) (grid_points (snd (snd jxg))) 0%Q)
             (scs_rows sig scalar_filter states vi grids period))
      (combine (seq 0 (length rc)) rc)
  = rc_cols rc (scs_n states) keepA.
Proof.
  unfold rc_cols. rewrite rows_are_the_data_rows. apply map_ext_in. intros [j [x g]] Hin. cbn [fst snd].
  apply map_ext_in. intros [a ci] Hr. cbn [snd].
  apply in_data_rows in Hr. destruct Hr as (_ & Hb & _).
  assert (Hj : j < length rc).
  { apply in_combine_l in Hin. apply in_seq in Hin. lia. }
  destruct (in_combine_seq rc 0 j (x, g) Hin) as [_ Eg]. rewrite Nat.sub_0_r in Eg.
  assert (Hk : nth j ci 0 < grid_size g).
  { pose proof (in_bounds_nth (sizes rc) ci Hb j) as H. unfold sizes in H. rewrite map_length in H. specialize (H Hj).
    rewrite (nth_indep (map _ rc) 0 ((fun sg : string * grid => grid_size (snd sg)) (""%string, GDisc 0))) in H by (now rewrite map_length).
    rewrite (map_nth (fun sg : string * grid => grid_size (snd sg))) in H. now rewrite (nth_error_nth _ _ _ Eg) in H. }
  unfold grid_points. rewrite (nth_indep _ 0%Q (grid_point g 0)) by (now rewrite map_length, seq_length).
  now rewrite (map_nth (grid_point g)), seq_nth.
Qed.

(* with any description of the filters that agrees with the code's filter function on the pairs (e.g. the Spec's feasibility of the *)
(* restricted choices, as in the decision theorems)                                                                                 *)
Theorem rows_are_the_data_rows_of (keep' : nat -> list nat -> bool) :
  (forall a ci, a < scs_n states -> in_bounds (sizes rc) ci -> keep' a ci = keepA a ci) ->
  scs_rows sig scalar_filter states vi grids period = data_rows rc (scs_n states) keep'.
Proof.
  intros H. rewrite rows_are_the_data_rows. unfold data_rows, agent_rows. apply flat_map_ext_in. intros a Ha. apply in_seq in Ha.
  f_equal. apply filter_ext_in. intros ci Hci. apply in_indices in Hci. symmetry. apply H; [lia|exact Hci].
Qed.
End Tie.

Theorem data_scs_is_the_data_rows_model :
  forall (sig : list string) (scalar_filter : list qarr -> qarr) (states : list (string * list Q)) (vi : list varinfo)
         (grids : list (string * list Q)) (period : nat) (rc : list (string * grid)),
  scs_choices vi grids = map (fun xg : string * grid => (fst xg, grid_points (snd xg))) rc ->
  forall keep' : nat -> list nat -> bool,
  (forall a ci, a < scs_n states -> in_bounds (sizes rc) ci -> keep' a ci = scs_keep sig scalar_filter states vi grids period (a, ci)) ->
  let rows := scs_rows sig scalar_filter states vi grids period in
  rows = data_rows rc (scs_n states) keep' /\
  (forall col, map (fun r : nat * list nat => nth (fst r) col 0%Q) rows = rep_col rc (scs_n states) keep' col) /\
  map (fun jxg : nat * (string * grid) =>
         map (fun r : nat * list nat => nth (nth (fst jxg) (snd r) 0) (grid_points (snd (snd jxg))) 0%Q) rows)
      (combine (seq 0 (length rc)) rc) = rc_cols rc (scs_n states) keep' /\
  map fst rows = data_ids rc (scs_n states) keep'.
Proof.
  intros sig sf states vi grids period rc Hrc keep' Hk rows.
  pose proof (rows_are_the_data_rows_of sig sf states vi grids period rc Hrc keep' Hk) as E. fold rows in E.
  split; [exact E|]. split; [|split].
  - intros col. unfold rep_col. now rewrite E.
  - pose proof (choice_columns_are_rc_cols sig sf states vi grids period rc Hrc) as C. fold rows in C.
    pose proof (rows_are_the_data_rows sig sf states vi grids period rc Hrc) as E0. fold rows in E0.
    rewrite C. unfold rc_cols. now rewrite <- E0, E.
  - unfold data_ids. now rewrite E.
Qed.

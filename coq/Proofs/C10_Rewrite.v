(* Proofs/C10_Rewrite.v — whole-solution invariance of the specification under rewritings of the    *)
(* function list: two models with the same variables whose functions resolve identically by name     *)
(* (and whose filters / constraints are the same up to order) have the same solution, table by       *)
(* table.  Instance: any permutation of the declaration order of the functions (names unique).       *)
From Coq Require Import Lqa Permutation.
From LCM Require Import Base.Prelude Base.Arr Spec.Lang Spec.Bellman.
From LCM Require Import Proofs.Spec_Algebra Proofs.Spec_Restrictions Proofs.Spec_Bellman Proofs.C11_Affine Proofs.C11_Horizon.
Local Open Scope Q_scope.

Record same_functions (m m2 : model) : Prop := {
  sf_states : states m2 = states m;
  sf_depth : depth m2 = depth m;
  sf_find : forall name, find_fun m2 name = find_fun m name;
  sf_filters : Permutation (filters m2) (filters m);
  sf_constraints : Permutation (constraints m2) (constraints m) }.

Section Equiv.
Variables (m m2 : model) (p : params).
Hypothesis H : same_functions m m2.

Lemma eval_fun_equiv e : forall fuel name, eval_fun fuel m2 p e name = eval_fun fuel m p e name.
Proof.
  induction fuel as [|fuel IH]; intros name; [reflexivity|]. cbn [eval_fun].
  rewrite (sf_find _ _ H name). destruct (find_fun m name) as [f|]; [|reflexivity].
  rewrite (omap_ext_in _ (fun a => match assoc a e with
                                 | Some v => Some v
                                 | None => match find_fun m a with
                                           | Some _ => eval_fun fuel m p e a
                                           | None => Some (par p (fname f) a) end end) (fargs f)); [reflexivity|].
  intros a _. destruct (assoc a e); [reflexivity|]. rewrite (sf_find _ _ H a).
  destruct (find_fun m a); [apply IH|reflexivity].
Qed.

Lemma holds_equiv e f : holds m2 p e f = holds m p e f.
Proof. unfold holds. now rewrite (sf_depth _ _ H), eval_fun_equiv. Qed.

Lemma feasible_equiv e : feasible m2 p e = feasible m p e.
Proof.
  unfold feasible.
  rewrite (forallb_perm _ _ _ (sf_filters _ _ H)), (forallb_perm _ _ _ (sf_constraints _ _ H)).
  now rewrite !(forallb_ext_all _ _ _ (holds_equiv e)).
Qed.

Lemma is_stochastic_equiv s : is_stochastic m2 s = is_stochastic m s.
Proof. unfold is_stochastic. now rewrite (sf_find _ _ H). Qed.

Lemma stoch_states_equiv : stoch_states m2 = stoch_states m.
Proof.
  unfold stoch_states. rewrite (sf_states _ _ H). apply filter_ext. intros sg. apply is_stochastic_equiv.
Qed.

Lemma weight_row_equiv e s : weight_row m2 p e s = weight_row m p e s.
Proof. unfold weight_row. now rewrite (sf_find _ _ H). Qed.

Lemma nodes_equiv e : forall ss, nodes m2 p e ss = nodes m p e ss.
Proof. induction ss as [|[s g] r IH]; [reflexivity|]. cbn [nodes]. now rewrite weight_row_equiv, IH. Qed.

Lemma continuation_equiv vnext e : continuation m2 p vnext e = continuation m p vnext e.
Proof.
  unfold continuation. rewrite stoch_states_equiv, nodes_equiv.
  destruct (nodes m p e (stoch_states m)); [|reflexivity].
  apply fold_right_ext_local. intros [labels w] acc. rewrite (sf_states _ _ H).
  rewrite (omap_ext_in _ (fun sg : string * grid => match assoc (fst sg) labels with
                                  | Some l => Some l | None => next_det m p e (fst sg) end) (states m)); [reflexivity|].
  intros sg _. destruct (assoc (fst sg) labels); [reflexivity|]. unfold next_det.
  now rewrite (sf_depth _ _ H), eval_fun_equiv.
Qed.

Lemma objective_equiv last vnext e : objective m2 p last vnext e = objective m p last vnext e.
Proof. unfold objective. now rewrite (sf_depth _ _ H), eval_fun_equiv, continuation_equiv. Qed.

Hypothesis Hch : choices m2 = choices m.

Lemma value_at_equiv t last vnext sigma : value_at m2 p t last vnext sigma = value_at m p t last vnext sigma.
Proof.
  unfold value_at. rewrite Hch. f_equal. apply map_ext. intros gamma. cbv zeta.
  now rewrite feasible_equiv, objective_equiv.
Qed.

Lemma value_table_equiv t last vnext : value_table m2 p t last vnext = value_table m p t last vnext.
Proof.
  unfold value_table, tabulate, state_shape, state_env. rewrite (sf_states _ _ H).
  f_equal. apply map_ext. intros idx. f_equal. apply value_at_equiv.
Qed.

Theorem solve_from_equiv : forall k t, solve_from m2 p t k = solve_from m p t k.
Proof.
  induction k as [|k IH]; intros t; [reflexivity|]. destruct k as [|k'].
  - cbn [solve_from]. now rewrite value_table_equiv.
  - change (solve_from m2 p t (S (S k'))) with
      (value_table m2 p t false (hd (scalar VUndef) (solve_from m2 p (S t) (S k'))) :: solve_from m2 p (S t) (S k')).
    change (solve_from m p t (S (S k'))) with
      (value_table m p t false (hd (scalar VUndef) (solve_from m p (S t) (S k'))) :: solve_from m p (S t) (S k')).
    now rewrite (IH (S t)), value_table_equiv.
Qed.

Theorem solve_spec_equiv : n_periods m2 = n_periods m -> solve_spec m2 p = solve_spec m p.
Proof. intros Hn. unfold solve_spec. rewrite Hn. apply solve_from_equiv. Qed.
End Equiv.

(* ---- instance: permuting the declaration order of the functions ------------------------------- *)
Lemma find_perm_unique {A} (key : A -> string) (l l' : list A) name :
  Permutation l l' -> NoDup (map key l) ->
  find (fun f => String.eqb (key f) name) l = find (fun f => String.eqb (key f) name) l'.
Proof.
  intros P. induction P as [|x l l' P IH|x y l|l l' l'' P1 IH1 P2 IH2]; intros ND.
  - reflexivity.
  - simpl. inversion ND; subst. destruct (String.eqb (key x) name); [reflexivity|]. now apply IH.
  - simpl. destruct (String.eqb_spec (key y) name) as [Ey|Ey], (String.eqb_spec (key x) name) as [Ex|Ex]; try reflexivity.
    exfalso. inversion ND as [|? ? Hnin _]; subst. apply Hnin. simpl. left. congruence.
  - rewrite IH1 by exact ND. apply IH2. eapply Permutation_NoDup; [|exact ND]. now apply Permutation_map.
Qed.

Lemma filter_perm {A} (f : A -> bool) l l' : Permutation l l' -> Permutation (filter f l) (filter f l').
Proof.
  induction 1 as [|x l l' P IH|x y l|l l' l'' P1 IH1 P2 IH2]; simpl.
  - constructor.
  - destruct (f x); [now constructor|exact IH].
  - destruct (f x), (f y); try reflexivity. constructor.
  - now transitivity (filter f l').
Qed.

Theorem function_order_is_irrelevant m m2 p :
  n_periods m2 = n_periods m -> states m2 = states m -> choices m2 = choices m ->
  Permutation (functions m) (functions m2) -> NoDup (map fname (functions m)) ->
  solve_spec m2 p = solve_spec m p.
Proof.
  intros Hn Hs Hc P ND. apply solve_spec_equiv; [|exact Hc|exact Hn]. constructor; try assumption.
  - unfold depth. f_equal. symmetry. now apply Permutation_length.
  - intros name. unfold find_fun. symmetry. now apply find_perm_unique.
  - unfold filters. apply filter_perm. now symmetry.
  - unfold constraints. apply filter_perm. now symmetry.
Qed.

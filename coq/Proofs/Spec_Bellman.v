(* Proofs/Spec_Bellman.v — properties of the specification itself (Spec/Bellman.v,          *)
(* Spec/Layout.v): the value of a state is the maximum over exactly the admissible grid      *)
(* choices, -inf without admissible choice, no continuation in the last period; where the    *)
(* documented layout stores what.                                                            *)
From LCM Require Import Base.Prelude Base.Arr Spec.Lang Spec.Bellman Spec.Layout.
From LCM Require Import Proofs.ArrLemmas Proofs.ArrLemmas2.
Local Open Scope nat_scope.

(* ---- the choice set is exactly the product of the choice grids ------------------------ *)
Lemma in_assignments vars : forall e,
  In e (assignments vars) <->
  Forall2 (fun xv kv => fst kv = fst xv /\ In (snd kv) (snd xv)) vars e.
Proof.
  induction vars as [|[x vals] r IH]; intros e; simpl.
  - split; [intros [<-|[]]; constructor|intros H; inversion H; now left].
  - rewrite in_flat_map. split.
    + intros (v & Hv & Hin). apply in_map_iff in Hin. destruct Hin as (e' & <- & He').
      constructor; [simpl; auto|]. now apply IH.
    + intros H. inversion H as [|? [k v] ? e' [Hk Hv] Hr]; subst. simpl in *. subst k.
      exists v. split; [exact Hv|]. apply in_map. now apply IH.
Qed.

(* ---- the value of a state -------------------------------------------------------------- *)
Section Value.
Variables (m : model) (p : params) (t : nat) (last : bool) (vnext : list nat -> val) (sigma : env).

Definition env_of_choice (gamma : env) : env := (sigma ++ gamma ++ [(period_name, Qofnat t)])%list.
Definition cand (gamma : env) : val :=
  if feasible m p (env_of_choice gamma) then objective m p last vnext (env_of_choice gamma) else VNegInf.
Definition choice_set : list env := assignments (var_points (choices m)).

Lemma value_at_unfold : value_at m p t last vnext sigma = vmaxl (map cand choice_set).
Proof. reflexivity. Qed.

Hypothesis Hdef : forall gamma, In gamma choice_set -> defined (cand gamma).

Theorem value_is_max_over_admissible :
  let V := value_at m p t last vnext sigma in
  defined V /\
  (forall gamma, In gamma choice_set -> feasible m p (env_of_choice gamma) = true ->
                 vle (objective m p last vnext (env_of_choice gamma)) V) /\
  (V = VNegInf \/
   exists gamma, In gamma choice_set /\ feasible m p (env_of_choice gamma) = true /\
                 objective m p last vnext (env_of_choice gamma) = V).
Proof.
  intros V. unfold V. rewrite value_at_unfold. unfold vmaxl.
  assert (Hdn : defined VNegInf) by discriminate.
  assert (Hall : Forall defined (map cand choice_set)).
  { apply Forall_forall. intros x Hx. apply in_map_iff in Hx. destruct Hx as (g & <- & Hg). auto. }
  destruct (@fold_vmax_spec VNegInf _ Hdn Hall) as (Hd & _ & Hub & Hmem).
  split; [exact Hd|]. split.
  - intros gamma Hin Hf. specialize (Hub (cand gamma) (in_map cand _ _ Hin)).
    unfold cand in Hub at 1. now rewrite Hf in Hub.
  - destruct Hmem as [E|Hin]; [now left|].
    apply in_map_iff in Hin. destruct Hin as (gamma & E & Hg).
    unfold cand in E at 1. destruct (feasible m p (env_of_choice gamma)) eqn:Hf.
    + right. exists gamma. auto.
    + left. symmetry. exact E.
Qed.

Theorem no_admissible_choice_is_neginf :
  (forall gamma, In gamma choice_set -> feasible m p (env_of_choice gamma) = false) ->
  value_at m p t last vnext sigma = VNegInf.
Proof.
  intros H. rewrite value_at_unfold. unfold vmaxl.
  induction choice_set as [|g r IH]; simpl; [reflexivity|].
  unfold cand at 1. rewrite (H g) by (now left). rewrite IH; [reflexivity| |].
  - intros gamma Hin. apply Hdef. now right.
  - intros gamma Hin. apply H. now right.
Qed.
End Value.

(* an inadmissible choice never determines a value: the objective may be changed arbitrarily on
   inadmissible choices *)
Theorem inadmissible_choices_are_irrelevant m p t last vnext vnext' sigma :
  (forall gamma, In gamma (choice_set m) ->
     feasible m p (env_of_choice t sigma gamma) = true ->
     objective m p last vnext (env_of_choice t sigma gamma)
     = objective m p last vnext' (env_of_choice t sigma gamma)) ->
  value_at m p t last vnext sigma = value_at m p t last vnext' sigma.
Proof.
  intros H. rewrite !value_at_unfold. f_equal. apply map_ext_in. intros gamma Hin.
  unfold cand. destruct (feasible m p (env_of_choice t sigma gamma)) eqn:Hf; [now apply H|reflexivity].
Qed.

(* no continuation term in the last period *)
Theorem last_period_objective_is_utility m p vnext e :
  objective m p true vnext e =
  match eval_fun (depth m) m p e "utility" with Some u => VFin u | None => VUndef end.
Proof. unfold objective. now destruct (eval_fun (depth m) m p e "utility"). Qed.

(* ---- tables and layout ------------------------------------------------------------------ *)
Theorem value_table_entry m p t last vnext idx : in_bounds (state_shape m) idx ->
  get VUndef (value_table m p t last vnext) idx
  = vred (value_at m p t last (fun i => get VUndef vnext i) (state_env m idx)).
Proof. intros H. unfold value_table. now rewrite get_tabulate. Qed.

Lemma solve_from_length m p : forall k t, length (solve_from m p t k) = k.
Proof.
  induction k as [|k IH]; intros t; [reflexivity|].
  destruct k as [|k']; [reflexivity|].
  change (solve_from m p t (S (S k'))) with
    (value_table m p t false (hd (scalar VUndef) (solve_from m p (S t) (S k'))) :: solve_from m p (S t) (S k')).
  cbn [length]. f_equal. apply IH.
Qed.

Theorem solve_spec_length m p : length (solve_spec m p) = n_periods m.
Proof. apply solve_from_length. Qed.

(* the table of period t is computed from the table of period t+1; the last one from none *)
Lemma solve_from_nth m p : forall k t j, j < k ->
  nth j (solve_from m p t k) (scalar VUndef)
  = value_table m p (t + j) (Nat.eqb (S j) k) (nth (S j) (solve_from m p t k) (scalar VUndef)).
Proof.
  induction k as [|k IH]; intros t j Hj; [lia|].
  destruct k as [|k'].
  - assert (j = 0) by lia. subst. simpl. now rewrite Nat.add_0_r.
  - change (solve_from m p t (S (S k'))) with
      (value_table m p t false (hd (scalar VUndef) (solve_from m p (S t) (S k'))) :: solve_from m p (S t) (S k')).
    destruct j as [|j].
    + rewrite Nat.add_0_r. generalize (solve_from m p (S t) (S k')). intros L.
      cbn [nth]. f_equal. destruct L; reflexivity.
    + cbn [nth]. rewrite IH by lia. replace (S t + j) with (t + S j) by lia. reflexivity.
Qed.

Theorem solve_spec_is_backward_induction m p j : j < n_periods m ->
  nth j (solve_spec m p) (scalar VUndef)
  = value_table m p j (Nat.eqb (S j) (n_periods m)) (nth (S j) (solve_spec m p) (scalar VUndef)).
Proof. intros H. unfold solve_spec. now rewrite solve_from_nth. Qed.

Theorem layout_shape m p t tab : shape (to_layout m p t tab) = expected_shape m p t.
Proof. reflexivity. Qed.

Theorem layout_entry m p t tab idx : in_bounds (expected_shape m p t) idx ->
  get VUndef (to_layout m p t tab) idx
  = get VUndef tab (map (fun sg => ilook (state_at m p t idx) (fst sg)) (states m)).
Proof. intros H. unfold to_layout. now rewrite get_tabulate. Qed.

Theorem solve_layout_chronological m p :
  length (solve_layout m p) = n_periods m /\
  forall t, t < n_periods m ->
    nth t (solve_layout m p) (scalar VUndef)
    = to_layout m p t (nth t (solve_spec m p) (scalar VUndef)).
Proof.
  unfold solve_layout. split.
  - now rewrite map_length, combine_length, seq_length, solve_spec_length, Nat.min_id.
  - intros t Ht.
    set (g := fun tt : nat * arr val => to_layout m p (fst tt) (snd tt)).
    rewrite (nth_indep _ (scalar VUndef) (g (0, scalar VUndef))).
    2:{ now rewrite map_length, combine_length, seq_length, solve_spec_length, Nat.min_id. }
    rewrite (map_nth g), combine_nth by (now rewrite seq_length, solve_spec_length).
    unfold g. simpl. now rewrite seq_nth.
Qed.

(* Proofs/C17_StateSpace.v — the stored combinations are exactly the filter-passing ones, in    *)
(* row-major order and without duplicates; they are grouped by the restricted-state part; the    *)
(* state indexer gives each restricted state with a passing choice its rank and -1 otherwise;    *)
(* the segment ids are those ranks.                                                              *)
From Coq Require Import FinFun Sorted.
From LCM Require Import Base.Prelude Base.Arr Base.ArrOps Model.StateSpace.
From LCM Require Import Proofs.ArrLemmas Proofs.ArrLemmas2.
Local Open Scope nat_scope.

(* ---- list plumbing ------------------------------------------------------------------------ *)
Lemma map_flat_map {A B C} (f : B -> C) (g : A -> list B) l :
  map f (flat_map g l) = flat_map (fun x => map f (g x)) l.
Proof. induction l as [|x r IH]; simpl; [reflexivity|]. now rewrite map_app, IH. Qed.

Lemma flat_map_flat_map {A B C} (f : B -> list C) (g : A -> list B) l :
  flat_map f (flat_map g l) = flat_map (fun x => flat_map f (g x)) l.
Proof. induction l as [|x r IH]; simpl; [reflexivity|]. now rewrite flat_map_app, IH. Qed.

Lemma flat_map_map {A B C} (f : B -> list C) (g : A -> B) l :
  flat_map f (map g l) = flat_map (fun x => f (g x)) l.
Proof. induction l as [|x r IH]; simpl; [reflexivity|]. now rewrite IH. Qed.

Lemma filter_flat_map {A B} (p : B -> bool) (g : A -> list B) l :
  filter p (flat_map g l) = flat_map (fun x => filter p (g x)) l.
Proof. induction l as [|x r IH]; simpl; [reflexivity|]. now rewrite filter_app, IH. Qed.

Lemma filter_map_comm {A B} (p : B -> bool) (f : A -> B) l :
  filter p (map f l) = map f (filter (fun x => p (f x)) l).
Proof. induction l as [|x r IH]; simpl; [reflexivity|]. destruct (p (f x)); simpl; now rewrite IH. Qed.

Lemma flat_map_ext_in {A B} (f g : A -> list B) l :
  (forall x, In x l -> f x = g x) -> flat_map f l = flat_map g l.
Proof.
  induction l as [|x r IH]; intros H; simpl; [reflexivity|].
  rewrite (H x) by (now left). rewrite IH; [reflexivity|]. intros y Hy. apply H. now right.
Qed.

Lemma indices_app s : forall c,
  indices (s ++ c) = flat_map (fun si => map (app si) (indices c)) (indices s).
Proof.
  induction s as [|n s IH]; intros c; simpl.
  - rewrite app_nil_r. now rewrite map_id.
  - rewrite flat_map_flat_map. apply flat_map_ext_in. intros i _.
    rewrite IH, map_flat_map, flat_map_map. apply flat_map_ext_in. intros si _.
    now rewrite map_map.
Qed.

Lemma NoDup_app_local {B} (l1 l2 : list B) :
  NoDup l1 -> NoDup l2 -> (forall x, In x l1 -> In x l2 -> False) -> NoDup (l1 ++ l2).
Proof.
  induction 1 as [|x r Hx Hr IH]; intros H2 Hd; simpl; [exact H2|].
  constructor.
  - intro Hin. apply in_app_or in Hin. destruct Hin as [Hin|Hin]; [tauto|]. apply (Hd x); simpl; auto.
  - apply IH; [exact H2|]. intros y Hy1 Hy2. apply (Hd y); simpl; auto.
Qed.

Lemma NoDup_indices sh : NoDup (indices sh).
Proof.
  induction sh as [|n r IH]; simpl; [repeat constructor; auto|].
  assert (G : forall k s, NoDup (flat_map (fun i => map (cons i) (indices r)) (seq s k)) /\
                          forall idx, In idx (flat_map (fun i => map (cons i) (indices r)) (seq s k)) ->
                                      s <= hd 0 idx < s + k).
  { induction k as [|k IHk]; intros s; simpl; [split; [constructor|tauto]|].
    destruct (IHk (S s)) as [Hnd Hrange]. split.
    - apply NoDup_app_local.
      + apply Injective_map_NoDup; [intros a b E; now injection E|exact IH].
      + exact Hnd.
      + intros idx H1 H2. apply in_map_iff in H1. destruct H1 as (t & <- & _).
        specialize (Hrange _ H2). simpl in Hrange. lia.
    - intros idx Hin. apply in_app_or in Hin. destruct Hin as [Hin|Hin].
      + apply in_map_iff in Hin. destruct Hin as (t & <- & _). simpl. lia.
      + specialize (Hrange _ Hin). lia. }
  apply G.
Qed.

(* ---- the stored combinations ---------------------------------------------------------------- *)
Theorem combinations_are_exactly_the_passing_ones mask idx :
  In idx (true_positions mask) <-> in_bounds (shape mask) idx /\ get false mask idx = true.
Proof. unfold true_positions. rewrite filter_In, in_indices. tauto. Qed.

Theorem combinations_no_duplicates mask : NoDup (true_positions mask).
Proof. unfold true_positions. apply NoDup_filter, NoDup_indices. Qed.

Section Grouping.
Variables (mask : arr bool) (n : nat).
Let s := state_shape_of mask n.
Let c := choice_shape_of mask n.

Definition passing (si : list nat) : list (list nat) :=
  filter (fun ci => get false mask (si ++ ci)) (indices c).
Definition has_passing (si : list nat) : bool :=
  existsb (fun ci => get false mask (si ++ ci)) (indices c).
Definition feasible_states : list (list nat) := filter has_passing (indices s).

Lemma shape_split : shape mask = s ++ c.
Proof. unfold s, c, state_shape_of, choice_shape_of. now rewrite firstn_skipn. Qed.

Lemma passing_nil_iff si : passing si = [] <-> has_passing si = false.
Proof.
  unfold passing, has_passing. induction (indices c) as [|ci r IH]; simpl; [tauto|].
  destruct (get false mask (si ++ ci)); simpl; [split; discriminate|exact IH].
Qed.

(* row-major order groups the combinations by their restricted-state part, states in row-major
   order, each followed by its passing choices in row-major order; states without a passing
   choice contribute nothing *)
Theorem combinations_grouped_by_state :
  true_positions mask = flat_map (fun si => map (app si) (passing si)) feasible_states.
Proof.
  unfold true_positions. rewrite shape_split, indices_app, filter_flat_map.
  unfold feasible_states.
  induction (indices s) as [|si r IH]; simpl; [reflexivity|].
  rewrite IH. rewrite filter_map_comm. fold (passing si).
  destruct (has_passing si) eqn:E; simpl; [reflexivity|].
  apply passing_nil_iff in E. now rewrite E.
Qed.

(* ---- segments ----------------------------------------------------------------------------------- *)
Lemma count_true_map_filter {A} (p : A -> bool) l : count_true (map p l) = length (filter p l).
Proof.
  unfold count_true. induction l as [|x r IH]; simpl; [reflexivity|].
  destruct (p x); simpl; now rewrite IH.
Qed.

Lemma n_choices_eq : n_choices mask n = map (fun si => length (passing si)) feasible_states.
Proof.
  unfold n_choices, feasible_states. fold s c. apply map_ext. intros si.
  now rewrite count_true_map_filter.
Qed.

(* every stored combination tagged with the rank of its state part *)
Definition tagged (start : nat) (states : list (list nat)) : list (nat * list nat) :=
  flat_map (fun rs => map (fun ci => (fst rs, snd rs ++ ci)) (passing (snd rs)))
           (combine (seq start (length states)) states).

Lemma tagged_spec : forall states start,
  map snd (tagged start states) = flat_map (fun si => map (app si) (passing si)) states /\
  map fst (tagged start states) = repeat_each start (map (fun si => length (passing si)) states).
Proof.
  induction states as [|si r IH]; intros start; simpl; [split; reflexivity|].
  unfold tagged. simpl. rewrite !map_app. fold (tagged (S start) r).
  destruct (IH (S start)) as [H1 H2]. rewrite H1, H2. split.
  - f_equal. now rewrite map_map.
  - f_equal. rewrite map_map. simpl. clear. induction (passing si); simpl; [reflexivity|]. now f_equal.
Qed.

Theorem segments_are_the_ranks_of_the_state_parts :
  let r := create_indexers_and_segments mask n in
  map snd (tagged 0 feasible_states) = true_positions mask /\
  map fst (tagged 0 feasible_states) = segment_ids_r r /\
  num_segments_r r = length feasible_states.
Proof.
  intros r. destruct (tagged_spec feasible_states 0) as [H1 H2]. split; [|split].
  - now rewrite H1, combinations_grouped_by_state.
  - rewrite H2. unfold r, create_indexers_and_segments. cbn [segment_ids_r]. now rewrite n_choices_eq.
  - unfold r, create_indexers_and_segments. cbn [num_segments_r]. unfold is_feasible_state. fold s c.
    change (fun si => existsb (fun ci => get false mask (si ++ ci)) (indices c)) with has_passing.
    unfold feasible_states. apply count_true_map_filter.
Qed.

(* the tag of an entry is the position of its state part among the feasible states *)
Lemma tagged_in : forall states start k idx, In (k, idx) (tagged start states) ->
  exists si ci, idx = si ++ ci /\ In ci (passing si) /\ start <= k /\ nth (k - start) states [] = si /\ k - start < length states.
Proof.
  induction states as [|si r IH]; intros start k idx Hin; [destruct Hin|].
  unfold tagged in Hin. simpl in Hin. apply in_app_or in Hin. destruct Hin as [Hin|Hin].
  - apply in_map_iff in Hin. destruct Hin as (ci & E & Hci). injection E as <- <-.
    exists si, ci. rewrite Nat.sub_diag. simpl. repeat split; auto; lia.
  - fold (tagged (S start) r) in Hin. destruct (IH _ _ _ Hin) as (si' & ci & E & Hci & Hk & Hn & Hl).
    exists si', ci. replace (k - start) with (S (k - S start)) by lia. simpl. repeat split; auto; lia.
Qed.

Theorem segment_ids_sorted : forall start counts, Sorted le (repeat_each start counts).
Proof.
  assert (G : forall counts start, Sorted le (repeat_each start counts) /\
                                   forall x, In x (repeat_each start counts) -> start <= x).
  { induction counts as [|cnt r IH]; intros start; simpl; [split; [constructor|tauto]|].
    destruct (IH (S start)) as [Hs Hge].
    induction cnt as [|k IHk]; simpl.
    - split; [exact Hs|]. intros x Hx. specialize (Hge x Hx). lia.
    - destruct IHk as [Hs' Hge']. split.
      + constructor; [exact Hs'|]. destruct (repeat start k ++ repeat_each (S start) r) eqn:E; constructor.
        apply Hge'. now left.
      + intros x [<-|Hx]; [lia|now apply Hge']. }
  intros start counts. apply G.
Qed.

(* ---- the state indexer --------------------------------------------------------------------------- *)
Lemma ranks_nth : forall feas next pos, pos < length feas ->
  nth pos (ranks feas next) (-1)%Z =
  if nth pos feas false then Z.of_nat (next + count_true (firstn pos feas)) else (-1)%Z.
Proof.
  induction feas as [|b r IH]; intros next pos Hp; simpl in Hp; [lia|].
  destruct pos as [|pos].
  - destruct b; simpl; [now rewrite Nat.add_0_r|reflexivity].
  - destruct b; simpl.
    + rewrite IH by lia. destruct (nth pos r false); [|reflexivity]. f_equal. unfold count_true. simpl. lia.
    + rewrite IH by lia. reflexivity.
Qed.

Lemma filter_rank {A} (p : A -> bool) (d : A) : forall l pos, pos < length l -> p (nth pos l d) = true ->
  nth (count_true (map p (firstn pos l))) (filter p l) d = nth pos l d.
Proof.
  induction l as [|x r IH]; intros pos Hp Hq; simpl in Hp; [lia|].
  destruct pos as [|pos]; simpl in *.
  - rewrite Hq. reflexivity.
  - unfold count_true. simpl. destruct (p x); simpl; [apply IH; auto; lia|apply IH; auto; lia].
Qed.

Theorem indexer_is_rank_or_fill pos :
  let r := create_indexers_and_segments mask n in
  let si := nth pos (indices s) [] in
  pos < length (indices s) ->
  shape (state_indexer r) = s /\
  nth pos (data (state_indexer r)) (-1)%Z =
  (if has_passing si then Z.of_nat (count_true (map has_passing (firstn pos (indices s)))) else (-1)%Z) /\
  (has_passing si = true ->
   nth (count_true (map has_passing (firstn pos (indices s)))) feasible_states [] = si).
Proof.
  intros r si Hp. unfold r, create_indexers_and_segments. cbn [state_indexer shape data].
  split; [reflexivity|]. split.
  - unfold is_feasible_state. fold s c.
    change (fun si0 => existsb (fun ci => get false mask (si0 ++ ci)) (indices c)) with has_passing.
    rewrite ranks_nth by (now rewrite map_length).
    rewrite (nth_indep _ false (has_passing [])) by (now rewrite map_length).
    rewrite (map_nth has_passing). fold si. simpl. now rewrite firstn_map.
  - intros Hq. unfold feasible_states. now apply filter_rank.
Qed.
End Grouping.

(* Proofs/C02_SimulateAll.v — EVERY ROW of what simulate returns is a feasible maximiser (models without             *)
(* filter-restricted variables): the regenerated forward loop (Gen/Simulate.v) with the decision of                  *)
(* Proofs/C02_Decision.v as its per-period decision block and the arrays of the regenerated solve as value arrays.   *)
From Coq Require Import Lqa Lia Permutation.
From LCM Require Import Base.Prelude Base.Arr Base.ArrOps Model.RandomChoice Gen.Simulate.
From LCM Require Import Spec.Lang Spec.Bellman Proofs.ArrLemmas Proofs.Spec_Algebra Proofs.C14_Refine Proofs.C14_OnLayout Proofs.C04_SimulateLoop
                        Proofs.C01_Compose Proofs.C01_MaxCompose Proofs.C01_Period Proofs.C01_Agents Proofs.C01_Solve Proofs.C02_Decision.
Local Open Scope nat_scope.

Section SimulateAll.
Variables (m : model) (p : params) (n : nat) (dch cch : list (string * grid)).
Let sts := states m.
Let dst := dstates sts.
Let cst := cstates sts.
Hypothesis Hperm : Permutation (dch ++ cch) (choices m).
Hypothesis Hnd : NoDup (map fst (choices m)).
Hypothesis Hnds : NoDup (map fst sts).
Hypothesis Hvalid : grids_valid sts.
Hypothesis Hnames : NoDup (map fst (dst ++ dch ++ cst ++ cch)).
Hypothesis Hn : 1 <= n.

(* the agents' states: the columns of the discrete and of the continuous state variables *)
Definition S_states := (list (list Q) * list (list Q))%type.
Variable nag : nat.
(* the law of motion (the concatenated next functions with the draws): abstract here, C03's subject *)
Variable trans : S_states -> list (list nat * list nat) -> nat -> list key -> S_states.
Variables (initial : S_states) (seed : nat) (prng : nat -> key) (n_stoch : nat).

(* one period's decision block for all agents *)
Definition the_uf (t : nat) (vf : option (arr val)) : list Q -> val * bool :=
  match vf with
  | Some a => uf_code_arr m p dch cch t (qarr_of a)
  | None => uf_code_last m p t dst dch cst cch
  end.
Definition the_decide (st : S_states) (t : nat) (_ _ : unit) (vf : option (arr val)) (_ _ : unit)
  : list val * list (list nat * list nat) :=
  let uf := the_uf t vf in
  (map (value_g dst dch cst cch uf (fst st) (snd st)) (seq 0 nag),
   map (fun i => (red_g dst dch cst cch uf (fst st) (snd st) i,
                  unravel (sizes cch) (cont_argmax_g dst dch cst cch uf (fst st) (snd st) i))) (seq 0 nag)).

Definition the_sim : sim_env :=
  {| E_params := unit; E_states := S_states; E_choices := list (list nat * list nat); E_value := list val;
     E_arr := arr val; E_indexers := unit; E_policy := unit; E_grids := unit;
     e_d_grids := tt; e_d_policy := tt; e_d_indexers := tt; e_prng_key := prng; e_n_stochastic := n_stoch;
     e_solve_model := fun _ => code_solve m p n dch cch;
     e_decide := the_decide; e_next_state := fun st ch t _ ks => trans st ch t ks; e_remove_next_prefix := fun st => st;
     e_params := tt; e_initial_states := initial; e_state_indexers := repeat tt n; e_grids := repeat tt n;
     e_policies := repeat tt n; e_vf_arr_list := None; e_seed := seed |}.

Lemma solved_is_code_solve : sim_solved the_sim = code_solve m p n dch cch.
Proof. reflexivity. Qed.

Lemma sim_periods : sim_n_periods the_sim = n.
Proof.
  unfold sim_n_periods, n_periods, lookup_arrays, solved. cbn [the_sim e_vf_arr_list e_solve_model e_params].
  pose proof (code_solve_length m p n dch cch Hn) as L.
  rewrite app_length, map_length. cbn [length]. destruct (code_solve m p n dch cch) as [|a r]; cbn [tl length E_arr the_sim] in *; clear -L Hn; lia.
Qed.

(* the states the agents are in at period t *)
Definition states_at (t : nat) : S_states := fst (sim_at the_sim t).

Lemma lookup_at t : t < n ->
  nth t (sim_lookup the_sim) None = if S t =? n then None else Some (nth (S t) (code_solve m p n dch cch) (scalar VUndef)).
Proof.
  intros Ht. assert (L : length (sim_solved the_sim) = n) by exact (code_solve_length m p n dch cch Hn).
  destruct (Nat.eqb_spec (S t) n) as [E|E].
  - assert (Et : t = length (sim_solved the_sim) - 1) by lia. rewrite Et.
    apply bundled_no_lookup_last. intros C. rewrite C in L. simpl in L. lia.
  - rewrite (bundled_lookup_next the_sim t (scalar VUndef)); [reflexivity|]. rewrite L. lia.
Qed.

(* the row of period t and agent i *)
Definition row_value (t i : nat) : val :=
  nth i (fst (fst (nth t (sim_results the_sim) ([], [], ([], []))))) VUndef.
Definition row_choice (t i : nat) : list nat * list nat :=
  nth i (snd (fst (nth t (sim_results the_sim) ([], [], ([], []))))) ([], []).
Definition row_states (t : nat) : S_states := snd (nth t (sim_results the_sim) ([], [], ([], []))).

Lemma nth_map_seq' {B} (f : nat -> B) k i d : i < k -> nth i (map f (seq 0 k)) d = f i.
Proof. intros H. rewrite (nth_indep _ d (f 0)) by (now rewrite map_length, seq_length). now rewrite map_nth, seq_nth. Qed.

Lemma row_unfold t i : t < n -> i < nag ->
  let st := states_at t in
  let uf := the_uf t (if S t =? n then None else Some (nth (S t) (code_solve m p n dch cch) (scalar VUndef))) in
  row_states t = st /\
  row_value t i = value_g dst dch cst cch uf (fst st) (snd st) i /\
  row_choice t i = (red_g dst dch cst cch uf (fst st) (snd st) i,
                    unravel (sizes cch) (cont_argmax_g dst dch cst cch uf (fst st) (snd st) i)).
Proof.
  intros Ht Hi. cbv zeta. unfold row_states, row_value, row_choice.
  rewrite (bundled_result_of_period the_sim t) by (now rewrite sim_periods). cbn [fst snd].
  unfold sim_decision. cbn [e_decide the_sim]. rewrite (lookup_at t Ht). unfold the_decide. cbn [fst snd].
  fold (states_at t). rewrite !nth_map_seq' by exact Hi. repeat split; reflexivity.
Qed.

(* hypotheses about the trajectory: the state columns keep their format; the model evaluates at every point the
   decision looks at *)
Hypothesis Hformat : forall t, t < n ->
  length (fst (states_at t)) = length dst /\ length (snd (states_at t)) = length cst /\
  Forall (fun c : list Q => length c = nag) (fst (states_at t) ++ snd (states_at t)) /\
  (fst (states_at t) ++ snd (states_at t))%list <> [].
Hypothesis Heval : forall t i dc cc, S t < n -> i < nag -> in_bounds (sizes dch) dc -> in_bounds (sizes cch) cc ->
  evaluates_at m p (next_table m p n dch cch t) (agent_env t dst dch cst cch (fst (states_at t)) (snd (states_at t)) i dc cc).
Hypothesis Hlast : forall t i dc cc, S t = n -> i < nag -> in_bounds (sizes dch) dc -> in_bounds (sizes cch) cc ->
  exists u, eval_fun (depth m) m p (agent_env t dst dch cst cch (fst (states_at t)) (snd (states_at t)) i dc cc) "utility" = Some u.

Theorem every_simulated_row_is_a_feasible_maximiser t i : t < n -> i < nag ->
  let cD := fst (row_states t) in let cC := snd (row_states t) in
  let vnext := fun idx => VFin (next_table m p n dch cch t idx) in
  let last := (t =? n - 1) in
  veq (row_value t i) (value_at m p t last vnext (agent_state dst cst cD cC i)) /\
  (row_value t i <> VNegInf ->
   let red := fst (row_choice t i) in let cidx := snd (row_choice t i) in
   in_bounds (sizes dch) red /\ in_bounds (sizes cch) cidx /\
   feasible m p (agent_env t dst dch cst cch cD cC i red cidx) = true /\
   veq (objective m p last vnext (agent_env t dst dch cst cch cD cC i red cidx)) (row_value t i)).
Proof.
  intros Ht Hi. cbv zeta. destruct (row_unfold t i Ht Hi) as (Es & Ev & Ec). cbv zeta in Es, Ev, Ec.
  rewrite Es, Ev, Ec. cbn [fst snd]. destruct (Hformat t Ht) as (HlD & HlC & Hrows & Hne).
  destruct (Nat.eqb_spec (S t) n) as [E|E].
  - replace (t =? n - 1) with true by (symmetry; apply Nat.eqb_eq; lia). unfold the_uf.
    exact (last_decision_of_the_code_is_optimal m p t _ dst dch cst cch Hperm Hnd nag _ _ HlD HlC Hrows Hne
             (fun i' dc cc Hi' => Hlast t i' dc cc E Hi') i Hi).
  - assert (Ht' : S t < n) by lia. replace (t =? n - 1) with false by (symmetry; apply Nat.eqb_neq; lia). unfold the_uf.
    rewrite (uf_code_arr_of_solved m p n dch cch Hnames t Ht').
    exact (decision_of_the_code_is_optimal m p t (next_table m p n dch cch t) dst dch cst cch Hperm Hnd Hnds Hvalid nag _ _ HlD HlC Hrows Hne
             (fun i' dc cc Hi' => Heval t i' dc cc Ht' Hi') i Hi).
Qed.

(* C06 for this loop: for an agent ON the grid the recorded value is the entry of the solved array of that period at the
   agent's position -- both are the specification's value of that state with the same next value function *)
Theorem on_grid_row_value_is_the_solved_entry t i ds cs : t < n -> i < nag ->
  in_bounds (sizes dst) ds -> in_bounds (sizes cst) cs ->
  at_row (fst (states_at t)) i = map snd (env_of_idx dst ds) -> at_row (snd (states_at t)) i = map snd (env_of_idx cst cs) ->
  (* the model evaluates at every grid point of period t (what the solved entry needs) *)
  (S t < n -> forall ds' dc cs' cc,
     in_bounds (sizes dst) ds' -> in_bounds (sizes dch) dc -> in_bounds (sizes cst) cs' -> in_bounds (sizes cch) cc ->
     evaluates_at m p (next_table m p n dch cch t) (spec_env t dst dch cst cch ds' dc cs' cc)) ->
  (S t = n -> forall ds' dc cs' cc,
     in_bounds (sizes dst) ds' -> in_bounds (sizes dch) dc -> in_bounds (sizes cst) cs' -> in_bounds (sizes cch) cc ->
     exists u, eval_fun (depth m) m p (spec_env t dst dch cst cch ds' dc cs' cc) "utility" = Some u) ->
  veq (row_value t i) (get VUndef (nth t (code_solve m p n dch cch) (scalar VUndef)) (ds ++ cs)).
Proof.
  intros Ht Hi Hds Hcs ED EC Hev' Hlast'.
  destruct (every_simulated_row_is_a_feasible_maximiser t i Ht Hi) as [HV _]. cbv zeta in HV.
  destruct (row_unfold t i Ht Hi) as (Es & _ & _). cbv zeta in Es. rewrite Es in HV.
  pose proof (code_solve_satisfies_the_bellman_equation m p n dch cch Hperm Hnd Hnds Hvalid Hnames t ds cs Ht Hev' Hlast' Hds Hcs) as HS.
  assert (L : forall vars idx, in_bounds (sizes vars) idx -> length idx = length vars).
  { intros vars idx H. rewrite (in_bounds_length _ _ H). unfold sizes. now rewrite map_length. }
  assert (Esig : agent_state dst cst (fst (states_at t)) (snd (states_at t)) i = (env_of_idx dst ds ++ env_of_idx cst cs)%list).
  { unfold agent_state. rewrite ED, EC, !combine_names_vals by (now apply L). reflexivity. }
  rewrite Esig in HV. eapply veq_trans; [exact HV|]. apply veq_sym. exact HS.
Qed.

(* the trajectory: period 0 starts from the initial states, and the states of period t+1 are the law of motion applied to
   the states and the recorded choices of period t, with period t's draw keys *)
Theorem trajectory_of_the_states :
  states_at 0 = initial /\
  forall t, t < n -> states_at (S t)
    = trans (states_at t) (map (fun i => row_choice t i) (seq 0 nag)) t (sim_draw_keys the_sim t).
Proof.
  split; [reflexivity|]. intros t Ht. unfold states_at. rewrite (bundled_law_of_motion the_sim t). cbn [e_remove_next_prefix e_next_state the_sim].
  f_equal. unfold sim_decision. cbn [e_decide the_sim snd]. rewrite (lookup_at t Ht). unfold the_decide. cbn [snd].
  apply map_ext_in. intros i Hi. apply in_seq in Hi. destruct (row_unfold t i Ht ltac:(lia)) as (_ & _ & Ec). cbv zeta in Ec.
  now rewrite Ec.
Qed.
End SimulateAll.

(* ---- a decision procedure for the hypotheses about the trajectory (for concrete models) --------------------------- *)
Definition trajectory_okb (m : model) (p : params) (n : nat) (dch cch : list (string * grid)) (nag : nat)
  (trans : S_states -> list (list nat * list nat) -> nat -> list key -> S_states) (initial : S_states) (seed : nat)
  (prng : nat -> key) (n_stoch : nat) : bool :=
  let dst := dstates (states m) in let cst := cstates (states m) in
  forallb (fun t =>
    let st := states_at m p n dch cch nag trans initial seed prng n_stoch t in
    (length (fst st) =? length dst) && (length (snd st) =? length cst) &&
    forallb (fun c : list Q => length c =? nag) (fst st ++ snd st) &&
    negb (match (fst st ++ snd st)%list with [] => true | _ => false end) &&
    forallb (fun i => forallb (fun dc => forallb (fun cc =>
      if S t =? n
      then is_some (eval_fun (depth m) m p (agent_env t dst dch cst cch (fst st) (snd st) i dc cc) "utility")
      else evaluates_atb m p (next_table m p n dch cch t) (agent_env t dst dch cst cch (fst st) (snd st) i dc cc))
      (indices (sizes cch))) (indices (sizes dch))) (seq 0 nag))
    (seq 0 n).

Lemma trajectory_okb_sound m p n dch cch nag trans initial seed prng n_stoch :
  trajectory_okb m p n dch cch nag trans initial seed prng n_stoch = true ->
  let dst := dstates (states m) in let cst := cstates (states m) in
  let st := states_at m p n dch cch nag trans initial seed prng n_stoch in
  (forall t, t < n ->
     length (fst (st t)) = length dst /\ length (snd (st t)) = length cst /\
     Forall (fun c : list Q => length c = nag) (fst (st t) ++ snd (st t)) /\ (fst (st t) ++ snd (st t))%list <> []) /\
  (forall t i dc cc, S t < n -> i < nag -> in_bounds (sizes dch) dc -> in_bounds (sizes cch) cc ->
     evaluates_at m p (next_table m p n dch cch t) (agent_env t dst dch cst cch (fst (st t)) (snd (st t)) i dc cc)) /\
  (forall t i dc cc, S t = n -> i < nag -> in_bounds (sizes dch) dc -> in_bounds (sizes cch) cc ->
     exists u, eval_fun (depth m) m p (agent_env t dst dch cst cch (fst (st t)) (snd (st t)) i dc cc) "utility" = Some u).
Proof.
  unfold trajectory_okb. intros H. cbv zeta in *. rewrite forallb_forall in H.
  assert (P : forall t, t < n -> _) by (intros t Ht; exact (H t (proj2 (in_seq n 0 t) ltac:(lia)))).
  clear H. split; [|split].
  - intros t Ht. specialize (P t Ht). apply andb_true_iff in P. destruct P as [P _]. apply andb_true_iff in P. destruct P as [P P4].
    apply andb_true_iff in P. destruct P as [P P3]. apply andb_true_iff in P. destruct P as [P1 P2].
    apply Nat.eqb_eq in P1. apply Nat.eqb_eq in P2. split; [exact P1|]. split; [exact P2|]. split.
    + apply Forall_forall. intros c Hc. rewrite forallb_forall in P3. apply Nat.eqb_eq. now apply P3.
    + intros E. rewrite E in P4. discriminate.
  - intros t i dc cc Ht Hi Hdc Hcc. specialize (P t ltac:(lia)). apply andb_true_iff in P. destruct P as [_ P].
    rewrite forallb_forall in P. specialize (P i (proj2 (in_seq nag 0 i) ltac:(lia))).
    rewrite forallb_forall in P. specialize (P dc (proj2 (in_indices _ dc) Hdc)).
    rewrite forallb_forall in P. specialize (P cc (proj2 (in_indices _ cc) Hcc)).
    replace (S t =? n) with false in P by (symmetry; apply Nat.eqb_neq; lia). now apply evaluates_atb_sound.
  - intros t i dc cc Ht Hi Hdc Hcc. specialize (P t ltac:(lia)). apply andb_true_iff in P. destruct P as [_ P].
    rewrite forallb_forall in P. specialize (P i (proj2 (in_seq nag 0 i) ltac:(lia))).
    rewrite forallb_forall in P. specialize (P dc (proj2 (in_indices _ dc) Hdc)).
    rewrite forallb_forall in P. specialize (P cc (proj2 (in_indices _ cc) Hcc)).
    replace (S t =? n) with true in P by (symmetry; apply Nat.eqb_eq; lia).
    destruct (eval_fun _ _ _ _ _) as [u|]; [now exists u|discriminate].
Qed.

(* Proofs/C02_Decision.v — ONE SIMULATED DECISION of the code is a maximiser of the specification's objective   *)
(* (models without filter-restricted variables; states on or off the grid).                                       *)
From Coq Require Import Lqa Lia Permutation.
From LCM Require Import Base.Prelude Base.Arr Base.ArrOps Model.Dispatchers Model.DispatchersG
                        Gen.Argmax Gen.CCV Gen.ChoiceAxes Gen.SimulateKernels.
From LCM Require Import Spec.Lang Spec.Bellman Proofs.ArrLemmas Proofs.ArrLemmas2 Proofs.Spec_Algebra
                        Proofs.C11_Affine Proofs.C11_Horizon Proofs.C11_ModelFunctions Proofs.C14_FunRep Proofs.C14_Refine Proofs.C18_Core Proofs.C18_Spec Proofs.C19_Dispatch Proofs.C19_DispatchG Proofs.C01_Compose Proofs.C01_MaxCompose
                        Proofs.C01_Period Proofs.C01_Agents Proofs.C02_ArgmaxAll.
Local Open Scope nat_scope.

(* ---- row-major positions -------------------------------------------------------------------------------------- *)
Lemma indices_as_unravel sh : indices sh = map (unravel sh) (seq 0 (size sh)).
Proof.
  apply (nth_ext _ _ [] []); [now rewrite map_length, seq_length, length_indices|].
  intros k Hk. rewrite length_indices in Hk. rewrite nth_indices_unravel by exact Hk.
  rewrite (nth_indep _ [] (unravel sh 0)) by (now rewrite map_length, seq_length).
  now rewrite (map_nth (unravel sh)), seq_nth by exact Hk.
Qed.

(* ---- the first maximiser of a masked list ---------------------------------------------------------------------- *)
Lemma veqb_num_veq x y : veqb_num x y = true -> veq x y.
Proof. destruct x, y; simpl; try discriminate; auto. intros H. now apply Qeq_bool_iff. Qed.

Section FirstMax.
Variables (n : nat) (vals : nat -> val) (okf : nat -> bool).
Hypothesis Hdef : forall k, k < n -> defined (vals k).
Let masked := map (fun k => if okf k then vals k else VNegInf) (seq 0 n).
Let M := fold_right vmax VNegInf masked.
Let p := first_true (map (fun k => veqb_num (vals k) M && okf k) (seq 0 n)).

Lemma masked_defined : Forall defined masked.
Proof.
  apply Forall_forall. intros x Hx. apply in_map_iff in Hx. destruct Hx as (k & <- & Hk). apply in_seq in Hk.
  destruct (okf k); [apply Hdef; lia|discriminate].
Qed.

Lemma first_max_upper k : k < n -> okf k = true -> vle (vals k) M.
Proof.
  intros Hk Hok. assert (Hdn : defined VNegInf) by discriminate.
  destruct (fold_vmax_spec VNegInf masked Hdn masked_defined) as (_ & _ & Hub & _).
  apply Hub. apply in_map_iff. exists k. rewrite Hok. split; [reflexivity|apply in_seq; lia].
Qed.

Lemma first_max_attained : M <> VNegInf -> p < n /\ okf p = true /\ veq (vals p) M.
Proof.
  intros HM. assert (Hdn : defined VNegInf) by discriminate.
  destruct (fold_vmax_spec VNegInf masked Hdn masked_defined) as (HdM & _ & _ & Hmem).
  destruct Hmem as [E|Hin]; [contradiction|].
  apply in_map_iff in Hin. destruct Hin as (k & Ek & Hk). apply in_seq in Hk.
  destruct (okf k) eqn:Hok; [|fold M in Ek; congruence].
  set (l := map (fun k => veqb_num (vals k) M && okf k) (seq 0 n)).
  assert (Hex : existsb (fun x => x) l = true).
  { apply existsb_id_nth. unfold l. rewrite map_length, seq_length. exists k. split; [lia|].
    rewrite (nth_indep _ false ((fun k => veqb_num (vals k) M && okf k) 0)) by (rewrite map_length, seq_length; lia).
    rewrite (map_nth (fun k => veqb_num (vals k) M && okf k)), seq_nth by lia. cbn [Nat.add].
    rewrite Hok, andb_true_r. fold M in Ek. rewrite Ek. apply veqb_num_refl. exact HdM. }
  destruct (first_true_spec l) as [F1 _]. destruct (F1 Hex) as (Hlt & Hnth & _). fold p in Hlt, Hnth.
  unfold l in Hlt. rewrite map_length, seq_length in Hlt.
  unfold l in Hnth. rewrite (nth_indep _ false ((fun k => veqb_num (vals k) M && okf k) 0)) in Hnth by (now rewrite map_length, seq_length).
  rewrite (map_nth (fun k => veqb_num (vals k) M && okf k)), seq_nth in Hnth by exact Hlt. cbn [Nat.add] in Hnth.
  apply andb_true_iff in Hnth. destruct Hnth as [H1 H2]. split; [exact Hlt|]. split; [exact H2|]. now apply veqb_num_veq.
Qed.
End FirstMax.

(* ---- compute_ccv_policy (Gen/CCV.v) on tabulated utility / feasibility ------------------------------------------- *)
Section Policy.
Variables (cshape : list nat) (U : list nat -> val) (Fm : list nat -> bool).
Hypothesis HdefU : forall cidx, defined (U cidx).
Let u := tabulate cshape U.
Let f := tabulate cshape Fm.
Let pol := compute_ccv_policy u f.

Lemma pol_is_argmax : pol = argmax u (Some (seq 0 (length (shape u) - 0))) (Some VNegInf) (Some f).
Proof. unfold pol, compute_ccv_policy, as_floating. rewrite argmax_none. now destruct (argmax u _ _ _). Qed.

Lemma entry_u k : k < size cshape -> entry_ u 0 [] k = U (unravel cshape k).
Proof. intros Hk. unfold entry_, u. cbn [app shape tabulate skipn]. rewrite get_tabulate; [reflexivity|now apply unravel_in_bounds]. Qed.
Lemma okk_f k : k < size cshape -> okk_ u (Some f) 0 [] k = Fm (unravel cshape k).
Proof. intros Hk. unfold okk_, u, f. cbn [app shape tabulate skipn]. rewrite get_tabulate; [reflexivity|now apply unravel_in_bounds]. Qed.

Lemma pol_shapes : shape (fst pol) = [] /\ shape (snd pol) = [].
Proof. rewrite pol_is_argmax. apply (argmax_trailing_shapes u (Some VNegInf) (Some f) 0 eq_refl (Nat.le_0_l _)). Qed.

Lemma pol_value : get VUndef (snd pol) [] = compute_ccv u f.
Proof.
  rewrite pol_is_argmax, (argmax_trailing_value u (Some VNegInf) (Some f) 0 eq_refl (Nat.le_0_l _) [] I).
  unfold u, f. rewrite compute_ccv_of_tabulated. unfold block_max, vmaxl, init_v. cbn [shape tabulate skipn]. f_equal.
  rewrite indices_as_unravel, map_map. apply map_ext_in. intros k Hk. apply in_seq in Hk.
  fold u. fold f. rewrite okk_f, entry_u by lia. reflexivity.
Qed.

Lemma pol_position : get VUndef (snd pol) [] <> VNegInf ->
  let cidx := unravel cshape (get 0 (fst pol) []) in
  in_bounds cshape cidx /\ Fm cidx = true /\ veq (U cidx) (get VUndef (snd pol) []).
Proof.
  intros HM. cbv zeta.
  pose proof (argmax_trailing_value u (Some VNegInf) (Some f) 0 eq_refl (Nat.le_0_l _) [] I) as EV.
  pose proof (argmax_trailing_position u (Some VNegInf) (Some f) 0 eq_refl (Nat.le_0_l _) [] I) as EP.
  rewrite <- pol_is_argmax in EV, EP. unfold block_max, init_v in *. cbn [shape tabulate skipn u] in EV, EP.
  set (vals := fun k => U (unravel cshape k)). set (okf := fun k => Fm (unravel cshape k)).
  assert (EM : get VUndef (snd pol) [] = fold_right vmax VNegInf (map (fun k => if okf k then vals k else VNegInf) (seq 0 (size cshape)))).
  { rewrite EV. f_equal. apply map_ext_in. intros k Hk. apply in_seq in Hk. fold u. rewrite okk_f, entry_u by lia. reflexivity. }
  assert (EPos : get 0 (fst pol) [] = first_true (map (fun k => veqb_num (vals k)
                    (fold_right vmax VNegInf (map (fun k => if okf k then vals k else VNegInf) (seq 0 (size cshape)))) && okf k) (seq 0 (size cshape)))).
  { rewrite EP. f_equal. apply map_ext_in. intros k Hk. apply in_seq in Hk. fold u. rewrite okk_f, entry_u by lia.
    f_equal. f_equal. f_equal. apply map_ext_in. intros k' Hk'. apply in_seq in Hk'. rewrite okk_f, entry_u by lia. reflexivity. }
  rewrite EM in HM.
  destruct (first_max_attained (size cshape) vals okf (fun k _ => HdefU _) HM) as (Hlt & Hok & Hv).
  rewrite <- EPos in Hlt, Hok, Hv. rewrite <- EM in Hv.
  split; [now apply unravel_in_bounds|]. split; [exact Hok|exact Hv].
Qed.
End Policy.

(* ---- one period's decision for all agents ------------------------------------------------------------------------- *)
Section Decision.
Variables (m : model) (p : params) (t : nat) (last : bool) (vnext : list nat -> val).
Variables (dst dch cst cch : list (string * grid)).
Hypothesis Hperm : Permutation (dch ++ cch) (choices m).
Hypothesis Hnd : NoDup (map fst (choices m)).
Variable uf : list Q -> val * bool.
Hypothesis Hufdef : forall vals, defined (fst (uf vals)).
(* the agents' states: one column per state variable, one row per agent; on or off the grid *)
Variables (n : nat) (colsD colsC : list (list Q)).
Hypothesis HlenD : length colsD = length dst.
Hypothesis HlenC : length colsC = length cst.
Hypothesis Hrows : Forall (fun c : list Q => length c = n) (colsD ++ colsC).
Hypothesis Hstates : (colsD ++ colsC)%list <> [].

Definition agent_state (i : nat) : env := (combine (map fst dst) (at_row colsD i) ++ combine (map fst cst) (at_row colsC i))%list.
Definition agent_env (i : nat) (dc cc : list nat) : env :=
  (agent_state i ++ (env_of_idx dch dc ++ env_of_idx cch cc) ++ [(period_name, Qofnat t)])%list.
Definition agent_vals (i : nat) (dc cc : list nat) : list Q :=
  (at_row colsD i ++ map snd (env_of_idx dch dc) ++ at_row colsC i ++ map snd (env_of_idx cch cc))%list.
Hypothesis Hpoint : forall i dc cc, i < n -> in_bounds (sizes dch) dc -> in_bounds (sizes cch) cc ->
  snd (uf (agent_vals i dc cc)) = feasible m p (agent_env i dc cc) /\
  (feasible m p (agent_env i dc cc) = true -> veq (fst (uf (agent_vals i dc cc))) (objective m p last vnext (agent_env i dc cc))).

(* the code: compute_ccv_policy on utility_and_feasibility product-mapped over the continuous choice grids; the space
   map of it (sparse variables = the states, mapped jointly over the agents, first; dense = the discrete choice grids);
   the discrete arg-max over the dense choice axes 1..k; the continuous arg-max read at the chosen discrete combination *)
Definition pol_point (args0 : list qarr) : arr nat * arr val :=
  compute_ccv_policy (Uarr dst dch cst cch uf args0) (Farr dst dch cst cch uf args0).
Definition sim_args : list qarr := (vecs colsD ++ vecs (gv dch) ++ vecs colsC ++ vecs (gv cch))%list.
Definition statepos : list nat := (seq 0 (length colsD) ++ seq (length colsD + length (vecs (gv dch))) (length colsC))%list.
Definition ccv_arr : arr val :=
  vmapG (base_productmapG (fun a => snd (pol_point a)) (seq (length dst) (length (gv dch)))) statepos sim_args.
Definition ccv_policy_arr : arr nat :=
  vmapG (base_productmapG (fun a => fst (pol_point a)) (seq (length dst) (length (gv dch)))) statepos sim_args.
Definition decision := calculate_discrete_argmax ccv_arr (Some (seq 1 (length dch))) None.
Definition dense_argmax_of (i : nat) : nat :=
  match fst (fst decision) with Some a => get 0 a [i] | None => 0 end.
Definition value_of (i : nat) : val := get VUndef (snd decision) [i].
Definition cont_argmax_of (i : nat) : nat :=
  get 0 (filter_ccv_policy_row (slice 0 ccv_policy_arr i) (Some (dense_argmax_of i)) (sizes dch)) [].

(* --- the arguments of agent i --- *)
Definition agent_args (i : nat) : list qarr :=
  (scalars (at_row colsD i) ++ vecs (gv dch) ++ scalars (at_row colsC i) ++ vecs (gv cch))%list.

Lemma slice_agent i : slice_at sim_args statepos i = agent_args i.
Proof. unfold sim_args, statepos, agent_args. apply slice_at_blocks. Qed.

Lemma length_scalarsD i : length (scalars (at_row colsD i)) = length dst.
Proof. unfold scalars, at_row. now rewrite !map_length. Qed.

(* utility and feasibility arrays have the same shape whatever the arguments *)
Lemma UF_shapes a : shape (Farr dst dch cst cch uf a) = shape (Uarr dst dch cst cch uf a).
Proof.
  unfold Farr, Uarr.
  destruct (bpmG_wf_shape (fun a0 => scalar (snd (ufa uf a0))) [] (fun _ => True) (fun _ => True) (fun _ _ _ _ _ => I)
              (fun a0 _ => conj eq_refl eq_refl) (seq (length (dst ++ dch ++ cst)) (length (gv cch))) a I (seq_NoDup _ _)) as [_ S1];
    [apply Forall_forall; intros; exact I|].
  destruct (bpmG_wf_shape (fun a0 => scalar (fst (ufa uf a0))) [] (fun _ => True) (fun _ => True) (fun _ _ _ _ _ => I)
              (fun a0 _ => conj eq_refl eq_refl) (seq (length (dst ++ dch ++ cst)) (length (gv cch))) a I (seq_NoDup _ _)) as [_ S2];
    [apply Forall_forall; intros; exact I|].
  now rewrite S1, S2.
Qed.

Lemma pol_is_argmax' a : pol_point a
  = argmax (Uarr dst dch cst cch uf a) (Some (seq 0 (length (shape (Uarr dst dch cst cch uf a)) - 0))) (Some VNegInf) (Some (Farr dst dch cst cch uf a)).
Proof. unfold pol_point, compute_ccv_policy, as_floating. rewrite argmax_none. now destruct (argmax _ _ _ _). Qed.

Lemma pol_scalar a : (wf (snd (pol_point a)) /\ shape (snd (pol_point a)) = []) /\ (wf (fst (pol_point a)) /\ shape (fst (pol_point a)) = []).
Proof.
  rewrite pol_is_argmax'.
  pose proof (argmax_trailing_shapes (Uarr dst dch cst cch uf a) (Some VNegInf) (Some (Farr dst dch cst cch uf a)) 0 (UF_shapes a) (Nat.le_0_l _)) as [S1 S2].
  pose proof (argmax_trailing_wf (Uarr dst dch cst cch uf a) (Some VNegInf) (Some (Farr dst dch cst cch uf a)) 0 (UF_shapes a) (Nat.le_0_l _)) as [W1 W2].
  cbn [firstn] in S1, S2. tauto.
Qed.

(* --- per agent: the product map over the discrete choice grids --- *)
Lemma agent_args_form i : agent_args i
  = (scalars (at_row colsD i) ++ map (fun g => vec g) (gv dch) ++ (scalars (at_row colsC i) ++ vecs (gv cch)))%list.
Proof. reflexivity. Qed.

Lemma ccv_rows_shape i :
  wf (base_productmapG (fun a => snd (pol_point a)) (seq (length dst) (length (gv dch))) (slice_at sim_args statepos i)) /\
  shape (base_productmapG (fun a => snd (pol_point a)) (seq (length dst) (length (gv dch))) (slice_at sim_args statepos i)) = sizes dch.
Proof.
  rewrite slice_agent, agent_args_form, <- (length_scalarsD i), <- lengths_gv.
  apply (bpmG_on_grids_shape (fun a => snd (pol_point a)) (fun a => proj1 (pol_scalar a))).
Qed.
Lemma pol_rows_shape i :
  wf (base_productmapG (fun a => fst (pol_point a)) (seq (length dst) (length (gv dch))) (slice_at sim_args statepos i)) /\
  shape (base_productmapG (fun a => fst (pol_point a)) (seq (length dst) (length (gv dch))) (slice_at sim_args statepos i)) = sizes dch.
Proof.
  rewrite slice_agent, agent_args_form, <- (length_scalarsD i), <- lengths_gv.
  apply (bpmG_on_grids_shape (fun a => fst (pol_point a)) (fun a => proj2 (pol_scalar a))).
Qed.

(* the leading axis of the mapped arrays is the number of agents *)
Lemma lead_is_n : lead (nth (hd 0 statepos) sim_args dflt_arr) = n.
Proof.
  unfold statepos, sim_args. rewrite Forall_forall in Hrows.
  destruct colsD as [|c0 rD] eqn:ED.
  - cbn [length seq app hd Nat.add]. destruct colsC as [|c1 rC] eqn:EC; [now contradiction Hstates|].
    cbn [length seq hd vecs map app]. rewrite app_nth2 by (unfold vecs; rewrite map_length; lia).
    unfold vecs. rewrite map_length, Nat.sub_diag. cbn [nth]. rewrite lead_vec. apply Hrows. now left.
  - cbn [length seq app hd vecs map nth]. rewrite lead_vec. apply Hrows. now left.
Qed.

Lemma ccv_shape : wf ccv_arr /\ shape ccv_arr = n :: sizes dch.
Proof.
  split; [apply (vmapG_wf _ _ _ _ ccv_rows_shape)|]. unfold ccv_arr. rewrite (vmapG_shape _ _ _ _ ccv_rows_shape). now rewrite lead_is_n.
Qed.

(* the values the entries stand for *)
Definition prevals_of (i : nat) (red : list nat) : list Q := (at_row colsD i ++ map snd (env_of_idx dch red) ++ at_row colsC i)%list.
Definition U_of (i : nat) (red cidx : list nat) : val := fst (uf (agent_vals i red cidx)).
Definition F_of (i : nat) (red cidx : list nat) : bool := snd (uf (agent_vals i red cidx)).

Lemma length_prevals i red : in_bounds (sizes dch) red -> length (prevals_of i red) = length (dst ++ dch ++ cst).
Proof.
  intros Hr. unfold prevals_of, at_row. rewrite !app_length, !map_length, HlenD, HlenC.
  rewrite length_env_of_idx; [reflexivity|]. rewrite (in_bounds_length _ _ Hr). unfold sizes. now rewrite map_length.
Qed.

Lemma point_args i red : in_bounds (sizes dch) red ->
  (scalars (at_row colsD i) ++ map (fun v => scalar v) (pick (gv dch) red) ++ (scalars (at_row colsC i) ++ vecs (gv cch)))%list
  = (map (fun v => scalar v) (prevals_of i red) ++ map (fun g => vec g) (gv cch))%list.
Proof.
  intros Hr. unfold prevals_of, scalars, vecs. rewrite pick_gv by exact Hr. rewrite !map_app, <- !app_assoc. reflexivity.
Qed.

Lemma tables_of_point i red : in_bounds (sizes dch) red ->
  pol_point (map (fun v => scalar v) (prevals_of i red) ++ map (fun g => vec g) (gv cch))
  = compute_ccv_policy (tabulate (sizes cch) (U_of i red)) (tabulate (sizes cch) (F_of i red)).
Proof.
  intros Hr. unfold pol_point. rewrite (U_table_at dst dch cst cch uf _ (length_prevals i red Hr)),
    (F_table_at dst dch cst cch uf _ (length_prevals i red Hr)).
  f_equal; unfold tabulate; f_equal; apply map_ext; intros cidx; unfold U_of, F_of, agent_vals, prevals_of; now rewrite <- !app_assoc.
Qed.

(* entry (i, red) of the two stacked arrays *)
Lemma ccv_entry i red : i < n -> in_bounds (sizes dch) red ->
  get VUndef ccv_arr (i :: red) = compute_ccv (tabulate (sizes cch) (U_of i red)) (tabulate (sizes cch) (F_of i red)).
Proof.
  intros Hi Hr. unfold ccv_arr. rewrite (vmapG_get VUndef _ _ _ _ ccv_rows_shape); [|now rewrite lead_is_n|exact Hr].
  rewrite slice_agent, agent_args_form, <- (length_scalarsD i).
  rewrite (bpmG_on_grids_entry VUndef (fun a => snd (pol_point a)) (fun a => proj1 (pol_scalar a)) _ (gv dch) _ red) by (now rewrite lengths_gv).
  rewrite (point_args i red Hr), (tables_of_point i red Hr).
  apply (pol_value (sizes cch) (U_of i red) (F_of i red)).
Qed.

Lemma pol_entry i red : i < n -> in_bounds (sizes dch) red ->
  get 0 ccv_policy_arr (i :: red)
  = get 0 (fst (compute_ccv_policy (tabulate (sizes cch) (U_of i red)) (tabulate (sizes cch) (F_of i red)))) [].
Proof.
  intros Hi Hr. unfold ccv_policy_arr. rewrite (vmapG_get 0 _ _ _ _ pol_rows_shape); [|now rewrite lead_is_n|exact Hr].
  rewrite slice_agent, agent_args_form, <- (length_scalarsD i).
  rewrite (bpmG_on_grids_entry 0 (fun a => fst (pol_point a)) (fun a => proj2 (pol_scalar a)) _ (gv dch) _ red) by (now rewrite lengths_gv).
  now rewrite (point_args i red Hr), (tables_of_point i red Hr).
Qed.

Lemma ccv_entry_defined i red : i < n -> in_bounds (sizes dch) red -> defined (get VUndef ccv_arr (i :: red)).
Proof.
  intros Hi Hr. rewrite (ccv_entry i red Hi Hr), compute_ccv_of_tabulated. unfold vmaxl.
  assert (Hdn : defined VNegInf) by discriminate.
  apply (fold_vmax_spec VNegInf _ Hdn). apply Forall_forall. intros x Hx. apply in_map_iff in Hx. destruct Hx as (cidx & <- & _).
  destruct (F_of i red cidx); [apply Hufdef|discriminate].
Qed.

(* --- the discrete stage --- *)
Let r2 := argmax ccv_arr (Some (seq 1 (length (shape ccv_arr) - 1))) None None.

Lemma axes_form : seq 1 (length dch) = seq 1 (length (shape ccv_arr) - 1).
Proof. rewrite (proj2 ccv_shape). cbn [length]. unfold sizes. rewrite map_length. f_equal. lia. Qed.

Lemma decision_unfold : decision = (Some (fst r2), None, snd r2).
Proof. unfold decision, calculate_discrete_argmax. rewrite axes_form. reflexivity. Qed.

Lemma rank_ok : 1 <= length (shape ccv_arr).
Proof. rewrite (proj2 ccv_shape). simpl. lia. Qed.

Lemma inner_is_dshape : skipn 1 (shape ccv_arr) = sizes dch.
Proof. now rewrite (proj2 ccv_shape). Qed.
Lemma front_is_n : firstn 1 (shape ccv_arr) = [n].
Proof. now rewrite (proj2 ccv_shape). Qed.

Definition ccv_of (i : nat) (red : list nat) : val := get VUndef ccv_arr (i :: red).

Lemma value_is_max i : i < n -> value_of i = vmaxl (map (ccv_of i) (indices (sizes dch))).
Proof.
  intros Hi. unfold value_of. rewrite decision_unfold. cbn [snd]. unfold r2.
  rewrite (argmax_trailing_value ccv_arr None None 1 I rank_ok [i]) by (rewrite front_is_n; cbn; lia).
  unfold block_max, init_v, vmaxl. rewrite inner_is_dshape, indices_as_unravel, map_map. f_equal.
  apply map_ext. intros k. unfold okk_, entry_. rewrite inner_is_dshape. reflexivity.
Qed.

(* what every entry of the conditional-value array is, in terms of the specification *)
Lemma ccv_of_spec i red : i < n -> in_bounds (sizes dch) red ->
  veq (ccv_of i red) (vmaxl (map (spec_cand m p t last vnext (agent_state i) dch cch red) (indices (sizes cch)))).
Proof.
  intros Hi Hr. unfold ccv_of. rewrite (ccv_entry i red Hi Hr), compute_ccv_of_tabulated.
  apply vmaxl_compat. apply Forall2_map_in. intros cidx Hc. apply in_indices in Hc.
  destruct (Hpoint i red cidx Hi Hr Hc) as [Hf Ho]. unfold spec_cand. cbv zeta. unfold F_of, U_of.
  fold (agent_env i red cidx). rewrite Hf. destruct (feasible m p (agent_env i red cidx)); [now apply Ho|reflexivity].
Qed.

(* (0) whatever the other choices are: the value of row i is the maximum over the dense discrete and continuous choices *)
Definition cond_max (i : nat) : val :=
  vmaxl (map (fun red => vmaxl (map (spec_cand m p t last vnext (agent_state i) dch cch red) (indices (sizes cch)))) (indices (sizes dch))).

Theorem row_value_is_conditional_max i : i < n -> veq (value_of i) (cond_max i).
Proof.
  intros Hi. rewrite (value_is_max i Hi). unfold cond_max. apply vmaxl_compat. apply Forall2_map_in.
  intros red Hr. apply in_indices in Hr. now apply ccv_of_spec.
Qed.

Lemma value_of_defined i : i < n -> defined (value_of i).
Proof.
  intros Hi. rewrite (value_is_max i Hi). unfold vmaxl. assert (Hdn : defined VNegInf) by discriminate.
  apply (fold_vmax_spec VNegInf _ Hdn). apply Forall_forall. intros x Hx. apply in_map_iff in Hx. destruct Hx as (red & <- & Hr).
  apply in_indices in Hr. now apply ccv_entry_defined.
Qed.

Lemma value_rows_shape : wf (snd decision) /\ shape (snd decision) = [n].
Proof.
  rewrite decision_unfold. cbn [snd]. unfold r2.
  pose proof (argmax_trailing_shapes ccv_arr None None 1 I rank_ok) as [_ S].
  pose proof (argmax_trailing_wf ccv_arr None None 1 I rank_ok) as [_ W].
  rewrite front_is_n in S. split; assumption.
Qed.

(* (1) the reported value is the specification's value of the agent's state *)
Theorem simulated_value_is_the_specifications i : i < n ->
  veq (value_of i) (value_at m p t last vnext (agent_state i)).
Proof.
  intros Hi. rewrite (value_is_max i Hi).
  apply (code_maximum_is_spec_value m p t last vnext (agent_state i) dch cch Hperm Hnd (ccv_of i)).
  intros red Hr. now apply ccv_of_spec.
Qed.

(* (2) the reported choices are admissible and attain it *)
Theorem simulated_choice_is_a_maximiser i : i < n -> value_of i <> VNegInf ->
  let red := unravel (sizes dch) (dense_argmax_of i) in
  let cidx := unravel (sizes cch) (cont_argmax_of i) in
  in_bounds (sizes dch) red /\ in_bounds (sizes cch) cidx /\
  feasible m p (agent_env i red cidx) = true /\
  veq (objective m p last vnext (agent_env i red cidx)) (value_of i).
Proof.
  intros Hi HM. cbv zeta.
  (* the discrete stage: first maximiser over the flattened discrete choice grid *)
  pose proof (argmax_trailing_value ccv_arr None None 1 I rank_ok [i]) as EV.
  pose proof (argmax_trailing_position ccv_arr None None 1 I rank_ok [i]) as EP.
  rewrite front_is_n in EV, EP. specialize (EV ltac:(cbn; lia)). specialize (EP ltac:(cbn; lia)).
  fold r2 in EV, EP. unfold block_max, init_v, okk_, entry_ in EV, EP. rewrite inner_is_dshape in EV, EP.
  set (vals := fun k => get VUndef ccv_arr ([i] ++ unravel (sizes dch) k)).
  set (okf := fun _ : nat => true).
  assert (Hval : value_of i = get VUndef (snd r2) [i]) by (unfold value_of; now rewrite decision_unfold).
  assert (Hpos : dense_argmax_of i = get 0 (fst r2) [i]) by (unfold dense_argmax_of; now rewrite decision_unfold).
  assert (EM : value_of i = fold_right vmax VNegInf (map (fun k => if okf k then vals k else VNegInf) (seq 0 (size (sizes dch))))).
  { rewrite Hval, EV. reflexivity. }
  assert (EPos : dense_argmax_of i = first_true (map (fun k => veqb_num (vals k)
                    (fold_right vmax VNegInf (map (fun k => if okf k then vals k else VNegInf) (seq 0 (size (sizes dch))))) && okf k)
                    (seq 0 (size (sizes dch))))).
  { rewrite Hpos, EP. reflexivity. }
  rewrite EM in HM.
  destruct (first_max_attained (size (sizes dch)) vals okf
              (fun k Hk => ccv_entry_defined i _ Hi (unravel_in_bounds _ k Hk)) HM) as (Hlt & _ & Hv).
  rewrite <- EPos in Hlt, Hv. rewrite <- EM in Hv, HM.
  set (red := unravel (sizes dch) (dense_argmax_of i)) in *.
  assert (Hr : in_bounds (sizes dch) red) by (now apply unravel_in_bounds).
  change (veq (ccv_of i red) (value_of i)) in Hv.
  (* the continuous stage at the chosen discrete combination *)
  assert (Hc : cont_argmax_of i
               = get 0 (fst (compute_ccv_policy (tabulate (sizes cch) (U_of i red)) (tabulate (sizes cch) (F_of i red)))) []).
  { unfold cont_argmax_of, filter_ccv_policy_row. fold red.
    rewrite get_subarr.
    - rewrite app_nil_r. unfold slice. rewrite get_tabulate.
      + now apply pol_entry.
      + unfold ccv_policy_arr. rewrite (vmapG_shape _ _ _ _ pol_rows_shape). exact Hr.
    - unfold slice. rewrite shape_tabulate. unfold ccv_policy_arr. rewrite (vmapG_shape _ _ _ _ pol_rows_shape). cbn [tl].
      rewrite (in_bounds_length _ _ Hr), skipn_all. exact I. }
  assert (Hne : ccv_of i red <> VNegInf).
  { intros E. rewrite E in Hv. destruct (value_of i); simpl in Hv; contradiction. }
  unfold ccv_of in Hne. rewrite (ccv_entry i red Hi Hr) in Hne.
  rewrite <- (pol_value (sizes cch) (U_of i red) (F_of i red)) in Hne.
  destruct (pol_position (sizes cch) (U_of i red) (F_of i red) (fun c => Hufdef _) Hne) as (Hcb & HF & HU).
  rewrite <- Hc in Hcb, HF, HU.
  set (cidx := unravel (sizes cch) (cont_argmax_of i)) in *.
  destruct (Hpoint i red cidx Hi Hr Hcb) as [Hf Ho]. unfold F_of in HF. rewrite Hf in HF.
  split; [exact Hr|]. split; [exact Hcb|]. split; [exact HF|].
  rewrite <- (Ho HF). eapply veq_trans; [exact HU|].
  rewrite (pol_value (sizes cch) (U_of i red) (F_of i red)), <- (ccv_entry i red Hi Hr). exact Hv.
Qed.
End Decision.

(* ---- with or without dense discrete choices: the choice axes as determine_discrete_dense_choice_axes gives them --- *)
Definition sim_choice_axes (dch : list (string * grid)) : option (list nat) :=
  match dch with [] => None | _ => Some (seq 1 (length dch)) end.

Section General.
Variables (dst dch cst cch : list (string * grid)) (uf : list Q -> val * bool) (colsD colsC : list (list Q)).
Definition decision_g := calculate_discrete_argmax (ccv_arr dst dch cst cch uf colsD colsC) (sim_choice_axes dch) None.
Definition dense_argmax_g (i : nat) : option nat :=
  match fst (fst decision_g) with Some a => Some (get 0 a [i]) | None => None end.
Definition value_g (i : nat) : val := get VUndef (snd decision_g) [i].
Definition cont_argmax_g (i : nat) : nat :=
  get 0 (filter_ccv_policy_row (slice 0 (ccv_policy_arr dst dch cst cch uf colsD colsC) i) (dense_argmax_g i) (sizes dch)) [].
Definition red_g (i : nat) : list nat :=
  match dense_argmax_g i with Some d => unravel (sizes dch) d | None => [] end.
End General.

Lemma vmax_neginf_r x : vmax x VNegInf = x.
Proof. destruct x; reflexivity. Qed.

(* row level: no assumption on which choices exist besides dch and cch -- used with the states as rows (agents) and, with
   filter-restricted choices, with the stored (agent, restricted choice) combinations as rows *)
Theorem decision_rows_general :
  forall (m : model) (p : params) (t : nat) (last : bool) (vnext : list nat -> val) (dst dch cst cch : list (string * grid)),
  forall (uf : list Q -> val * bool), (forall vals, defined (fst (uf vals))) ->
  forall (n : nat) (colsD colsC : list (list Q)),
  length colsD = length dst -> length colsC = length cst ->
  Forall (fun c : list Q => length c = n) (colsD ++ colsC) -> (colsD ++ colsC)%list <> [] ->
  (forall i dc cc, i < n -> in_bounds (sizes dch) dc -> in_bounds (sizes cch) cc ->
     snd (uf (agent_vals dch cch colsD colsC i dc cc)) = feasible m p (agent_env t dst dch cst cch colsD colsC i dc cc) /\
     (feasible m p (agent_env t dst dch cst cch colsD colsC i dc cc) = true ->
      veq (fst (uf (agent_vals dch cch colsD colsC i dc cc))) (objective m p last vnext (agent_env t dst dch cst cch colsD colsC i dc cc)))) ->
  (wf (snd (decision_g dst dch cst cch uf colsD colsC)) /\ shape (snd (decision_g dst dch cst cch uf colsD colsC)) = [n]) /\
  forall i, i < n ->
  veq (value_g dst dch cst cch uf colsD colsC i) (cond_max m p t last vnext dst dch cst cch colsD colsC i) /\
  defined (value_g dst dch cst cch uf colsD colsC i) /\
  (value_g dst dch cst cch uf colsD colsC i <> VNegInf ->
   let red := red_g dst dch cst cch uf colsD colsC i in
   let cidx := unravel (sizes cch) (cont_argmax_g dst dch cst cch uf colsD colsC i) in
   in_bounds (sizes dch) red /\ in_bounds (sizes cch) cidx /\
   feasible m p (agent_env t dst dch cst cch colsD colsC i red cidx) = true /\
   veq (objective m p last vnext (agent_env t dst dch cst cch colsD colsC i red cidx)) (value_g dst dch cst cch uf colsD colsC i)).
Proof.
  intros m p t last vnext dst dch cst cch uf Hdef n colsD colsC HlD HlC Hrows Hst Hpoint.
  destruct dch as [|d0 dr].
  - (* no dense discrete choice: no reduction, the continuous arg-max is the policy *)
    split.
    { change (snd (decision_g dst [] cst cch uf colsD colsC)) with (ccv_arr dst [] cst cch uf colsD colsC).
      exact (ccv_shape dst [] cst cch uf n colsD colsC HlD HlC Hrows Hst). }
    intros i Hi.
    assert (Hv : value_g dst [] cst cch uf colsD colsC i = ccv_of dst [] cst cch uf colsD colsC i []) by reflexivity.
    assert (Hb : in_bounds (sizes (@nil (string * grid))) []) by exact I.
    pose proof (ccv_of_spec m p t last vnext dst [] cst cch uf n colsD colsC HlD HlC Hrows Hst Hpoint i [] Hi Hb) as Hs.
    split; [|split].
    + rewrite Hv. unfold cond_max. cbn [sizes map indices]. unfold vmaxl at 1. cbn [fold_right]. rewrite vmax_neginf_r. exact Hs.
    + rewrite Hv. unfold ccv_of. apply (ccv_entry_defined dst [] cst cch uf Hdef n colsD colsC); assumption.
    + intros HM. cbv zeta. change (red_g dst [] cst cch uf colsD colsC i) with (@nil nat).
      assert (Hc : cont_argmax_g dst [] cst cch uf colsD colsC i
                   = get 0 (fst (compute_ccv_policy (tabulate (sizes cch) (U_of [] cch uf colsD colsC i []))
                                                    (tabulate (sizes cch) (F_of [] cch uf colsD colsC i [])))) []).
      { unfold cont_argmax_g, dense_argmax_g, decision_g, sim_choice_axes, calculate_discrete_argmax. cbn [fst snd filter_ccv_policy_row].
        unfold slice. rewrite get_tabulate.
        - now apply (pol_entry dst [] cst cch uf n colsD colsC HlD HlC Hrows Hst i [] Hi).
        - unfold ccv_policy_arr. rewrite (vmapG_shape _ _ _ _ (pol_rows_shape dst [] cst cch uf colsD colsC HlD)). exact I. }
      rewrite Hv in HM. unfold ccv_of in HM. rewrite (ccv_entry dst [] cst cch uf n colsD colsC HlD HlC Hrows Hst i [] Hi Hb) in HM.
      rewrite <- (pol_value (sizes cch) (U_of [] cch uf colsD colsC i []) (F_of [] cch uf colsD colsC i [])) in HM.
      destruct (pol_position (sizes cch) (U_of [] cch uf colsD colsC i []) (F_of [] cch uf colsD colsC i []) (fun c => Hdef _) HM) as (Hcb & HF & HU).
      rewrite <- Hc in Hcb, HF, HU.
      set (cidx := unravel (sizes cch) (cont_argmax_g dst [] cst cch uf colsD colsC i)) in *.
      destruct (Hpoint i [] cidx Hi Hb Hcb) as [Hf Ho]. unfold F_of in HF. rewrite Hf in HF.
      split; [exact I|]. split; [exact Hcb|]. split; [exact HF|].
      rewrite <- (Ho HF). eapply veq_trans; [exact HU|].
      rewrite (pol_value (sizes cch) (U_of [] cch uf colsD colsC i []) (F_of [] cch uf colsD colsC i [])).
      rewrite <- (ccv_entry dst [] cst cch uf n colsD colsC HlD HlC Hrows Hst i [] Hi Hb). rewrite Hv. reflexivity.
  - (* at least one dense discrete choice *)
    split; [exact (value_rows_shape dst (d0 :: dr) cst cch uf n colsD colsC HlD HlC Hrows Hst)|].
    intros i Hi. split; [|split].
    + exact (row_value_is_conditional_max m p t last vnext dst (d0 :: dr) cst cch uf n colsD colsC HlD HlC Hrows Hst Hpoint i Hi).
    + apply (value_of_defined dst (d0 :: dr) cst cch uf Hdef n colsD colsC); assumption.
    + exact (simulated_choice_is_a_maximiser m p t last vnext dst (d0 :: dr) cst cch uf Hdef n colsD colsC HlD HlC Hrows Hst Hpoint i Hi).
Qed.

(* agent level (no filter-restricted choices): dch and cch are all the choices of the model *)
Theorem simulated_decision_is_optimal :
  forall (m : model) (p : params) (t : nat) (last : bool) (vnext : list nat -> val) (dst dch cst cch : list (string * grid)),
  Permutation (dch ++ cch) (choices m) -> NoDup (map fst (choices m)) ->
  forall (uf : list Q -> val * bool), (forall vals, defined (fst (uf vals))) ->
  forall (n : nat) (colsD colsC : list (list Q)),
  length colsD = length dst -> length colsC = length cst ->
  Forall (fun c : list Q => length c = n) (colsD ++ colsC) -> (colsD ++ colsC)%list <> [] ->
  (forall i dc cc, i < n -> in_bounds (sizes dch) dc -> in_bounds (sizes cch) cc ->
     snd (uf (agent_vals dch cch colsD colsC i dc cc)) = feasible m p (agent_env t dst dch cst cch colsD colsC i dc cc) /\
     (feasible m p (agent_env t dst dch cst cch colsD colsC i dc cc) = true ->
      veq (fst (uf (agent_vals dch cch colsD colsC i dc cc))) (objective m p last vnext (agent_env t dst dch cst cch colsD colsC i dc cc)))) ->
  forall i, i < n ->
  veq (value_g dst dch cst cch uf colsD colsC i) (value_at m p t last vnext (agent_state dst cst colsD colsC i)) /\
  (value_g dst dch cst cch uf colsD colsC i <> VNegInf ->
   let red := red_g dst dch cst cch uf colsD colsC i in
   let cidx := unravel (sizes cch) (cont_argmax_g dst dch cst cch uf colsD colsC i) in
   in_bounds (sizes dch) red /\ in_bounds (sizes cch) cidx /\
   feasible m p (agent_env t dst dch cst cch colsD colsC i red cidx) = true /\
   veq (objective m p last vnext (agent_env t dst dch cst cch colsD colsC i red cidx)) (value_g dst dch cst cch uf colsD colsC i)).
Proof.
  intros m p t last vnext dst dch cst cch Hperm Hnd uf Hdef n colsD colsC HlD HlC Hrows Hst Hpoint i Hi.
  destruct (decision_rows_general m p t last vnext dst dch cst cch uf Hdef n colsD colsC HlD HlC Hrows Hst Hpoint) as [_ G].
  destruct (G i Hi) as (Hv & _ & Hmax). split; [|exact Hmax].
  eapply veq_trans; [exact Hv|]. unfold cond_max.
  apply (code_maximum_is_spec_value m p t last vnext (agent_state dst cst colsD colsC i) dch cch Hperm Hnd
           (fun red => vmaxl (map (spec_cand m p t last vnext (agent_state dst cst colsD colsC i) dch cch red) (indices (sizes cch))))).
  intros red Hr. reflexivity.
Qed.

(* ---- with the regenerated u_and_f at every (agent, choice) point ---------------------------------------------------- *)
Section DecisionOfTheCode.
Variables (m : model) (p : params) (t : nat) (F : list nat -> Q).
Variables (dst dch cst cch : list (string * grid)).
Hypothesis Hperm : Permutation (dch ++ cch) (choices m).
Hypothesis Hnd : NoDup (map fst (choices m)).
Hypothesis Hnds : NoDup (map fst (states m)).
Hypothesis Hvalid : grids_valid (states m).
Variables (n : nat) (colsD colsC : list (list Q)).
Hypothesis HlenD : length colsD = length dst.
Hypothesis HlenC : length colsC = length cst.
Hypothesis Hrows : Forall (fun c : list Q => length c = n) (colsD ++ colsC).
Hypothesis Hstates : (colsD ++ colsC)%list <> [].

Lemma env_of_sim_vals i dc cc : in_bounds (sizes dch) dc -> in_bounds (sizes cch) cc ->
  env_of_vals t dst dch cst cch (agent_vals dch cch colsD colsC i dc cc) = agent_env t dst dch cst cch colsD colsC i dc cc.
Proof.
  intros H2 H4.
  assert (L : forall vars idx, in_bounds (sizes vars) idx -> length idx = length vars).
  { intros vars idx H. rewrite (in_bounds_length _ _ H). unfold sizes. now rewrite map_length. }
  unfold env_of_vals, agent_vals, agent_env, agent_state. cbv zeta.
  destruct (firstn_skipn_app (at_row colsD i) (map snd (env_of_idx dch dc) ++ at_row colsC i ++ map snd (env_of_idx cch cc)) (length dst)) as [E1 E2];
    [unfold at_row; now rewrite map_length|]. rewrite E1, E2.
  destruct (firstn_skipn_app (map snd (env_of_idx dch dc)) (at_row colsC i ++ map snd (env_of_idx cch cc)) (length dch)) as [E3 E4];
    [rewrite map_length; apply length_env_of_idx; now apply L|]. rewrite E3, E4.
  destruct (firstn_skipn_app (at_row colsC i) (map snd (env_of_idx cch cc)) (length cst)) as [E5 E6];
    [unfold at_row; now rewrite map_length|]. rewrite E5, E6.
  rewrite !combine_names_vals by (now apply L). reflexivity.
Qed.

(* a period that is not the last: the model evaluates at every (agent, choice) point *)
Hypothesis Heval : forall i dc cc, i < n -> in_bounds (sizes dch) dc -> in_bounds (sizes cch) cc ->
  evaluates_at m p F (agent_env t dst dch cst cch colsD colsC i dc cc).

Let uf := uf_code m p t F dst dch cst cch.

Lemma uf_code_defined vals : defined (fst (uf vals)).
Proof. unfold uf, uf_code. cbv zeta. cbn [fst]. discriminate. Qed.

Lemma uf_code_point i dc cc : i < n -> in_bounds (sizes dch) dc -> in_bounds (sizes cch) cc ->
  snd (uf (agent_vals dch cch colsD colsC i dc cc)) = feasible m p (agent_env t dst dch cst cch colsD colsC i dc cc) /\
  (feasible m p (agent_env t dst dch cst cch colsD colsC i dc cc) = true ->
   veq (fst (uf (agent_vals dch cch colsD colsC i dc cc)))
       (objective m p false (fun idx => VFin (F idx)) (agent_env t dst dch cst cch colsD colsC i dc cc))).
Proof.
  intros Hi H2 H4. unfold uf, uf_code. cbv zeta. rewrite (env_of_sim_vals i dc cc H2 H4). cbn [fst snd].
  destruct (uf_code_at m p t F Hnds Hvalid _ (Heval i dc cc Hi H2 H4)) as [Ef Ev]. cbv zeta in Ef, Ev.
  split; [exact Ef|]. intros _. exact Ev.
Qed.

Theorem decision_of_the_code_is_optimal i : i < n ->
  veq (value_g dst dch cst cch uf colsD colsC i) (value_at m p t false (fun idx => VFin (F idx)) (agent_state dst cst colsD colsC i)) /\
  (value_g dst dch cst cch uf colsD colsC i <> VNegInf ->
   let red := red_g dst dch cst cch uf colsD colsC i in
   let cidx := unravel (sizes cch) (cont_argmax_g dst dch cst cch uf colsD colsC i) in
   in_bounds (sizes dch) red /\ in_bounds (sizes cch) cidx /\
   feasible m p (agent_env t dst dch cst cch colsD colsC i red cidx) = true /\
   veq (objective m p false (fun idx => VFin (F idx)) (agent_env t dst dch cst cch colsD colsC i red cidx))
       (value_g dst dch cst cch uf colsD colsC i)).
Proof.
  exact (simulated_decision_is_optimal m p t false (fun idx => VFin (F idx)) dst dch cst cch Hperm Hnd uf uf_code_defined
           n colsD colsC HlenD HlenC Hrows Hstates uf_code_point i).
Qed.
End DecisionOfTheCode.

(* the last period: u_and_f is the regenerated last-period function *)
Section LastDecisionOfTheCode.
Variables (m : model) (p : params) (t : nat) (vnext : list nat -> val).
Variables (dst dch cst cch : list (string * grid)).
Hypothesis Hperm : Permutation (dch ++ cch) (choices m).
Hypothesis Hnd : NoDup (map fst (choices m)).
Variables (n : nat) (colsD colsC : list (list Q)).
Hypothesis HlenD : length colsD = length dst.
Hypothesis HlenC : length colsC = length cst.
Hypothesis Hrows : Forall (fun c : list Q => length c = n) (colsD ++ colsC).
Hypothesis Hstates : (colsD ++ colsC)%list <> [].
Hypothesis Heval : forall i dc cc, i < n -> in_bounds (sizes dch) dc -> in_bounds (sizes cch) cc ->
  exists u, eval_fun (depth m) m p (agent_env t dst dch cst cch colsD colsC i dc cc) "utility" = Some u.

Let uf := uf_code_last m p t dst dch cst cch.

Lemma uf_last_defined vals : defined (fst (uf vals)).
Proof. unfold uf, uf_code_last. cbv zeta. cbn [fst]. discriminate. Qed.

Lemma uf_last_point i dc cc : i < n -> in_bounds (sizes dch) dc -> in_bounds (sizes cch) cc ->
  snd (uf (agent_vals dch cch colsD colsC i dc cc)) = feasible m p (agent_env t dst dch cst cch colsD colsC i dc cc) /\
  (feasible m p (agent_env t dst dch cst cch colsD colsC i dc cc) = true ->
   veq (fst (uf (agent_vals dch cch colsD colsC i dc cc)))
       (objective m p true vnext (agent_env t dst dch cst cch colsD colsC i dc cc))).
Proof.
  intros Hi H2 H4. unfold uf, uf_code_last, Gen.ModelFunctions.u_and_f_last. cbv zeta.
  rewrite (env_of_sim_vals t dst dch cst cch colsD colsC HlenD HlenC i dc cc H2 H4). cbn [fst snd].
  split; [reflexivity|]. intros _. destruct (Heval i dc cc Hi H2 H4) as (u & Hu).
  unfold objective, u_of. rewrite Hu. reflexivity.
Qed.

Theorem last_decision_of_the_code_is_optimal i : i < n ->
  veq (value_g dst dch cst cch uf colsD colsC i) (value_at m p t true vnext (agent_state dst cst colsD colsC i)) /\
  (value_g dst dch cst cch uf colsD colsC i <> VNegInf ->
   let red := red_g dst dch cst cch uf colsD colsC i in
   let cidx := unravel (sizes cch) (cont_argmax_g dst dch cst cch uf colsD colsC i) in
   in_bounds (sizes dch) red /\ in_bounds (sizes cch) cidx /\
   feasible m p (agent_env t dst dch cst cch colsD colsC i red cidx) = true /\
   veq (objective m p true vnext (agent_env t dst dch cst cch colsD colsC i red cidx))
       (value_g dst dch cst cch uf colsD colsC i)).
Proof.
  exact (simulated_decision_is_optimal m p t true vnext dst dch cst cch Hperm Hnd uf uf_last_defined
           n colsD colsC HlenD HlenC Hrows Hstates uf_last_point i).
Qed.
End LastDecisionOfTheCode.

(* the decision above is what the regenerated get_discrete_policy_calculator computes on the variable_info of the model *)
From LCM Require Import Proofs.C18_AxesFilterFree Proofs.C18_AxesSimulation.
Lemma decision_is_the_policy_calculators (dst dch cst cch : list (string * grid)) uf colsD colsC :
  NoDup (map fst (dst ++ dch ++ cst ++ cch)) ->
  get_discrete_policy_calculator (vi_of dst dch cst cch) (ccv_arr dst dch cst cch uf colsD colsC) None
  = decision_g dst dch cst cch uf colsD colsC.
Proof. intros H. rewrite (policy_calculator_of_filter_free dst dch cst cch H). reflexivity. Qed.

(* Proofs/C15_Interp.v — map_coordinates (built on the translated kernel) is the  *)
(* multilinear interpolant of Spec/Interp.v, for every rank.                       *)
From Coq Require Import Lqa Setoid Morphisms.
From LCM Require Import Base.Prelude Base.Arr Base.QKernel Gen.NdimageKernel.
From LCM Require Import Spec.Interp Model.Ndimage Proofs.QLemmas Proofs.ArrLemmas.
Local Open Scope Q_scope.

(* ---- the kernel: what _compute_indices_and_weights returns -------------------- *)
Lemma ciw_spec c n : (2 <= n)%nat ->
  exists i0 w0 i1 w1,
    compute_indices_and_weights c (Z.of_nat n) = [(i0, w0); (i1, w1)] /\
    to_index i0 = cell_lo c n /\ to_index i1 = S (cell_lo c n) /\
    w0 == 1 - cell_w c n /\ w1 == cell_w c n.
Proof.
  intros Hn. unfold compute_indices_and_weights.
  do 4 eexists. split; [reflexivity|].
  unfold Qfloor_q. rewrite Qclip_inject_Z, Qastype_int_inject_Z.
  unfold cell_w, cell_lo.
  set (L := Zclip (Qfloor c) 0 (Z.of_nat n - 2)).
  assert (HL : (0 <= L)%Z) by (unfold L, Zclip; lia).
  assert (HLL : Z.of_nat (Z.to_nat L) = L) by (apply Z2Nat.id; exact HL).
  rewrite HLL.
  split; [|split; [|split]].
  - unfold to_index. now rewrite Qfloor_inject_Z.
  - unfold to_index. rewrite <- inject_Z_plus, Qfloor_inject_Z.
    rewrite Z2Nat.inj_add by lia. simpl. lia.
  - ring.
  - reflexivity.
Qed.

(* ---- sums and products as used by map_coordinates ----------------------------- *)
Lemma fold_left_Qplus_acc l : forall a, fold_left Qplus l a == a + fold_left Qplus l 0.
Proof.
  induction l as [|x r IH]; intros a; simpl; [ring|].
  rewrite IH, (IH (0 + x)). ring.
Qed.

Lemma fold_left_Qmult_acc l : forall a, fold_left Qmult l a == a * fold_left Qmult l 1.
Proof.
  induction l as [|x r IH]; intros a; simpl; [ring|].
  rewrite IH, (IH (1 * x)). ring.
Qed.

Definition qsum (l : list Q) : Q := fold_left Qplus l 0.

Lemma sum_all_qsum l : l <> [] -> sum_all l == qsum l.
Proof.
  destruct l as [|x r]; [congruence|]. intros _. unfold sum_all, reduce1, qsum. simpl.
  rewrite fold_left_Qplus_acc, (fold_left_Qplus_acc r (0 + x)). ring.
Qed.

Lemma qsum_app l1 l2 : qsum (l1 ++ l2) == qsum l1 + qsum l2.
Proof. unfold qsum. rewrite fold_left_app, fold_left_Qplus_acc. reflexivity. Qed.

Lemma qsum_map_scale {A} (g h : A -> Q) (w : Q) (l : list A) :
  (forall x, g x == w * h x) -> qsum (map g l) == w * qsum (map h l).
Proof.
  intros H. induction l as [|x r IH]; unfold qsum in *; simpl; [ring|].
  rewrite fold_left_Qplus_acc, (fold_left_Qplus_acc _ (0 + h x)), IH, H. ring.
Qed.

Lemma multiply_all_cons w ws : multiply_all (w :: ws) == w * fold_left Qmult ws 1.
Proof. unfold multiply_all, reduce1. apply fold_left_Qmult_acc. Qed.

Lemma multiply_all_cons2 w ws : ws <> [] -> multiply_all (w :: ws) == w * multiply_all ws.
Proof.
  intros H. rewrite multiply_all_cons. destruct ws as [|v r]; [congruence|].
  unfold multiply_all, reduce1. simpl. rewrite (fold_left_Qmult_acc r (1 * v)), (fold_left_Qmult_acc r v). ring.
Qed.

(* ---- the contribution of one corner ------------------------------------------- *)
Definition corner_value (f : list nat -> Q) (iw : list (Q * Q)) : Q :=
  fold_left Qmult (map snd iw) 1 * f (map to_index (map fst iw)).

Definition data_of (cs : list Q) (sh : list nat) : list (list (Q * Q)) :=
  map (fun c => compute_indices_and_weights (fst c) (Z.of_nat (snd c))) (zip cs sh).

Lemma corner_value_cons f p rest :
  corner_value f (p :: rest) == snd p * corner_value (fun idx => f (to_index (fst p) :: idx)) rest.
Proof.
  unfold corner_value. simpl. rewrite fold_left_Qmult_acc. ring.
Qed.

Lemma interp_ext f g sh : forall cs, (forall idx, f idx == g idx) -> interp f sh cs == interp g sh cs.
Proof.
  revert f g. induction sh as [|n sh IH]; intros f g cs H; cbn [interp]; [apply H|].
  destruct cs as [|c cs]; [apply H|].
  pose proof (IH (fun idx => f (cell_lo c n :: idx)) (fun idx => g (cell_lo c n :: idx)) cs
                 (fun idx => H (cell_lo c n :: idx))) as E1.
  pose proof (IH (fun idx => f (S (cell_lo c n) :: idx)) (fun idx => g (S (cell_lo c n) :: idx)) cs
                 (fun idx => H (S (cell_lo c n) :: idx))) as E2.
  rewrite E1, E2. reflexivity.
Qed.

Theorem corners_sum_is_interp sh : forall f cs,
  length cs = length sh -> Forall (fun n => (2 <= n)%nat) sh ->
  qsum (map (corner_value f) (product (data_of cs sh))) == interp f sh cs.
Proof.
  induction sh as [|n sh IH]; intros f cs Hlen Hdims.
  - destruct cs; [|discriminate]. unfold data_of, qsum, corner_value. simpl. ring.
  - destruct cs as [|c cs]; [discriminate|]. simpl in Hlen. injection Hlen as Hlen.
    inversion Hdims as [|? ? Hn Hdims']; subst.
    unfold data_of. cbn [zip map fst snd]. fold (data_of cs sh).
    destruct (@ciw_spec c n Hn) as (i0 & w0 & i1 & w1 & Heq & Hi0 & Hi1 & Hw0 & Hw1).
    rewrite Heq. cbn [product flat_map]. rewrite app_nil_r.
    rewrite map_app, qsum_app, !map_map.
    pose proof (@qsum_map_scale _ (fun x => corner_value f ((i0, w0) :: x))
                  (corner_value (fun idx => f (to_index i0 :: idx))) w0 (product (data_of cs sh))
                  (fun x => corner_value_cons f (i0, w0) x)) as S0.
    pose proof (@qsum_map_scale _ (fun x => corner_value f ((i1, w1) :: x))
                  (corner_value (fun idx => f (to_index i1 :: idx))) w1 (product (data_of cs sh))
                  (fun x => corner_value_cons f (i1, w1) x)) as S1.
    rewrite S0, S1.
    rewrite !IH by assumption.
    cbn [interp]. rewrite Hi0, Hi1, Hw0, Hw1. reflexivity.
Qed.

Lemma product_nonempty {A} (ls : list (list A)) :
  Forall (fun l => l <> []) ls -> product ls <> [].
Proof.
  induction ls as [|l r IH]; intros H; simpl; [discriminate|].
  inversion H as [|? ? Hl Hr]; subst. destruct l as [|x l']; [congruence|].
  simpl. specialize (IH Hr). destruct (product r); [congruence|]. simpl. discriminate.
Qed.

Lemma data_of_nonempty cs sh : Forall (fun l => l <> []) (data_of cs sh).
Proof.
  unfold data_of. apply Forall_forall. intros l Hin. apply in_map_iff in Hin.
  destruct Hin as (x & <- & _). unfold compute_indices_and_weights. discriminate.
Qed.

Lemma multiply_all_fold ws : ws <> [] -> multiply_all ws == fold_left Qmult ws 1.
Proof.
  destruct ws as [|w r]; [congruence|]. intros _. unfold multiply_all, reduce1. simpl.
  rewrite fold_left_Qmult_acc, (fold_left_Qmult_acc r (1 * w)). ring.
Qed.

Lemma qsum_map_ext {A} (g h : A -> Q) l : (forall x, In x l -> g x == h x) -> qsum (map g l) == qsum (map h l).
Proof.
  induction l as [|x r IH]; intros H; [reflexivity|]. unfold qsum in *. simpl.
  rewrite fold_left_Qplus_acc, (fold_left_Qplus_acc _ (0 + h x)), IH, (H x) by (intros; try apply H; simpl; auto).
  reflexivity.
Qed.

Lemma product_length_elts {A} (ls : list (list A)) x : In x (product ls) -> length x = length ls.
Proof.
  revert x. induction ls as [|l r IH]; intros x H; simpl in *.
  - destruct H as [<-|[]]. reflexivity.
  - apply in_flat_map in H. destruct H as (y & _ & H). apply in_map_iff in H.
    destruct H as (z & <- & Hz). simpl. f_equal. now apply IH.
Qed.

(* map_coordinates = multilinear interpolation, any rank >= 1 *)
Theorem map_coordinates_is_interp (input : arr Q) (cs : list Q) :
  shape input <> [] -> length cs = length (shape input) ->
  Forall (fun n => (2 <= n)%nat) (shape input) ->
  map_coordinates input cs == interp (get 0 input) (shape input) cs.
Proof.
  intros Hrank Hlen Hdims. unfold map_coordinates. fold (data_of cs (shape input)).
  rewrite sum_all_qsum.
  2:{ intro E. apply map_eq_nil in E. revert E. apply product_nonempty, data_of_nonempty. }
  rewrite <- corners_sum_is_interp by assumption.
  apply qsum_map_ext. intros iw Hin. unfold corner_value.
  rewrite multiply_all_fold; [reflexivity|].
  apply product_length_elts in Hin. unfold data_of in Hin. rewrite map_length in Hin.
  intro E. apply map_eq_nil in E. subst iw. simpl in Hin.
  destruct (shape input); [congruence|]. destruct cs; [discriminate|]. simpl in Hin. discriminate.
Qed.

(* Proofs/C01_Sparse.v — one period of the code is one period of the specification, for models WITH               *)
(* filter-restricted variables: the state-choice space holds only the filter-passing combinations of the             *)
(* restricted variables (one sparse leading axis), the reduction is the maximum over the dense discrete choice axes   *)
(* followed by the segment maximum over the stored combinations of every remaining restricted state.                 *)
From Coq Require Import Lqa Lia Permutation.
From LCM Require Import Base.Prelude Base.Arr Base.ArrOps Model.Dispatchers Model.DispatchersG Model.StateSpace
                        Gen.DiscreteNoShocks Gen.CCV.
From LCM Require Import Spec.Lang Spec.Bellman Spec.Layout Proofs.ArrLemmas Proofs.ArrLemmas2 Proofs.Spec_Algebra Proofs.Spec_Bellman
                        Proofs.C11_Affine Proofs.C11_Horizon Proofs.C10_Rewrite Proofs.C10_Choices Proofs.C17_StateSpace Proofs.Refine_StateSpace
                        Proofs.C18_Segment Proofs.C19_Dispatch Proofs.C19_DispatchG
                        Proofs.C01_Compose Proofs.C01_MaxCompose Proofs.C01_Period Proofs.C01_Agents.
Local Open Scope nat_scope.

(* ---- a model function reads the environment only at the names reachable from it ------------------------------- *)
Lemma find_fun_name' m name f : find_fun m name = Some f -> fname f = name.
Proof. unfold find_fun. intros H. apply find_some in H. destruct H as [_ H]. now apply String.eqb_eq in H. Qed.

Theorem eval_fun_reads_only_reachable_variables :
  forall fuel m p e e' name,
  (forall a, In a (ancestors fuel m name) -> assoc a e = assoc a e') ->
  eval_fun fuel m p e name = eval_fun fuel m p e' name.
Proof.
  induction fuel as [|fuel IH]; intros m p e e' name Hag; [reflexivity|].
  cbn [eval_fun]. destruct (find_fun m name) as [f|] eqn:Ef; [|reflexivity].
  assert (Eargs : forall a, In a (fargs f) ->
            match assoc a e with
            | Some v => Some v
            | None => match find_fun m a with Some _ => eval_fun fuel m p e a | None => Some (par p (fname f) a) end
            end =
            match assoc a e' with
            | Some v => Some v
            | None => match find_fun m a with Some _ => eval_fun fuel m p e' a | None => Some (par p (fname f) a) end
            end).
  { intros a Ha.
    assert (Ea : assoc a e = assoc a e').
    { apply Hag. cbn [ancestors]. rewrite Ef. apply in_flat_map. exists a. split; [exact Ha|]. now left. }
    rewrite Ea. destruct (assoc a e'); [reflexivity|].
    destruct (find_fun m a) eqn:Efa; [|reflexivity].
    apply IH. intros b Hb. apply Hag. cbn [ancestors]. rewrite Ef. apply in_flat_map. exists a. split; [exact Ha|].
    right. now rewrite Efa. }
  assert (Eo : omap (fun a => match assoc a e with
                              | Some v => Some v
                              | None => match find_fun m a with Some _ => eval_fun fuel m p e a | None => Some (par p (fname f) a) end end) (fargs f)
             = omap (fun a => match assoc a e' with
                              | Some v => Some v
                              | None => match find_fun m a with Some _ => eval_fun fuel m p e' a | None => Some (par p (fname f) a) end end) (fargs f)).
  { clear Hag IH. induction (fargs f) as [|a r IHr]; [reflexivity|].
    cbn [omap]. rewrite (Eargs a) by (now left). rewrite IHr; [reflexivity|].
    intros b Hb. apply Eargs. now right. }
  now rewrite Eo.
Qed.

(* a filter holds at an environment iff it holds at any environment with the same restricted variables *)
Lemma filter_holds_locally m p e e' f : In f (filters m) ->
  (forall a, is_restricted m a = true -> assoc a e = assoc a e') ->
  holds m p e f = holds m p e' f.
Proof.
  intros Hf Hag. unfold holds. rewrite (eval_fun_reads_only_reachable_variables (depth m) m p e e' (fname f)); [reflexivity|].
  intros a Ha. apply Hag. unfold is_restricted, restricted_names. apply (proj2 (existsb_exists _ _)).
  exists a. split; [|apply String.eqb_refl]. apply in_flat_map. exists f. split; [exact Hf|exact Ha].
Qed.

(* ---- the columns of the stored combinations (create_combination_grid) ------------------------------------------------ *)
Definition comb_cols (grids : list (list Q)) (combos : list (list nat)) : list (list Q) :=
  map (fun ag : nat * list Q => map (fun idx : list nat => nth (nth (fst ag) idx 0) (snd ag) 0%Q) combos)
      (combine (seq 0 (length grids)) grids).

Lemma comb_cols_is_combination_grid grids mask : comb_cols grids (true_positions mask) = combination_grid grids mask.
Proof. reflexivity. Qed.

Lemma pick_offset : forall (grids : list (list Q)) (pre idx : list nat), length idx = length grids ->
  map (fun ag : nat * list Q => nth (nth (fst ag) (pre ++ idx) 0) (snd ag) 0%Q) (combine (seq (length pre) (length grids)) grids)
  = pick grids idx.
Proof.
  induction grids as [|g r IH]; intros pre idx H; [reflexivity|]. destruct idx as [|k idx']; [discriminate|].
  cbn [length seq combine map fst snd pick]. f_equal.
  - now rewrite app_nth2, Nat.sub_diag by lia.
  - change (pre ++ k :: idx')%list with (pre ++ [k] ++ idx')%list. rewrite app_assoc.
    replace (S (length pre)) with (length (pre ++ [k])) by (rewrite app_length; simpl; lia).
    apply IH. simpl in H. lia.
Qed.

Lemma at_row_comb_cols grids combos k : k < length combos -> length (nth k combos []) = length grids ->
  at_row (comb_cols grids combos) k = pick grids (nth k combos []).
Proof.
  intros Hk Hl. unfold at_row, comb_cols. rewrite map_map.
  rewrite <- (pick_offset grids [] (nth k combos []) Hl). cbn [length app]. apply map_ext. intros [j g]. cbn [fst snd].
  rewrite (nth_indep _ 0%Q ((fun idx : list nat => nth (nth j idx 0) g 0%Q) [])) by (now rewrite map_length).
  now rewrite (map_nth (fun idx : list nat => nth (nth j idx 0) g 0%Q)).
Qed.

Lemma length_comb_cols grids combos : length (comb_cols grids combos) = length grids.
Proof. unfold comb_cols. now rewrite map_length, combine_length, seq_length, Nat.min_id. Qed.

Lemma comb_cols_rows grids combos : Forall (fun c : list Q => length c = length combos) (comb_cols grids combos).
Proof. unfold comb_cols. apply Forall_forall. intros c Hc. apply in_map_iff in Hc. destruct Hc as (ag & <- & _). now rewrite map_length. Qed.

(* slicing when only one leading block of arguments is mapped *)
Lemma slice_at_leading (colsA : list (list Q)) (B : list qarr) i :
  slice_at (vecs colsA ++ B) (seq 0 (length colsA)) i = (scalars (at_row colsA i) ++ B)%list.
Proof.
  pose proof (slice_at_blocks colsA [] B [] i) as H. cbn [vecs scalars at_row map length seq] in H.
  rewrite !app_nil_r in H. exact H.
Qed.

(* ---- one period with a sparse leading axis ------------------------------------------------------------------------------ *)
Section SparsePeriod.
Variables (rs rc dst dch cst cch : list (string * grid)).
Variable uf : list Q -> val * bool.     (* values in the order rs, rc, dst, dch, cst, cch *)
Variable combos : list (list nat).       (* stored combinations: index tuples over rs ++ rc *)
Let rv := (rs ++ rc)%list.
Let dense := (dst ++ dch ++ cst)%list.
Hypothesis Hrv : rv <> [].
Hypothesis Hcombos : Forall (in_bounds (sizes rv)) combos.

Definition sparse_cols : list (list Q) := comb_cols (gv rv) combos.
Definition sparse_args : list qarr := (vecs sparse_cols ++ (vecs (gv dense) ++ vecs (gv cch)))%list.
Definition cc_sparse : arr val :=
  vmapG (base_productmapG (ccv_point (rv ++ dst) dch cst cch uf) (seq (length rv) (length (gv dense))))
        (seq 0 (length sparse_cols)) sparse_args.

Lemma length_sparse_cols : length sparse_cols = length rv.
Proof. unfold sparse_cols. rewrite length_comb_cols. unfold gv. now rewrite map_length. Qed.

Lemma combo_length k : k < length combos -> length (nth k combos []) = length (gv rv).
Proof.
  intros Hk. rewrite Forall_forall in Hcombos. pose proof (Hcombos _ (nth_In combos [] Hk)) as B.
  rewrite (in_bounds_length _ _ B). unfold sizes, gv. now rewrite !map_length.
Qed.

Lemma sparse_slice k : slice_at sparse_args (seq 0 (length sparse_cols)) k
  = (scalars (at_row sparse_cols k) ++ (map (fun g => vec g) (gv dense) ++ vecs (gv cch)))%list.
Proof. unfold sparse_args. apply slice_at_leading. Qed.

Lemma length_scalars_row k : length (scalars (at_row sparse_cols k)) = length rv.
Proof. unfold scalars, at_row. now rewrite !map_length, length_sparse_cols. Qed.

Lemma cc_rows_shape k :
  wf (base_productmapG (ccv_point (rv ++ dst) dch cst cch uf) (seq (length rv) (length (gv dense))) (slice_at sparse_args (seq 0 (length sparse_cols)) k)) /\
  shape (base_productmapG (ccv_point (rv ++ dst) dch cst cch uf) (seq (length rv) (length (gv dense))) (slice_at sparse_args (seq 0 (length sparse_cols)) k))
  = sizes dense.
Proof.
  rewrite sparse_slice, <- (length_scalars_row k), <- lengths_gv.
  apply (bpmG_on_grids_shape (ccv_point (rv ++ dst) dch cst cch uf) (fun a => conj eq_refl eq_refl)).
Qed.

Lemma sparse_lead : lead (nth (hd 0 (seq 0 (length sparse_cols))) sparse_args dflt_arr) = length combos.
Proof.
  pose proof length_sparse_cols as L. pose proof (comb_cols_rows (gv rv) combos) as R. fold sparse_cols in R.
  unfold sparse_args. destruct sparse_cols as [|c0 r].
  - destruct rv; [now contradiction Hrv|discriminate].
  - cbn [length seq hd vecs map app nth]. rewrite lead_vec. inversion R; subst. assumption.
Qed.

Lemma cc_sparse_shape : wf cc_sparse /\ shape cc_sparse = length combos :: sizes dense.
Proof.
  split; [apply (vmapG_wf _ _ _ _ cc_rows_shape)|]. unfold cc_sparse. rewrite (vmapG_shape _ _ _ _ cc_rows_shape). now rewrite sparse_lead.
Qed.

Definition sparse_prevals (k : nat) (didx : list nat) : list Q := (pick (gv rv) (nth k combos []) ++ pick (gv dense) didx)%list.

Lemma length_sparse_prevals k didx : k < length combos -> in_bounds (sizes dense) didx ->
  length (sparse_prevals k didx) = length ((rv ++ dst) ++ dch ++ cst).
Proof.
  intros Hk Hd. unfold sparse_prevals, pick. rewrite app_length, !map_length, !combine_length, (combo_length k Hk).
  rewrite (in_bounds_length _ _ Hd). unfold gv, sizes, dense. rewrite !map_length, !app_length. lia.
Qed.

Lemma cc_sparse_entry k didx : k < length combos -> in_bounds (sizes dense) didx ->
  get VUndef cc_sparse (k :: didx)
  = compute_ccv (tabulate (sizes cch) (fun cidx => fst (uf (sparse_prevals k didx ++ map snd (env_of_idx cch cidx)))))
                (tabulate (sizes cch) (fun cidx => snd (uf (sparse_prevals k didx ++ map snd (env_of_idx cch cidx))))).
Proof.
  intros Hk Hd. unfold cc_sparse. rewrite (vmapG_get VUndef _ _ _ _ cc_rows_shape); [|now rewrite sparse_lead|exact Hd].
  rewrite sparse_slice, <- (length_scalars_row k).
  rewrite (bpmG_on_grids_entry VUndef (ccv_point (rv ++ dst) dch cst cch uf) (fun a => conj eq_refl eq_refl) _ (gv dense) _ didx)
    by (now rewrite lengths_gv).
  unfold ccv_point. change (get VUndef (scalar ?x) []) with x.
  assert (Ea : (scalars (at_row sparse_cols k) ++ map (fun v => scalar v) (pick (gv dense) didx) ++ vecs (gv cch))%list
               = (map (fun v => scalar v) (sparse_prevals k didx) ++ map (fun g => vec g) (gv cch))%list).
  { unfold sparse_prevals, scalars, vecs, sparse_cols. rewrite (at_row_comb_cols (gv rv) combos k Hk (combo_length k Hk)).
    now rewrite map_app, <- app_assoc. }
  rewrite Ea.
  rewrite (U_table_at (rv ++ dst) dch cst cch uf _ (length_sparse_prevals k didx Hk Hd)),
          (F_table_at (rv ++ dst) dch cst cch uf _ (length_sparse_prevals k didx Hk Hd)).
  reflexivity.
Qed.

(* --- the reduction: maximum over the dense discrete choice axes, then over the rows of a segment --- *)
Variables (ids : list nat) (num : nat).
Definition V_sparse : arr val :=
  solve_discrete_problem_no_shocks cc_sparse (Some (seq (1 + length dst) (length dch))) (Some (mkSeg ids num)) tt.

Let mask := axis_mask (length (shape cc_sparse)) (seq (1 + length dst) (length dch)).

Lemma sparse_mask_is_block : mask = block_mask (1 + length dst) (length dch) (length cst).
Proof.
  unfold mask. rewrite (proj2 cc_sparse_shape). cbn [length]. unfold sizes, dense. rewrite map_length, !app_length.
  replace (S (length dst + (length dch + length cst))) with (1 + length dst + length dch + length cst) by lia.
  apply axis_mask_block.
Qed.

Lemma Lsz vars : length (sizes vars) = length vars.
Proof. unfold sizes. now rewrite map_length. Qed.

Lemma sparse_keep_shape : select_mask mask (shape cc_sparse) false = length combos :: (sizes dst ++ sizes cst)%list.
Proof.
  rewrite sparse_mask_is_block, (proj2 cc_sparse_shape). unfold dense. rewrite !sizes_app.
  pose proof (select_mask_block (length combos :: sizes dst) (sizes dch) (sizes cst) false) as E.
  cbn [length] in E. rewrite !Lsz in E. exact E.
Qed.
Lemma sparse_red_shape : select_mask mask (shape cc_sparse) true = sizes dch.
Proof.
  rewrite sparse_mask_is_block, (proj2 cc_sparse_shape). unfold dense. rewrite !sizes_app.
  pose proof (select_mask_block (length combos :: sizes dst) (sizes dch) (sizes cst) true) as E.
  cbn [length] in E. rewrite !Lsz in E. exact E.
Qed.

Lemma sparse_interleave row ds dc cs : in_bounds (sizes dst) ds -> in_bounds (sizes dch) dc -> in_bounds (sizes cst) cs ->
  interleave mask (row :: ds ++ cs) dc = (row :: ds ++ dc ++ cs)%list.
Proof.
  intros H1 H2 H3. rewrite sparse_mask_is_block.
  pose proof (interleave_block (row :: ds) dc cs) as E. cbn [length] in E.
  rewrite (in_bounds_length _ _ H1), (in_bounds_length _ _ H2), (in_bounds_length _ _ H3), !Lsz in E. exact E.
Qed.

Lemma V_sparse_entry s ds cs : s < num -> in_bounds (sizes dst) ds -> in_bounds (sizes cst) cs ->
  get VUndef V_sparse (s :: ds ++ cs)
  = vmaxl (map (fun row => if row <? length combos
                           then vmaxl (map (fun dc => get VUndef cc_sparse (row :: ds ++ dc ++ cs)) (indices (sizes dch)))
                           else VUndef)
               (rows_of_segment ids s)).
Proof.
  intros Hs Hds Hcs. unfold V_sparse, solve_discrete_problem_no_shocks, segment_max_val, segment_reduce, amax_axes. cbn [segment_ids num_segments].
  unfold reduce_axes at 1. fold mask. rewrite shape_tabulate, sparse_keep_shape. cbn [tl].
  rewrite get_tabulate by (cbn; split; [exact Hs|now apply in_bounds_concat]).
  unfold vmaxl. f_equal. apply map_ext. intros row.
  destruct (Nat.ltb_spec row (length combos)) as [Hr|Hr].
  - unfold reduce_axes. fold mask. rewrite get_tabulate by (rewrite sparse_keep_shape; cbn; split; [exact Hr|now apply in_bounds_concat]).
    rewrite sparse_red_shape. f_equal. apply map_ext_in. intros dc Hdc. apply in_indices in Hdc.
    now rewrite (sparse_interleave row ds dc cs Hds Hdc Hcs).
  - unfold reduce_axes. fold mask. unfold get at 1. rewrite shape_tabulate, sparse_keep_shape.
    cbn [tabulate data]. apply nth_overflow. rewrite map_length, length_indices. cbn [size ravel].
    assert (Hrav : ravel (sizes dst ++ sizes cst) (ds ++ cs) < size (sizes dst ++ sizes cst)) by (apply ravel_lt; now apply in_bounds_concat).
    nia.
Qed.
End SparsePeriod.

(* ---- the maximum of a list is not changed by -inf entries: sets compared up to -inf -------------------------------- *)
Lemma vmaxl_same_values_up_to_neginf l l' :
  (forall x, In x l -> x = VNegInf \/ exists y, In y l' /\ veq x y) ->
  (forall y, In y l' -> y = VNegInf \/ exists x, In x l /\ veq y x) ->
  veq (vmaxl l) (vmaxl l').
Proof.
  intros H1 H2.
  assert (E : forall k, vmaxl (VNegInf :: k) = vmaxl k) by (intros k; unfold vmaxl; cbn [fold_right]; apply vmax_neginf_l).
  rewrite <- (E l), <- (E l'). apply vmaxl_same_values.
  - intros x [<-|Hx]; [exists VNegInf; split; [now left|reflexivity]|].
    destruct (H1 x Hx) as [->|(y & Hy & Ey)]; [exists VNegInf; split; [now left|reflexivity]|exists y; split; [now right|exact Ey]].
  - intros y [<-|Hy]; [exists VNegInf; split; [now left|reflexivity]|].
    destruct (H2 y Hy) as [->|(x & Hx & Ex)]; [exists VNegInf; split; [now left|reflexivity]|exists x; split; [now right|exact Ex]].
Qed.

(* ---- the specification's value with the choices split into restricted / dense discrete / continuous ones ------------ *)
Lemma map_assignments_split (f : env -> val) (v1 : list (string * grid)) (V2 : list (string * list Q)) :
  map f (assignments (var_points v1 ++ V2))
  = flat_map (fun i1 => map (fun g2 => f (env_of_idx v1 i1 ++ g2)%list) (assignments V2)) (indices (sizes v1)).
Proof.
  rewrite assignments_app, map_flat_map', assignments_as_indices, flat_map_map. apply flat_map_ext''. intros i1.
  now rewrite map_map.
Qed.

Section SpecSide.
Variables (m : model) (p : params) (t : nat) (last : bool) (vnext : list nat -> val) (sigma : env).
Variables (rc dch cch : list (string * grid)).
Hypothesis Hperm : Permutation (rc ++ dch ++ cch) (choices m).
Hypothesis Hnd : NoDup (map fst (choices m)).

Definition cand3 (ci dc cidx : list nat) : val :=
  let e := (sigma ++ (env_of_idx rc ci ++ env_of_idx dch dc ++ env_of_idx cch cidx) ++ [(period_name, Qofnat t)])%list in
  if feasible m p e then objective m p last vnext e else VNegInf.

Let m3 := mkModel (n_periods m) (states m) (rc ++ dch ++ cch) (functions m).
Lemma same_functions_m3 : same_functions m m3.
Proof. constructor; try reflexivity; apply Permutation_refl. Qed.

Lemma value_at_three_groups :
  veq (value_at m p t last vnext sigma)
      (vmaxl (flat_map (fun ci => flat_map (fun dc => map (cand3 ci dc) (indices (sizes cch))) (indices (sizes dch)))
                       (indices (sizes rc)))).
Proof.
  assert (Hm3 : veq (value_at m3 p t last vnext sigma) (value_at m p t last vnext sigma)).
  { apply (value_at_choice_order m m3 p same_functions_m3); [now apply Permutation_sym|exact Hnd|intros; reflexivity]. }
  rewrite <- Hm3. unfold value_at. cbn [choices m3].
  rewrite var_points_app, map_assignments_split.
  replace (flat_map _ (indices (sizes rc)))
    with (flat_map (fun ci => flat_map (fun dc => map (cand3 ci dc) (indices (sizes cch))) (indices (sizes dch))) (indices (sizes rc)));
    [reflexivity|].
  apply flat_map_ext''. intros ci. rewrite var_points_app.
  rewrite map_assignments_split.
  apply flat_map_ext''. intros dc. rewrite assignments_as_indices, map_map. apply map_ext. intros cidx.
  unfold cand3. cbv zeta.
  rewrite (feasible_equiv m m3 p same_functions_m3), (objective_equiv m m3 p same_functions_m3). reflexivity.
Qed.
End SpecSide.

(* ---- THE PERIOD THEOREM WITH FILTER-RESTRICTED VARIABLES ------------------------------------------------------------------ *)
Section SparseTheorem.
Variables (m : model) (p : params) (t : nat) (last : bool) (vnext : list nat -> val).
Variables (rs rc dst dch cst cch : list (string * grid)).
Hypothesis Hperm : Permutation (rc ++ dch ++ cch) (choices m).
Hypothesis Hnd : NoDup (map fst (choices m)).
Variable uf : list Q -> val * bool.
Variables (combos : list (list nat)) (ids : list nat) (num : nat).
Hypothesis Hrv : (rs ++ rc)%list <> [].
Hypothesis Hcombos : Forall (in_bounds (sizes (rs ++ rc))) combos.
Hypothesis Hids : length ids = length combos.

(* the environment and the positional values of a point of the state-choice space *)
Definition sp_env (si ci ds dc cs cidx : list nat) : env :=
  ((env_of_idx rs si ++ env_of_idx dst ds ++ env_of_idx cst cs) ++
   (env_of_idx rc ci ++ env_of_idx dch dc ++ env_of_idx cch cidx) ++ [(period_name, Qofnat t)])%list.
Definition sp_vals (si ci ds dc cs cidx : list nat) : list Q :=
  ((pick (gv (rs ++ rc)) (si ++ ci) ++ pick (gv (dst ++ dch ++ cst)) (ds ++ dc ++ cs)) ++ map snd (env_of_idx cch cidx))%list.
Hypothesis Hpoint : forall si ci ds dc cs cidx,
  in_bounds (sizes rs) si -> in_bounds (sizes rc) ci -> in_bounds (sizes dst) ds -> in_bounds (sizes dch) dc ->
  in_bounds (sizes cst) cs -> in_bounds (sizes cch) cidx ->
  snd (uf (sp_vals si ci ds dc cs cidx)) = feasible m p (sp_env si ci ds dc cs cidx) /\
  (feasible m p (sp_env si ci ds dc cs cidx) = true ->
   veq (fst (uf (sp_vals si ci ds dc cs cidx))) (objective m p last vnext (sp_env si ci ds dc cs cidx))).

(* the stored combinations of segment s are the kept restricted-choice combinations of the s-th remaining restricted state;
   a dropped combination is inadmissible (a filter fails) *)
Variables (keep : list nat -> bool) (s : nat) (si : list nat).
Hypothesis Hs : s < num.
Hypothesis Hsi : in_bounds (sizes rs) si.
Hypothesis Hrows : forall row, In row (rows_of_segment ids s) ->
  exists ci, nth row combos [] = (si ++ ci)%list /\ in_bounds (sizes rc) ci.
Hypothesis Hstored : forall ci, in_bounds (sizes rc) ci -> keep (si ++ ci) = true ->
  exists row, In row (rows_of_segment ids s) /\ nth row combos [] = (si ++ ci)%list.
Hypothesis Hdropped : forall ci ds dc cs cidx,
  in_bounds (sizes rc) ci -> in_bounds (sizes dst) ds -> in_bounds (sizes dch) dc -> in_bounds (sizes cst) cs -> in_bounds (sizes cch) cidx ->
  keep (si ++ ci) = false -> feasible m p (sp_env si ci ds dc cs cidx) = false.

Section AtState.
Variables (ds cs : list nat).
Hypothesis Hds : in_bounds (sizes dst) ds.
Hypothesis Hcs : in_bounds (sizes cst) cs.

(* the candidate the code holds for (row, dc, cidx) *)
Definition code_cand (row : nat) (dc cidx : list nat) : val :=
  let vals := (sparse_prevals rs rc dst dch cst combos row (ds ++ dc ++ cs) ++ map snd (env_of_idx cch cidx))%list in
  if snd (uf vals) then fst (uf vals) else VNegInf.

Lemma V_sparse_as_candidates :
  veq (get VUndef (V_sparse rs rc dst dch cst cch uf combos ids num) (s :: ds ++ cs))
      (vmaxl (flat_map (fun row => flat_map (fun dc => map (code_cand row dc) (indices (sizes cch))) (indices (sizes dch)))
                       (rows_of_segment ids s))).
Proof.
  rewrite (V_sparse_entry rs rc dst dch cst cch uf combos Hrv Hcombos ids num s ds cs Hs Hds Hcs).
  rewrite vmaxl_flat_map. apply vmaxl_compat. apply Forall2_map_in. intros row Hrow.
  assert (Hr : row < length combos) by (apply in_rows in Hrow; lia).
  replace (row <? length combos) with true by (symmetry; now apply Nat.ltb_lt).
  rewrite vmaxl_flat_map. apply vmaxl_compat. apply Forall2_map_in. intros dc Hdc. apply in_indices in Hdc.
  rewrite (cc_sparse_entry rs rc dst dch cst cch uf combos Hrv Hcombos row (ds ++ dc ++ cs) Hr)
    by (rewrite !sizes_app; repeat apply in_bounds_concat; assumption).
  rewrite compute_ccv_of_tabulated. reflexivity.
Qed.

Lemma code_cand_is_spec_cand row ci dc cidx : nth row combos [] = (si ++ ci)%list -> in_bounds (sizes rc) ci ->
  in_bounds (sizes dch) dc -> in_bounds (sizes cch) cidx ->
  veq (code_cand row dc cidx)
      (cand3 m p t last vnext (env_of_idx rs si ++ env_of_idx dst ds ++ env_of_idx cst cs) rc dch cch ci dc cidx).
Proof.
  intros Er Hci Hdc Hc. unfold code_cand, cand3, sparse_prevals. cbv zeta. rewrite Er.
  fold (sp_vals si ci ds dc cs cidx). fold (sp_env si ci ds dc cs cidx).
  destruct (Hpoint si ci ds dc cs cidx Hsi Hci Hds Hdc Hcs Hc) as [Hf Ho]. rewrite Hf.
  destruct (feasible m p (sp_env si ci ds dc cs cidx)); [now apply Ho|reflexivity].
Qed.

Theorem sparse_entry_is_the_specifications_value :
  veq (get VUndef (V_sparse rs rc dst dch cst cch uf combos ids num) (s :: ds ++ cs))
      (value_at m p t last vnext (env_of_idx rs si ++ env_of_idx dst ds ++ env_of_idx cst cs)).
Proof.
  rewrite V_sparse_as_candidates.
  rewrite (value_at_three_groups m p t last vnext _ rc dch cch Hperm Hnd).
  apply vmaxl_same_values_up_to_neginf.
  - intros x Hx. right. apply in_flat_map in Hx. destruct Hx as (row & Hrow & Hx).
    apply in_flat_map in Hx. destruct Hx as (dc & Hdc & Hx). apply in_map_iff in Hx. destruct Hx as (cidx & <- & Hc).
    destruct (Hrows row Hrow) as (ci & Er & Hci).
    exists (cand3 m p t last vnext (env_of_idx rs si ++ env_of_idx dst ds ++ env_of_idx cst cs) rc dch cch ci dc cidx). split.
    + apply in_flat_map. exists ci. split; [now apply in_indices|]. apply in_flat_map. exists dc. split; [exact Hdc|].
      apply in_map_iff. now exists cidx.
    + apply in_indices in Hdc. apply in_indices in Hc. now apply code_cand_is_spec_cand.
  - intros y Hy. apply in_flat_map in Hy. destruct Hy as (ci & Hci & Hy). apply in_indices in Hci.
    apply in_flat_map in Hy. destruct Hy as (dc & Hdc & Hy). apply in_map_iff in Hy. destruct Hy as (cidx & <- & Hc).
    destruct (keep (si ++ ci)) eqn:Ek.
    + right. destruct (Hstored ci Hci Ek) as (row & Hrow & Er). exists (code_cand row dc cidx). split.
      * apply in_flat_map. exists row. split; [exact Hrow|]. apply in_flat_map. exists dc. split; [exact Hdc|].
        apply in_map_iff. now exists cidx.
      * apply in_indices in Hdc. apply in_indices in Hc. symmetry. now apply (code_cand_is_spec_cand row ci).
    + left. apply in_indices in Hdc. apply in_indices in Hc. unfold cand3. cbv zeta.
      fold (sp_env si ci ds dc cs cidx). now rewrite (Hdropped ci ds dc cs cidx Hci Hds Hdc Hcs Hc Ek).
Qed.
End AtState.
End SparseTheorem.

(* ---- the stored combinations and segments as create_state_choice_space builds them (C17's model) --------------------- *)
Lemma env_of_as_ienv : forall vars idx, NoDup (map fst vars) -> length idx = length vars ->
  env_of vars (as_ienv vars idx) = env_of_idx vars idx.
Proof.
  induction vars as [|[x g] r IH]; intros idx Hn Hl; destruct idx as [|k idx']; try discriminate; [reflexivity|].
  inversion Hn as [|? ? Hx Hn']; subst.
  change (env_of_idx ((x, g) :: r) (k :: idx')) with ((x, grid_point g k) :: env_of_idx r idx').
  rewrite <- (IH idx' Hn') by (simpl in Hl; lia). unfold env_of, as_ienv. cbn [map fst snd combine].
  f_equal.
  - unfold ilook. cbn [assoc]. now rewrite String.eqb_refl.
  - apply map_ext_in. intros [y h] Hy. cbn [fst snd].
    f_equal. f_equal. unfold ilook. cbn [assoc]. destruct (String.eqb_spec y x) as [->|Hne]; [|reflexivity].
    exfalso. apply Hx. apply in_map_iff. exists (x, h). auto.
Qed.

Lemma assoc_env_of_idx_notin a : forall vars idx, ~ In a (map fst vars) -> assoc a (env_of_idx vars idx) = None.
Proof.
  induction vars as [|[x g] r IH]; intros idx H; [reflexivity|]. destruct idx as [|k idx']; [reflexivity|].
  cbn [env_of_idx combine map fst snd assoc]. destruct (String.eqb_spec a x) as [->|Hne]; [exfalso; apply H; now left|].
  apply IH. intros Hin. apply H. now right.
Qed.

Lemma tagged_member (mask : arr bool) (n : nat) : forall states start j ci,
  j < length states -> In ci (passing mask n (nth j states [])) ->
  In (start + j, (nth j states [] ++ ci)%list) (tagged mask n start states).
Proof.
  induction states as [|st r IH]; intros start j ci Hj Hci; [simpl in Hj; lia|].
  unfold tagged. cbn [length seq combine flat_map fst snd]. apply in_or_app. destruct j as [|j'].
  - left. rewrite Nat.add_0_r. cbn [nth] in *. apply in_map_iff. now exists ci.
  - right. cbn [nth] in *. replace (start + S j') with (S start + j') by lia. apply (IH (S start) j' ci); [simpl in Hj; lia|exact Hci].
Qed.

Section WithTheStateSpaceModel.
Variables (m : model) (p : params) (t : nat).
Let rs := restricted_states m.
Let rc := restricted_choices m.
Hypothesis Hnodup : NoDup (map fst (rs ++ rc)).
Let mask := filter_mask m p t.
Let nrs := length rs.
Let res := create_indexers_and_segments mask nrs.
Let combos := true_positions mask.
Let ids := segment_ids_r res.
Let num := num_segments_r res.
Let fstates := feasible_states mask nrs.

Lemma mask_shape : shape mask = sizes (rs ++ rc).
Proof. reflexivity. Qed.

Lemma combos_in_bounds : Forall (in_bounds (sizes (rs ++ rc))) combos.
Proof. apply Forall_forall. intros idx H. apply (combinations_are_exactly_the_passing_ones mask idx) in H. now destruct H. Qed.

Lemma tagged_parts : map snd (tagged mask nrs 0 fstates) = combos /\ map fst (tagged mask nrs 0 fstates) = ids /\ num = length fstates.
Proof. exact (segments_are_the_ranks_of_the_state_parts mask nrs). Qed.

Lemma ids_length : length ids = length combos.
Proof. destruct tagged_parts as (A & B & _). now rewrite <- A, <- B, !map_length. Qed.

Lemma state_shape_sizes : state_shape_of mask nrs = sizes rs.
Proof. exact (state_shape_is m p t). Qed.
Lemma choice_shape_sizes : choice_shape_of mask nrs = sizes rc.
Proof. exact (choice_shape_is m p t). Qed.

Section AtSegment.
Variable s : nat.
Hypothesis Hs : s < num.
Let si := nth s fstates [].

Lemma si_in_bounds : in_bounds (sizes rs) si.
Proof.
  destruct tagged_parts as (_ & _ & En). assert (Hin : In si fstates) by (apply nth_In; lia).
  unfold fstates, feasible_states in Hin. apply filter_In in Hin. destruct Hin as [Hin _]. apply in_indices in Hin.
  now rewrite state_shape_sizes in Hin.
Qed.

Lemma nth_tagged row : row < length combos ->
  nth row (tagged mask nrs 0 fstates) (0, []) = (nth row ids 0, nth row combos []).
Proof.
  intros Hr. destruct tagged_parts as (A & B & _). rewrite <- A, <- B.
  rewrite (nth_indep (map fst _) 0 (fst (0, @nil nat))), (nth_indep (map snd _) [] (snd (0, @nil nat)));
    try (rewrite map_length; rewrite <- A, map_length in Hr; exact Hr).
  rewrite !map_nth. now destruct (nth row _ _).
Qed.

Lemma rows_are_kept row : In row (rows_of_segment ids s) ->
  exists ci, nth row combos [] = (si ++ ci)%list /\ in_bounds (sizes rc) ci.
Proof.
  intros Hrow. apply in_rows in Hrow. destruct Hrow as [Hr Es]. rewrite ids_length in Hr.
  assert (Hin : In (s, nth row combos []) (tagged mask nrs 0 fstates)).
  { rewrite <- Es, <- (nth_tagged row Hr). apply nth_In. destruct tagged_parts as (A & _ & _). rewrite <- A, map_length in Hr. exact Hr. }
  destruct (tagged_in mask nrs _ _ _ _ Hin) as (si' & ci & E & Hci & _ & Hn & _). rewrite Nat.sub_0_r in Hn.
  exists ci. split; [unfold si; now rewrite Hn|].
  unfold passing in Hci. apply filter_In in Hci. destruct Hci as [Hci _]. apply in_indices in Hci. now rewrite choice_shape_sizes in Hci.
Qed.

Lemma kept_are_rows ci : in_bounds (sizes rc) ci -> get false mask (si ++ ci) = true ->
  exists row, In row (rows_of_segment ids s) /\ nth row combos [] = (si ++ ci)%list.
Proof.
  intros Hci Hk. destruct tagged_parts as (A & B & En).
  assert (Hp : In ci (passing mask nrs (nth s fstates []))).
  { unfold passing. apply filter_In. split; [apply in_indices; now rewrite choice_shape_sizes|exact Hk]. }
  pose proof (tagged_member mask nrs fstates 0 s ci ltac:(lia) Hp) as Hin. cbn [Nat.add] in Hin.
  destruct (In_nth _ _ (0, []) Hin) as (row & Hr & Er).
  assert (Hr' : row < length combos) by (rewrite <- A, map_length; exact Hr).
  rewrite (nth_tagged row Hr') in Er. injection Er as E1 E2.
  exists row. split; [apply in_rows; split; [rewrite ids_length; exact Hr'|exact E1]|exact E2].
Qed.
End AtSegment.

(* a combination the filters reject is inadmissible at every completion with the free variables *)
Variables (dst dch cst cch : list (string * grid)).
Hypothesis Hfree : forall x, In x (map fst (dst ++ cst ++ dch ++ cch)) -> is_restricted m x = false.

Lemma nodup_parts' {A} (l1 l2 : list A) : NoDup (l1 ++ l2) -> NoDup l1 /\ NoDup l2.
Proof.
  induction l1 as [|a r IH]; intros H; [split; [constructor|exact H]|]. cbn [app] in H. inversion H as [|? ? Hn H']; subst.
  destruct (IH H') as [I1 I2]. split; [|exact I2]. constructor; [|exact I1]. intros Hin. apply Hn. apply in_or_app. now left.
Qed.
Lemma nodup_rs : NoDup (map fst rs).
Proof. pose proof Hnodup as H. rewrite map_app in H. now apply nodup_parts' in H. Qed.
Lemma nodup_rc : NoDup (map fst rc).
Proof. pose proof Hnodup as H. rewrite map_app in H. now apply nodup_parts' in H. Qed.

Lemma free_none a vars idx : is_restricted m a = true -> (forall x, In x (map fst vars) -> is_restricted m x = false) ->
  assoc a (env_of_idx vars idx) = None.
Proof.
  intros Ha Hv. apply assoc_env_of_idx_notin. intros Hin. rewrite (Hv a Hin) in Ha. discriminate.
Qed.

Lemma dropped_is_infeasible si ci ds dc cs cidx : in_bounds (sizes rs) si -> in_bounds (sizes rc) ci ->
  get false mask (si ++ ci) = false ->
  feasible m p (sp_env t rs rc dst dch cst cch si ci ds dc cs cidx) = false.
Proof.
  intros Hsi Hci Hk. unfold mask in Hk.
  rewrite (mask_entry m p t Hnodup si ci Hsi Hci) in Hk. fold rs rc in Hk.
  rewrite (env_of_as_ienv rs si nodup_rs), (env_of_as_ienv rc ci nodup_rc) in Hk;
    try (rewrite (in_bounds_length _ _ Hsi) || rewrite (in_bounds_length _ _ Hci); unfold sizes; now rewrite map_length).
  unfold passes in Hk. unfold feasible. apply andb_false_iff. left. rewrite <- Hk.
  assert (E : forall f, In f (filters m) ->
            holds m p (sp_env t rs rc dst dch cst cch si ci ds dc cs cidx) f
            = holds m p ((env_of_idx rs si ++ env_of_idx rc ci) ++ [(period_name, Qofnat t)]) f).
  { intros f Hf. apply (filter_holds_locally m p _ _ f Hf). intros a Ha. unfold sp_env. rewrite !assoc_app.
    assert (F : forall vars idx, (forall x, In x (map fst vars) -> In x (map fst (dst ++ cst ++ dch ++ cch))) -> assoc a (env_of_idx vars idx) = None).
    { intros vars idx Hsub. apply (free_none a vars idx Ha). intros x Hx. apply Hfree. now apply Hsub. }
    rewrite (F dst ds), (F cst cs), (F dch dc), (F cch cidx);
      [destruct (assoc a (env_of_idx rs si)); [reflexivity|]; destruct (assoc a (env_of_idx rc ci)); reflexivity| | | |];
      intros x Hx; rewrite !map_app; repeat (apply in_or_app; (now left) || right); try assumption. }
  clear Hk. induction (filters m) as [|f r IH]; [reflexivity|]. cbn [forallb]. rewrite (E f (or_introl eq_refl)), IH; [reflexivity|].
  intros g Hg. apply E. now right.
Qed.
End WithTheStateSpaceModel.

(* ---- assembled: the state-choice space of C17's model, the reduction of C18, the specification ----------------------- *)
Theorem period_with_filters_is_the_specifications :
  forall (m : model) (p : params) (t : nat) (last : bool) (vnext : list nat -> val) (dst dch cst cch : list (string * grid))
         (uf : list Q -> val * bool),
  let rs := restricted_states m in let rc := restricted_choices m in
  let mask := filter_mask m p t in let res := create_indexers_and_segments mask (length rs) in
  let combos := true_positions mask in let fstates := feasible_states mask (length rs) in
  Permutation (rc ++ dch ++ cch) (choices m) -> NoDup (map fst (choices m)) ->
  NoDup (map fst (rs ++ rc)) -> (rs ++ rc)%list <> [] ->
  (forall x, In x (map fst (dst ++ cst ++ dch ++ cch)) -> is_restricted m x = false) ->
  (forall si ci ds dc cs cidx,
     in_bounds (sizes rs) si -> in_bounds (sizes rc) ci -> in_bounds (sizes dst) ds -> in_bounds (sizes dch) dc ->
     in_bounds (sizes cst) cs -> in_bounds (sizes cch) cidx ->
     snd (uf (sp_vals rs rc dst dch cst cch si ci ds dc cs cidx)) = feasible m p (sp_env t rs rc dst dch cst cch si ci ds dc cs cidx) /\
     (feasible m p (sp_env t rs rc dst dch cst cch si ci ds dc cs cidx) = true ->
      veq (fst (uf (sp_vals rs rc dst dch cst cch si ci ds dc cs cidx)))
          (objective m p last vnext (sp_env t rs rc dst dch cst cch si ci ds dc cs cidx)))) ->
  forall s ds cs, s < num_segments_r res -> in_bounds (sizes dst) ds -> in_bounds (sizes cst) cs ->
  veq (get VUndef (V_sparse rs rc dst dch cst cch uf combos (segment_ids_r res) (num_segments_r res)) (s :: ds ++ cs))
      (value_at m p t last vnext (env_of_idx rs (nth s fstates []) ++ env_of_idx dst ds ++ env_of_idx cst cs)).
Proof.
  intros m p t last vnext dst dch cst cch uf rs rc mask res combos fstates Hperm Hnd Hnodup Hrv Hfree Hpoint s ds cs Hs Hds Hcs.
  apply (sparse_entry_is_the_specifications_value m p t last vnext rs rc dst dch cst cch Hperm Hnd uf combos
           (segment_ids_r res) (num_segments_r res) Hrv (combos_in_bounds m p t) (ids_length m p t) Hpoint
           (fun idx => get false mask idx) s (nth s fstates []) Hs (si_in_bounds m p t s Hs)).
  - exact (rows_are_kept m p t s).
  - exact (kept_are_rows m p t s Hs).
  - intros ci ds' dc cs' cidx Hci _ _ _ _ Hk. exact (dropped_is_infeasible m p t Hnodup dst dch cst cch Hfree _ ci ds' dc cs' cidx (si_in_bounds m p t s Hs) Hci Hk).
  - exact Hds.
  - exact Hcs.
Qed.

(* ---- with the regenerated u_and_f (restricted states: rank axis + state indexer) at every point --------------------- *)
From LCM Require Import Gen.ModelFunctions Proofs.C14_Refine Proofs.C14_OnLayoutIx.

Section SparseCodePoint.
Variables (m : model) (p : params) (t : nat) (F : list nat -> Q).
Variables (rs rc dst dch cst cch : list (string * grid)).
(* the next period's space: which restricted-state combinations remain there *)
Variables (isr : string -> bool) (remaining : list (list nat)).

(* positional values (rs, rc, dst, dch, cst, cch) bound to names: states first, then choices, then the period *)
Definition env_of_vals6 (vals : list Q) : env :=
  let v1 := firstn (length rs) vals in let r1 := skipn (length rs) vals in
  let v2 := firstn (length rc) r1 in let r2 := skipn (length rc) r1 in
  let v3 := firstn (length dst) r2 in let r3 := skipn (length dst) r2 in
  let v4 := firstn (length dch) r3 in let r4 := skipn (length dch) r3 in
  let v5 := firstn (length cst) r4 in let v6 := skipn (length cst) r4 in
  ((combine (map fst rs) v1 ++ combine (map fst dst) v3 ++ combine (map fst cst) v5) ++
   (combine (map fst rc) v2 ++ combine (map fst dch) v4 ++ combine (map fst cch) v6) ++ [(period_name, Qofnat t)])%list.

Lemma env_of_sp_vals si ci ds dc cs cidx :
  in_bounds (sizes rs) si -> in_bounds (sizes rc) ci -> in_bounds (sizes dst) ds -> in_bounds (sizes dch) dc ->
  in_bounds (sizes cst) cs -> in_bounds (sizes cch) cidx ->
  env_of_vals6 (sp_vals rs rc dst dch cst cch si ci ds dc cs cidx) = sp_env t rs rc dst dch cst cch si ci ds dc cs cidx.
Proof.
  intros H1 H2 H3 H4 H5 H6.
  assert (L : forall vars idx, in_bounds (sizes vars) idx -> length idx = length vars).
  { intros vars idx H. rewrite (in_bounds_length _ _ H). unfold sizes. now rewrite map_length. }
  assert (Lg : forall vars, length (gv vars) = length vars) by (intros; unfold gv; now rewrite map_length).
  assert (Le : forall vars idx, in_bounds (sizes vars) idx -> length (map snd (env_of_idx vars idx)) = length vars).
  { intros vars idx H. rewrite map_length. apply length_env_of_idx. now apply L. }
  unfold env_of_vals6, sp_vals, sp_env. cbv zeta.
  rewrite !gv_app.
  rewrite (pick_app (gv rs) (gv rc) si ci) by (rewrite Lg; symmetry; now apply L).
  rewrite (pick_app (gv dst) (gv dch ++ gv cst) ds (dc ++ cs)) by (rewrite Lg; symmetry; now apply L).
  rewrite (pick_app (gv dch) (gv cst) dc cs) by (rewrite Lg; symmetry; now apply L).
  rewrite !pick_gv by assumption. rewrite <- !app_assoc.
  destruct (firstn_skipn_app (map snd (env_of_idx rs si)) (map snd (env_of_idx rc ci) ++ map snd (env_of_idx dst ds) ++ map snd (env_of_idx dch dc) ++ map snd (env_of_idx cst cs) ++ map snd (env_of_idx cch cidx)) (length rs) (Le rs si H1)) as [E1 E2]. rewrite E1, E2.
  destruct (firstn_skipn_app (map snd (env_of_idx rc ci)) (map snd (env_of_idx dst ds) ++ map snd (env_of_idx dch dc) ++ map snd (env_of_idx cst cs) ++ map snd (env_of_idx cch cidx)) (length rc) (Le rc ci H2)) as [E3 E4]. rewrite E3, E4.
  destruct (firstn_skipn_app (map snd (env_of_idx dst ds)) (map snd (env_of_idx dch dc) ++ map snd (env_of_idx cst cs) ++ map snd (env_of_idx cch cidx)) (length dst) (Le dst ds H3)) as [E5 E6]. rewrite E5, E6.
  destruct (firstn_skipn_app (map snd (env_of_idx dch dc)) (map snd (env_of_idx cst cs) ++ map snd (env_of_idx cch cidx)) (length dch) (Le dch dc H4)) as [E7 E8]. rewrite E7, E8.
  destruct (firstn_skipn_app (map snd (env_of_idx cst cs)) (map snd (env_of_idx cch cidx)) (length cst) (Le cst cs H5)) as [E9 E10]. rewrite E9, E10.
  rewrite !combine_names_vals by (now apply L). reflexivity.
Qed.

(* the model evaluates at e, and every node's restricted-state combination remains in the next period's space *)
Definition evaluates_at_ix (e : env) : Prop :=
  evaluates_at m p F e /\
  (forall idx dl_all, in_bounds (map (fun sg : string * grid => grid_size (snd sg)) (stoch_states m)) idx ->
     disc_labels (states m) (node_vals (states m) (is_stochastic m) (det_of m p e) idx) = Some dl_all ->
     In (fst (split_labels isr (states m) dl_all)) remaining).

Definition uf_code_sparse (vals : list Q) : val * bool :=
  let e := env_of_vals6 vals in
  let cv := code_value m p (det_of m p e) (rows_of m p e) (u_of m p e) bool (feasible m p e) t []
                       (FR_ix isr remaining (states m) F) in
  (VFin (fst cv), snd cv).

Hypothesis Hnds : NoDup (map fst (states m)).
Hypothesis Hvalid : grids_valid (states m).

Lemma uf_code_sparse_at e : evaluates_at_ix e ->
  let cv := code_value m p (det_of m p e) (rows_of m p e) (u_of m p e) bool (feasible m p e) t []
                       (FR_ix isr remaining (states m) F) in
  snd cv = feasible m p e /\ veq (VFin (fst cv)) (objective m p false (fun idx => VFin (F idx)) e).
Proof.
  intros (((u & Hu) & Hdet & (rows & Hrows & Hlen) & Hread) & Hrem). cbv zeta.
  assert (Eu : u_of m p e = u) by (unfold u_of; now rewrite Hu).
  assert (Er : rows_of m p e = rows) by (unfold rows_of; now rewrite Hrows).
  assert (Hdet' : forall sg, In sg (states m) -> is_stochastic m (fst sg) = false -> next_det m p e (fst sg) = Some (det_of m p e (fst sg))).
  { intros sg Hin Hs. destruct (Hdet sg Hin Hs) as (q & Hq). unfold det_of. now rewrite Hq. }
  rewrite Eu, Er.
  destruct (one_bellman_step_with_restricted_states m p e F (det_of m p e) rows u bool (feasible m p e) t [] Hnds Hvalid Hu Hdet' Hrows Hlen Hread
              isr remaining Hrem) as (v & Hv & Ev & Ef).
  split; [exact Ef|]. rewrite Hv. cbn [veq]. exact Ev.
Qed.
End SparseCodePoint.

Definition uf_code_sparse_last (m : model) (p : params) (t : nat) (rs rc dst dch cst cch : list (string * grid)) (vals : list Q) : val * bool :=
  let e := env_of_vals6 t rs rc dst dch cst cch vals in
  let cv := u_and_f_last params bool (fun _ _ _ => (u_of m p e, feasible m p e)) [] [] t [] p in
  (VFin (fst cv), snd cv).

(* ---- ONE PERIOD OF THE CODE, WITH FILTER-RESTRICTED VARIABLES ------------------------------------------------------------ *)
Theorem period_of_the_code_with_filters_is_the_specifications :
  forall (m : model) (p : params) (t : nat) (F : list nat -> Q) (dst dch cst cch : list (string * grid))
         (isr : string -> bool) (remaining : list (list nat)),
  let rs := restricted_states m in let rc := restricted_choices m in
  let mask := filter_mask m p t in let res := create_indexers_and_segments mask (length rs) in
  let combos := true_positions mask in let fstates := feasible_states mask (length rs) in
  let uf := uf_code_sparse m p t F rs rc dst dch cst cch isr remaining in
  Permutation (rc ++ dch ++ cch) (choices m) -> NoDup (map fst (choices m)) ->
  NoDup (map fst (rs ++ rc)) -> (rs ++ rc)%list <> [] ->
  (forall x, In x (map fst (dst ++ cst ++ dch ++ cch)) -> is_restricted m x = false) ->
  NoDup (map fst (states m)) -> grids_valid (states m) ->
  (forall si ci ds dc cs cidx,
     in_bounds (sizes rs) si -> in_bounds (sizes rc) ci -> in_bounds (sizes dst) ds -> in_bounds (sizes dch) dc ->
     in_bounds (sizes cst) cs -> in_bounds (sizes cch) cidx ->
     evaluates_at_ix m p F isr remaining (sp_env t rs rc dst dch cst cch si ci ds dc cs cidx)) ->
  forall s ds cs, s < num_segments_r res -> in_bounds (sizes dst) ds -> in_bounds (sizes cst) cs ->
  veq (get VUndef (V_sparse rs rc dst dch cst cch uf combos (segment_ids_r res) (num_segments_r res)) (s :: ds ++ cs))
      (value_at m p t false (fun idx => VFin (F idx)) (env_of_idx rs (nth s fstates []) ++ env_of_idx dst ds ++ env_of_idx cst cs)).
Proof.
  intros m p t F dst dch cst cch isr remaining rs rc mask res combos fstates uf Hperm Hnd Hnodup Hrv Hfree Hnds Hvalid Heval.
  subst uf fstates combos res mask rc rs.
  apply (period_with_filters_is_the_specifications m p t false (fun idx => VFin (F idx)) dst dch cst cch _ Hperm Hnd Hnodup Hrv Hfree).
  intros si ci ds dc cs cidx H1 H2 H3 H4 H5 H6. unfold uf_code_sparse. cbv zeta.
  rewrite (env_of_sp_vals t _ _ dst dch cst cch si ci ds dc cs cidx H1 H2 H3 H4 H5 H6). cbn [fst snd].
  destruct (uf_code_sparse_at m p t F isr remaining Hnds Hvalid _ (Heval si ci ds dc cs cidx H1 H2 H3 H4 H5 H6)) as [Ef Ev]. cbv zeta in Ef, Ev.
  split; [exact Ef|]. intros _. exact Ev.
Qed.

Theorem last_period_of_the_code_with_filters_is_the_specifications :
  forall (m : model) (p : params) (t : nat) (vnext : list nat -> val) (dst dch cst cch : list (string * grid)),
  let rs := restricted_states m in let rc := restricted_choices m in
  let mask := filter_mask m p t in let res := create_indexers_and_segments mask (length rs) in
  let combos := true_positions mask in let fstates := feasible_states mask (length rs) in
  let uf := uf_code_sparse_last m p t rs rc dst dch cst cch in
  Permutation (rc ++ dch ++ cch) (choices m) -> NoDup (map fst (choices m)) ->
  NoDup (map fst (rs ++ rc)) -> (rs ++ rc)%list <> [] ->
  (forall x, In x (map fst (dst ++ cst ++ dch ++ cch)) -> is_restricted m x = false) ->
  (forall si ci ds dc cs cidx,
     in_bounds (sizes rs) si -> in_bounds (sizes rc) ci -> in_bounds (sizes dst) ds -> in_bounds (sizes dch) dc ->
     in_bounds (sizes cst) cs -> in_bounds (sizes cch) cidx ->
     exists u, eval_fun (depth m) m p (sp_env t rs rc dst dch cst cch si ci ds dc cs cidx) "utility" = Some u) ->
  forall s ds cs, s < num_segments_r res -> in_bounds (sizes dst) ds -> in_bounds (sizes cst) cs ->
  veq (get VUndef (V_sparse rs rc dst dch cst cch uf combos (segment_ids_r res) (num_segments_r res)) (s :: ds ++ cs))
      (value_at m p t true vnext (env_of_idx rs (nth s fstates []) ++ env_of_idx dst ds ++ env_of_idx cst cs)).
Proof.
  intros m p t vnext dst dch cst cch rs rc mask res combos fstates uf Hperm Hnd Hnodup Hrv Hfree Heval.
  subst uf fstates combos res mask rc rs.
  apply (period_with_filters_is_the_specifications m p t true vnext dst dch cst cch _ Hperm Hnd Hnodup Hrv Hfree).
  intros si ci ds dc cs cidx H1 H2 H3 H4 H5 H6. unfold uf_code_sparse_last, u_and_f_last. cbv zeta.
  rewrite (env_of_sp_vals t _ _ dst dch cst cch si ci ds dc cs cidx H1 H2 H3 H4 H5 H6). cbn [fst snd].
  split; [reflexivity|]. intros _. destruct (Heval si ci ds dc cs cidx H1 H2 H3 H4 H5 H6) as (u & Hu).
  unfold objective, u_of. rewrite Hu. reflexivity.
Qed.

(* ---- the choice axes as the code determines them: reducing over no axes is no reduction ------------------------------- *)
Definition sparse_choice_axes (dst dch : list (string * grid)) : option (list nat) :=
  match dch with [] => None | _ => Some (seq (1 + length dst) (length dch)) end.

Lemma amax_axes_nil (cc : arr val) : wf cc -> amax_axes cc [] = cc.
Proof. intros W. pose proof (amax_no_axes cc W) as E. unfold solve_discrete_problem_no_shocks in E. exact E. Qed.

Lemma V_sparse_with_the_codes_axes rs rc dst dch cst cch uf combos ids num :
  (rs ++ rc)%list <> [] -> Forall (in_bounds (sizes (rs ++ rc))) combos ->
  solve_discrete_problem_no_shocks (cc_sparse rs rc dst dch cst cch uf combos) (sparse_choice_axes dst dch) (Some (mkSeg ids num)) tt
  = V_sparse rs rc dst dch cst cch uf combos ids num.
Proof.
  intros Hrv Hc. unfold V_sparse. destruct dch as [|d r]; [|reflexivity]. cbn [sparse_choice_axes length seq].
  unfold solve_discrete_problem_no_shocks. rewrite amax_axes_nil; [reflexivity|].
  apply (cc_sparse_shape rs rc dst [] cst cch uf combos Hrv Hc).
Qed.

(* ---- a decision procedure for evaluates_at_ix ------------------------------------------------------------------------------ *)
Definition list_nat_eqb (a b : list nat) : bool := if list_eq_dec Nat.eq_dec a b then true else false.
Definition evaluates_at_ixb (m : model) (p : params) (F : list nat -> Q) (isr : string -> bool) (remaining : list (list nat)) (e : env) : bool :=
  evaluates_atb m p F e &&
  forallb (fun idx => match disc_labels (states m) (node_vals (states m) (is_stochastic m) (det_of m p e) idx) with
                      | Some dl_all => existsb (list_nat_eqb (fst (split_labels isr (states m) dl_all))) remaining
                      | None => true end)
          (indices (map (fun sg : string * grid => grid_size (snd sg)) (stoch_states m))).

Lemma evaluates_at_ixb_sound m p F isr remaining e : evaluates_at_ixb m p F isr remaining e = true -> evaluates_at_ix m p F isr remaining e.
Proof.
  unfold evaluates_at_ixb. intros H. apply andb_true_iff in H. destruct H as [H1 H2]. split; [now apply evaluates_atb_sound|].
  intros idx dl_all Hb Hd. rewrite forallb_forall in H2. specialize (H2 idx (proj2 (in_indices _ idx) Hb)). rewrite Hd in H2.
  apply existsb_exists in H2. destruct H2 as (x & Hx & E). unfold list_nat_eqb in E. destruct (list_eq_dec Nat.eq_dec _ x) as [->|]; [exact Hx|discriminate].
Qed.

(* Proofs/C18_Segment.v — segment_argmax (translated from lcm/argmax.py) returns, for every   *)
(* non-empty segment, the segment maximum and the largest row of the segment attaining it;     *)
(* and max over dense choice axes followed by segment max (Gen/DiscreteNoShocks.v) is the      *)
(* maximum over all discrete choices of a state.                                               *)
From LCM Require Import Base.Prelude Base.Arr Base.ArrOps Gen.Argmax Gen.DiscreteNoShocks.
From LCM Require Import Proofs.ArrLemmas Proofs.ArrLemmas2 Proofs.C18_Spec.
Local Open Scope nat_scope.

Lemma size_repeat1 k : size (repeat 1 k) = 1.
Proof. induction k; simpl; lia. Qed.

Lemma ravel_ones k : forall idx, ravel (repeat 1 k) (zip_with (fun s i => if s =? 1 then 0 else i) (repeat 1 k) idx) = 0.
Proof. induction k as [|k IH]; intros [|i js]; simpl; try reflexivity. rewrite IH. lia. Qed.

Lemma get_row_ids n rest row r : in_bounds (n :: rest) (row :: r) ->
  get 0 (broadcast_to 0 (reshape_col (arange n) (length rest)) (n :: rest)) (row :: r) = row.
Proof.
  intros Hb. unfold broadcast_to. rewrite get_tabulate by exact Hb.
  unfold bget, reshape_col, arange, vec. cbn [shape data reshape]. rewrite seq_length.
  cbn [zip_with]. rewrite get_reshape. cbn [ravel]. rewrite size_repeat1, ravel_ones.
  destruct Hb as [Hrow _]. destruct (Nat.eqb_spec n 1) as [->|_].
  - replace row with 0 by lia. reflexivity.
  - rewrite Nat.mul_1_r, Nat.add_0_r. cbn [data]. now rewrite seq_nth.
Qed.

Lemma fold_max_spec l : let m := fold_right Nat.max 0 l in
  (forall x, In x l -> x <= m) /\ (m = 0 \/ In m l).
Proof.
  induction l as [|x r IH]; simpl; [split; [tauto|now left]|].
  destruct IH as [Hub Hmem]. split.
  - intros y [<-|Hy]; [lia|]. specialize (Hub y Hy). lia.
  - destruct (Nat.max_spec x (fold_right Nat.max 0 r)) as [[_ E]|[_ E]]; rewrite E.
    + destruct Hmem as [E0|Hin]; [now left|right; now right].
    + right. now left.
Qed.

Lemma in_rows ids s row : In row (rows_of_segment ids s) <-> row < length ids /\ nth row ids 0 = s.
Proof.
  unfold rows_of_segment. rewrite filter_In, in_seq, Nat.eqb_eq. split; intros [H1 H2]; split; auto; lia.
Qed.

Section Seg.
Variables (dat : arr val) (ids : list nat) (num n : nat) (rest : list nat).
Hypothesis Hwf : wf dat.
Hypothesis Hdef : Forall defined (data dat).
Hypothesis Hshape : shape dat = n :: rest.
Hypothesis Hids : length ids = n.

Let res := segment_argmax dat ids num.
Definition rows (s : nat) : list nat := rows_of_segment ids s.
Definition seg_vals (s : nat) (r : list nat) : list val := map (fun row => get VUndef dat (row :: r)) (rows s).
Definition seg_max (s : nat) (r : list nat) : val := fold_right vmax VNegInf (seg_vals s r).

Lemma seg_get_max s r : s < num -> in_bounds rest r ->
  get VUndef (snd res) (s :: r) = seg_max s r.
Proof.
  intros Hs Hr. unfold res, segment_argmax. cbn [snd]. unfold segment_max_val, segment_reduce.
  rewrite Hshape. cbn [tl]. rewrite get_tabulate by (simpl; auto). reflexivity.
Qed.

Lemma row_in_bounds s r row : in_bounds rest r -> In row (rows s) -> in_bounds (shape dat) (row :: r).
Proof. intros Hr Hin. apply in_rows in Hin. rewrite Hshape. simpl. split; [lia|exact Hr]. Qed.

Lemma seg_vals_defined s r : in_bounds rest r -> Forall defined (seg_vals s r).
Proof.
  intros Hr. apply Forall_forall. intros x Hx. apply in_map_iff in Hx. destruct Hx as (row & <- & Hin).
  apply get_defined; auto. eapply row_in_bounds; eauto.
Qed.

(* the equality mask at (row, r), for a row of segment s *)
Lemma seg_get_mask s r row : s < num -> in_bounds rest r -> In row (rows s) ->
  get false (arr_eq dat (take_lead VUndef (segment_max_val dat ids num) ids)) (row :: r)
  = veqb_num (get VUndef dat (row :: r)) (seg_max s r).
Proof.
  intros Hs Hr Hin. pose proof (row_in_bounds s r row Hr Hin) as Hb.
  apply in_rows in Hin. destruct Hin as [Hrow Hsid].
  unfold arr_eq, amap2_bcast.
  assert (Es : shape (take_lead VUndef (segment_max_val dat ids num) ids) = shape dat).
  { unfold take_lead, segment_max_val, segment_reduce. cbn [shape tabulate tl]. now rewrite Hshape, Hids. }
  rewrite Es, bshape_same. rewrite get_tabulate by exact Hb.
  rewrite bget_same by exact Hb. rewrite bget_same by (rewrite Es; exact Hb).
  f_equal. unfold take_lead. rewrite Hshape in Hb.
  rewrite get_tabulate.
  2:{ unfold segment_max_val, segment_reduce. cbn [shape tabulate tl]. rewrite Hshape, Hids. exact Hb. }
  rewrite Hsid. unfold segment_max_val, segment_reduce. rewrite Hshape. cbn [tl].
  rewrite get_tabulate by (simpl; auto). reflexivity.
Qed.

Definition seg_attains s r row : bool := veqb_num (get VUndef dat (row :: r)) (seg_max s r).

Lemma seg_get_pos s r : s < num -> in_bounds rest r ->
  get 0 (fst res) (s :: r)
  = fold_right Nat.max 0 (map (fun row => if seg_attains s r row then row else 0) (rows s)).
Proof.
  intros Hs Hr. unfold res, segment_argmax. cbn [fst]. unfold segment_max_nat, segment_reduce.
  assert (Esh : shape (arr_mask_mul (arr_eq dat (take_lead VUndef (segment_max_val dat ids num) ids))
                  (broadcast_to 0 (reshape_col (arange (nth 0 (shape dat) 0)) (length (shape dat) - 1)) (shape dat)))
                = shape dat).
  { unfold arr_mask_mul. rewrite shape_amap2_bcast. unfold broadcast_to at 1. cbn [shape tabulate].
    unfold arr_eq. rewrite shape_amap2_bcast.
    assert (Es : shape (take_lead VUndef (segment_max_val dat ids num) ids) = shape dat).
    { unfold take_lead, segment_max_val, segment_reduce. cbn [shape tabulate tl]. now rewrite Hshape, Hids. }
    now rewrite Es, !bshape_same. }
  rewrite Esh, Hshape. cbn [tl]. rewrite get_tabulate by (simpl; auto).
  f_equal. apply map_ext_in. intros row Hin. fold (rows s) in Hin.
  pose proof (row_in_bounds s r row Hr Hin) as Hb.
  unfold arr_mask_mul, amap2_bcast.
  change (shape (broadcast_to 0 (reshape_col (arange (nth 0 (n :: rest) 0)) (length (n :: rest) - 1)) (n :: rest)))
    with (n :: rest).
  assert (Ee : shape (arr_eq dat (take_lead VUndef (segment_max_val dat ids num) ids)) = n :: rest).
  { unfold arr_eq. rewrite shape_amap2_bcast.
    assert (Es : shape (take_lead VUndef (segment_max_val dat ids num) ids) = shape dat).
    { unfold take_lead, segment_max_val, segment_reduce. cbn [shape tabulate tl]. now rewrite Hshape, Hids. }
    now rewrite Es, bshape_same. }
  rewrite Ee, bshape_same. rewrite Hshape in Hb. rewrite get_tabulate by exact Hb.
  rewrite bget_same by (rewrite Ee; exact Hb).
  rewrite bget_same by exact Hb.
  rewrite (seg_get_mask s r row Hs Hr Hin).
  cbn [nth length]. replace (S (length rest) - 1) with (length rest) by lia.
  rewrite get_row_ids by exact Hb. reflexivity.
Qed.

Theorem segment_argmax_spec s r : s < num -> in_bounds rest r -> rows s <> [] ->
  let M := get VUndef (snd res) (s :: r) in
  let p := get 0 (fst res) (s :: r) in
  M = seg_max s r /\
  (forall row, In row (rows s) -> vle (get VUndef dat (row :: r)) M) /\
  In p (rows s) /\ veqb_num (get VUndef dat (p :: r)) M = true /\
  (forall row, In row (rows s) -> veqb_num (get VUndef dat (row :: r)) M = true -> row <= p).
Proof.
  intros Hs Hr Hne M p.
  assert (EM : M = seg_max s r) by (apply seg_get_max; auto).
  assert (Hdn : defined VNegInf) by discriminate.
  destruct (@fold_vmax_spec VNegInf _ Hdn (seg_vals_defined s r Hr)) as (HdM & _ & Hub & Hmem).
  fold (seg_max s r) in HdM, Hub, Hmem. rewrite <- EM in *.
  split; [reflexivity|]. split.
  { intros row Hin. apply Hub. unfold seg_vals. apply in_map_iff. eauto. }
  (* some row attains M *)
  assert (Hex : exists row0, In row0 (rows s) /\ veqb_num (get VUndef dat (row0 :: r)) M = true).
  { destruct Hmem as [E|Hin].
    - destruct (rows s) as [|row0 rr] eqn:Er; [congruence|]. exists row0. split; [now left|].
      assert (Hv : get VUndef dat (row0 :: r) = VNegInf).
      { apply vle_neginf.
        - apply get_defined; auto. apply (row_in_bounds s r row0 Hr). rewrite Er. now left.
        - rewrite <- E. apply Hub. unfold seg_vals. rewrite Er. now left. }
      rewrite Hv, E. reflexivity.
    - unfold seg_vals in Hin. apply in_map_iff in Hin. destruct Hin as (row0 & E & Hin).
      exists row0. split; [exact Hin|]. rewrite E. now apply veqb_num_refl. }
  assert (Ep : p = fold_right Nat.max 0 (map (fun row => if seg_attains s r row then row else 0) (rows s))).
  { apply seg_get_pos; auto. }
  destruct (fold_max_spec (map (fun row => if seg_attains s r row then row else 0) (rows s))) as [Pub Pmem].
  rewrite <- Ep in Pub, Pmem.
  assert (Hge : forall row, In row (rows s) -> veqb_num (get VUndef dat (row :: r)) M = true -> row <= p).
  { intros row Hin Hat. apply Pub. apply in_map_iff. exists row. split; [|exact Hin].
    unfold seg_attains. rewrite <- EM, Hat. reflexivity. }
  destruct Hex as (row0 & Hin0 & Hat0).
  assert (Hp : In p (rows s) /\ veqb_num (get VUndef dat (p :: r)) M = true).
  { destruct Pmem as [E0|Hin].
    - assert (row0 = 0) by (specialize (Hge row0 Hin0 Hat0); lia). subst row0. rewrite E0. tauto.
    - apply in_map_iff in Hin. destruct Hin as (row' & E & Hin').
      unfold seg_attains in E. rewrite <- EM in E.
      destruct (veqb_num (get VUndef dat (row' :: r)) M) eqn:Hat'.
      + subst row'. tauto.
      + assert (row0 = 0) by (specialize (Hge row0 Hin0 Hat0); lia). subst row0. rewrite <- E. tauto. }
  tauto.
Qed.
End Seg.

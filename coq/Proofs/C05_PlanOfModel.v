(* Proofs/C05_PlanOfModel.v — what the regenerated glue of create_state_choice_space (Gen/StateSpaceGlue.v) plans for the  *)
(* variable_info of a model: which variables are product-mapped (dense), which are stored as combinations (sparse), and the   *)
(* axes of the value array -- the layout the period theorems of C01 assume.                                                   *)
From LCM Require Import Base.Prelude Gen.ChoiceAxes Gen.StateSpaceGlue Spec.Lang Proofs.C18_VarInfo.
Local Open Scope nat_scope.

Lemma existsb_map_const {A} (f : A -> varinfo) (P : varinfo -> bool) l : (forall x, P (f x) = false) -> existsb P (map f l) = false.
Proof. intros H. induction l as [|x r IH]; [reflexivity|]. cbn [map existsb]. now rewrite H, IH. Qed.

Lemma names_of st cont l : map vname (map (vinfo st cont) l) = map fst l.
Proof. now rewrite map_map. Qed.
Lemma names_of_sparse st l : map vname (map (vinfo_sparse st) l) = map fst l.
Proof. now rewrite map_map. Qed.

Ltac filter_groups :=
  repeat rewrite filter_app; repeat rewrite map_app;
  repeat (first [ rewrite (filter_map_const (vinfo true false) _ true) by reflexivity
                | rewrite (filter_map_const (vinfo true false) _ false) by reflexivity
                | rewrite (filter_map_const (vinfo false false) _ true) by reflexivity
                | rewrite (filter_map_const (vinfo false false) _ false) by reflexivity
                | rewrite (filter_map_const (vinfo true true) _ true) by reflexivity
                | rewrite (filter_map_const (vinfo true true) _ false) by reflexivity
                | rewrite (filter_map_const (vinfo false true) _ true) by reflexivity
                | rewrite (filter_map_const (vinfo false true) _ false) by reflexivity
                | rewrite (filter_map_const (vinfo_sparse true) _ true) by reflexivity
                | rewrite (filter_map_const (vinfo_sparse true) _ false) by reflexivity
                | rewrite (filter_map_const (vinfo_sparse false) _ true) by reflexivity
                | rewrite (filter_map_const (vinfo_sparse false) _ false) by reflexivity ]).

(* without filter-restricted variables: everything dense; axes = discrete states then continuous states; no indexer *)
Theorem plan_of_a_model_without_filters (dst dch cst cch : list (string * grid)) (period : nat) (is_last : bool) :
  create_state_choice_space_plan (vi_of dst dch cst cch) period is_last
  = mkPlan (map fst dst ++ map fst dch ++ map fst cst) None None period None false
           (map fst dst ++ map fst cst) (map fst dst) (map fst cst) None.
Proof.
  unfold create_state_choice_space_plan.
  assert (Ea : filter (fun v => negb (is_auxiliary v)) (vi_of dst dch cst cch) = vi_of dst dch cst cch).
  { unfold vi_of. filter_groups. reflexivity. }
  replace (if is_last then filter (fun v => negb (is_auxiliary v)) (vi_of dst dch cst cch) else vi_of dst dch cst cch)
    with (vi_of dst dch cst cch) by (destruct is_last; [now rewrite Ea|reflexivity]).
  assert (E1 : existsb (fun v => is_sparse v && is_state v) (vi_of dst dch cst cch) = false).
  { unfold vi_of. rewrite !existsb_app, !existsb_map_const; reflexivity. }
  assert (E2 : existsb is_sparse (vi_of dst dch cst cch) = false).
  { unfold vi_of. rewrite !existsb_app, !existsb_map_const; reflexivity. }
  rewrite E1, E2. unfold vi_of. filter_groups. cbn [map app]. rewrite ?app_nil_r, !names_of. reflexivity.
Qed.

(* with filter-restricted variables: the restricted states and choices are stored as combinations (states first), the rest
   is dense; the value array has the leading axis "state_index" iff there is a restricted state, which the indexer maps from
   the restricted states' labels *)
Theorem plan_of_a_model_with_filters (rs rc dst dch cst cch : list (string * grid)) (period : nat) (is_last : bool) :
  (rs ++ rc)%list <> [] ->
  create_state_choice_space_plan (vi_sparse rs rc dst dch cst cch) period is_last
  = mkPlan (map fst dst ++ map fst dch ++ map fst cst) (Some (map fst rs ++ map fst rc)) (Some (map fst rs ++ map fst rc)) period
           (Some (length rs)) (match rs with [] => false | _ => true end)
           (match rs with [] => map fst dst ++ map fst cst | _ => "state_index"%string :: map fst dst ++ map fst cst end)
           (map fst rs ++ map fst dst) (map fst cst)
           (match rs with [] => None | _ => Some (map fst rs) end).
Proof.
  intros Hrv. unfold create_state_choice_space_plan.
  assert (Ea : filter (fun v => negb (is_auxiliary v)) (vi_sparse rs rc dst dch cst cch) = vi_sparse rs rc dst dch cst cch).
  { unfold vi_sparse, vi_of. filter_groups. reflexivity. }
  replace (if is_last then filter (fun v => negb (is_auxiliary v)) (vi_sparse rs rc dst dch cst cch) else vi_sparse rs rc dst dch cst cch)
    with (vi_sparse rs rc dst dch cst cch) by (destruct is_last; [now rewrite Ea|reflexivity]).
  assert (E1 : existsb (fun v => is_sparse v && is_state v) (vi_sparse rs rc dst dch cst cch) = match rs with [] => false | _ => true end).
  { unfold vi_sparse, vi_of. rewrite !existsb_app. rewrite (existsb_map_const (vinfo_sparse false)), !(existsb_map_const (vinfo _ _)) by reflexivity.
    destruct rs; reflexivity. }
  assert (E2 : existsb is_sparse (vi_sparse rs rc dst dch cst cch) = true).
  { unfold vi_sparse. rewrite !existsb_app. destruct rs as [|x r]; [|reflexivity]. destruct rc as [|y r']; [now contradiction Hrv|reflexivity]. }
  rewrite E1, E2. unfold vi_sparse, vi_of. filter_groups. cbn [map app]. rewrite ?app_nil_r, !names_of, !names_of_sparse, !map_length.
  destruct rs; reflexivity.
Qed.

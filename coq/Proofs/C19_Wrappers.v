(* Proofs/C19_Wrappers.v — the keyword/positional wrappers of Model/Functools.v reject calls  *)
(* with missing or unexpected arguments.                                                       *)
From LCM Require Import Base.Prelude Model.Functools.
Local Open Scope string_scope.

Section W.
Variable V : Type.
Variable s : sig.
Variable f : list V -> kwargs V -> pres (binding V).

Lemma subset_spec a b : subset a b = true <-> (forall x, In x a -> In x b).
Proof.
  unfold subset. rewrite forallb_forall. split; intros H x Hx; specialize (H x Hx).
  - unfold mem_str in H. apply existsb_exists in H. destruct H as (y & Hy & E).
    apply String.eqb_eq in E. now subst.
  - unfold mem_str. apply existsb_exists. exists x. split; [exact H|apply String.eqb_refl].
Qed.

(* allow_only_kwargs: any positional argument, any unknown keyword, any missing parameter *)
Theorem aok_rejects_positional (a : V) (args : list V) (kw : kwargs V) : allow_only_kwargs s f (a :: args) kw = PErr ValueError.
Proof. reflexivity. Qed.

Theorem aok_rejects_unexpected (kw : kwargs V) k :
  In k (map fst kw) -> ~ In k (names s) -> allow_only_kwargs s f [] kw = PErr ValueError.
Proof.
  intros Hin Hn. unfold allow_only_kwargs.
  assert (E : subset (map fst kw) (names s) = false).
  { apply not_true_is_false. intro E. pose proof (proj1 (subset_spec _ _) E) as E2. auto. }
  now rewrite E.
Qed.

Theorem aok_rejects_missing (kw : kwargs V) p :
  In p (names s) -> ~ In p (map fst kw) -> allow_only_kwargs s f [] kw = PErr ValueError.
Proof.
  intros Hin Hn. unfold allow_only_kwargs.
  destruct (subset (map fst kw) (names s)); [|reflexivity]. simpl.
  assert (E : subset (names s) (map fst kw) = false).
  { apply not_true_is_false. intro E. pose proof (proj1 (subset_spec _ _) E) as E2. auto. }
  now rewrite E.
Qed.

(* allow_args: wrong count; a keyword that is not one of the parameters left unfilled by the
   positional arguments (unknown, or naming a positionally filled parameter); a missing one *)
Theorem aa_rejects_count (args : list V) (kw : kwargs V) :
  (length args + length kw <> length (names s))%nat -> allow_args s f args kw = PErr ValueError.
Proof.
  intros H. unfold allow_args. apply Nat.eqb_neq in H. now rewrite H.
Qed.

Theorem aa_rejects_unexpected (args : list V) (kw : kwargs V) k :
  In k (map fst kw) -> ~ In k (skipn (length args) (names s)) ->
  allow_args s f args kw = PErr ValueError.
Proof.
  intros Hin Hn. unfold allow_args.
  destruct (Nat.eqb (length args + length kw) (length (names s))); [|reflexivity]. simpl.
  assert (E : same_set (map fst kw) (skipn (length args) (names s)) = false).
  { unfold same_set. apply andb_false_iff. left.
    apply not_true_is_false. intro E. pose proof (proj1 (subset_spec _ _) E) as E2. auto. }
  now rewrite E.
Qed.

Theorem aa_rejects_missing (args : list V) (kw : kwargs V) p :
  In p (skipn (length args) (names s)) -> ~ In p (map fst kw) ->
  allow_args s f args kw = PErr ValueError.
Proof.
  intros Hin Hn. unfold allow_args.
  destruct (Nat.eqb (length args + length kw) (length (names s))); [|reflexivity]. simpl.
  assert (E : same_set (map fst kw) (skipn (length args) (names s)) = false).
  { unfold same_set. apply andb_false_iff. right.
    apply not_true_is_false. intro E. pose proof (proj1 (subset_spec _ _) E) as E2. auto. }
  now rewrite E.
Qed.
End W.

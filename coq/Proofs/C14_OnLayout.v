(* Proofs/C14_OnLayout.v — capstone of the function-representation refinement: applied to THE array   *)
(* that stores a finite table in the documented layout (discrete states first, then continuous states,   *)
(* each group in declaration order; models without filter-restricted states), the function               *)
(* representation returns the value the specification's read returns.                                    *)
From Coq Require Import Lqa Lia.
From LCM Require Import Base.Prelude Base.Arr Base.QKernel Model.Ndimage Model.FunctionRepresentation.
From LCM Require Import Spec.Interp Spec.Lang Spec.Bellman Proofs.ArrLemmas Proofs.ArrLemmas2 Proofs.C14_FunRep Proofs.C14_Refine.
Local Open Scope Q_scope.

Fixpoint dsizes (sts : list (string * grid)) : list nat :=
  match sts with
  | [] => []
  | (_, GDisc n) :: r => n :: dsizes r
  | (_, GLin _ _ _) :: r => dsizes r
  end.

(* the array that stores the table F (indexed in declaration order) in the documented layout *)
Definition layout_array (sts : list (string * grid)) (F : list nat -> Q) : arr Q :=
  tabulate (dsizes sts ++ cont_sizes sts)
           (fun idx => F (merge sts (firstn (length (dsizes sts)) idx) (skipn (length (dsizes sts)) idx))).

Lemma disc_labels_bounds : forall sts vals dl, disc_labels sts vals = Some dl ->
  Forall2 (fun n k => (k < n)%nat) (dsizes sts) dl.
Proof.
  induction sts as [|[x g] r IH]; intros vals dl H.
  - destruct vals; [|discriminate]. cbn in H. injection H as <-. constructor.
  - destruct g as [n|a b n]; destruct vals as [|v vs]; try discriminate; cbn [disc_labels dsizes] in *.
    + destruct (is_label v n) as [k|] eqn:Ek; [|discriminate]. cbn [obind] in H.
      destruct (disc_labels r vs) as [l|] eqn:El; [|discriminate]. cbn [obind] in H. injection H as <-.
      constructor; [|now apply (IH vs)].
      unfold is_label in Ek. destruct (Qeqb _ v && (0 <=? Qfloor v)%Z && (Qfloor v <? Z.of_nat n)%Z) eqn:E; [|discriminate].
      injection Ek as <-. apply andb_true_iff in E. destruct E as [E1 E3]. apply andb_true_iff in E1. destruct E1 as [_ E2].
      apply Z.leb_le in E2. apply Z.ltb_lt in E3. lia.
    + now apply (IH vs).
Qed.

Lemma in_bounds_app_F2 : forall s1 i1 s2 i2, Forall2 (fun n k => (k < n)%nat) s1 i1 -> in_bounds s2 i2 -> in_bounds (s1 ++ s2) (i1 ++ i2).
Proof. induction 1 as [|n k s1 i1 H _ IH]; intros H2; [exact H2|]. cbn [app in_bounds]. split; [exact H|now apply IH]. Qed.

Lemma firstn_app_exact {A} (l1 l2 : list A) n : length l1 = n -> firstn n (l1 ++ l2) = l1.
Proof. intros <-. rewrite firstn_app, Nat.sub_diag, firstn_all. cbn [firstn]. now rewrite app_nil_r. Qed.
Lemma skipn_app_exact {A} (l1 l2 : list A) n : length l1 = n -> skipn n (l1 ++ l2) = l2.
Proof. intros <-. rewrite skipn_app, Nat.sub_diag, skipn_all. reflexivity. Qed.

Lemma Forall2_len {A B} (R : A -> B -> Prop) l1 l2 : Forall2 R l1 l2 -> length l1 = length l2.
Proof. induction 1; simpl; congruence. Qed.

Section OnLayout.
Variables (sts : list (string * grid)) (F : list nat -> Q) (vals : list Q) (q : Q) (dl : list nat).
Hypothesis Hvalid : grids_valid sts.
Hypothesis Hlen : length vals = length sts.
Hypothesis Hq : qread sts F vals = Some q.
Hypothesis Hd : disc_labels sts vals = Some dl.

Let vf := layout_array sts F.
Let labels := map Z.of_nat dl.

Lemma dl_length : length dl = length (dsizes sts).
Proof. symmetry. exact (Forall2_len _ _ _ (disc_labels_bounds sts vals dl Hd)). Qed.

Lemma positions_are_labels : positions vf None [] labels = dl.
Proof.
  unfold positions, state_index. cbn [app]. rewrite positions_of_valid_labels.
  - unfold labels. rewrite map_map. rewrite <- (map_id dl) at 2. apply map_ext. intros k. apply Nat2Z.id.
  - unfold vf, layout_array. rewrite shape_tabulate. unfold labels. rewrite map_length, dl_length.
    rewrite firstn_app_exact by reflexivity.
    pose proof (disc_labels_bounds sts vals dl Hd) as B. clear -B. induction B as [|n k s l H _ IH]; [constructor|].
    cbn [map]. constructor; [lia|exact IH].
Qed.

Lemma cont_shape_is_cont_sizes : cont_shape vf None [] labels = cont_sizes sts.
Proof.
  unfold cont_shape. rewrite positions_are_labels. unfold vf, layout_array. rewrite shape_tabulate.
  apply skipn_app_exact. symmetry. apply dl_length.
Qed.

Lemma layout_holds cidx : in_bounds (cont_sizes sts) cidx ->
  get 0 vf (positions vf None [] labels ++ cidx) == F (merge sts dl cidx).
Proof.
  intros Hc. rewrite positions_are_labels. unfold vf, layout_array. rewrite get_tabulate.
  - rewrite firstn_app_exact, skipn_app_exact by (apply dl_length). reflexivity.
  - apply in_bounds_app_F2; [exact (disc_labels_bounds sts vals dl Hd)|exact Hc].
Qed.

Theorem function_representation_on_the_layout_array :
  vread sts (fun idx => VFin (F idx)) vals = VFin q /\
  function_representation vf None [] labels (conts_of sts vals) == q.
Proof.
  split; [rewrite vread_finite; now rewrite Hq|].
  destruct (conts_of sts vals) as [|c0 cr] eqn:Ec.
  - (* no continuous state *)
    assert (Hcs : cont_sizes sts = []).
    { pose proof (length_conts_of sts vals Hlen) as L. rewrite Ec in L. destruct (cont_sizes sts); [reflexivity|discriminate]. }
    rewrite <- Ec. apply (function_representation_discrete_only sts F vals q dl vf None [] labels Hq Hd Hcs).
    + rewrite cont_shape_is_cont_sizes. exact Hcs.
    + rewrite <- (app_nil_r (positions vf None [] labels)). apply layout_holds. rewrite Hcs. exact I.
  - rewrite <- Ec.
    apply (function_representation_is_spec_read sts F vals q dl vf None [] labels Hvalid Hlen Hq Hd).
    + rewrite Ec. discriminate.
    + apply cont_shape_is_cont_sizes.
    + apply layout_holds.
Qed.
End OnLayout.

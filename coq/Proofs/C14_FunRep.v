(* Proofs/C14_FunRep.v — the function representation returns the stored entry selected by the *)
(* discrete labels (through the indexer for restricted states), multilinearly interpolated in   *)
(* the continuous variables.                                                                    *)
From Coq Require Import Lqa.
From LCM Require Import Base.Prelude Base.Arr Base.QKernel Gen.GridHelpersQ Gen.NdimageKernel.
From LCM Require Import Spec.Interp Model.Ndimage Model.FunctionRepresentation.
From LCM Require Import Proofs.ArrLemmas Proofs.ArrLemmas2 Proofs.QLemmas Proofs.C15_Interp Proofs.C15_Lin Proofs.C15_Nodes.
Local Open Scope Q_scope.

Lemma jax_index_in_range n (i : Z) : (0 <= i < Z.of_nat n)%Z -> jax_index n i = Z.to_nat i.
Proof.
  intros H. unfold jax_index, Zclip. destruct (Z.ltb_spec i 0); [lia|]. f_equal. lia.
Qed.

Lemma jax_positions_in_range : forall sh idx,
  Forall2 (fun n i => (0 <= i < Z.of_nat n)%Z) (firstn (length idx) sh) idx ->
  jax_positions sh idx = map Z.to_nat idx.
Proof.
  induction sh as [|n r IH]; intros idx H.
  - destruct idx; [reflexivity|]. simpl in H. inversion H.
  - destruct idx as [|i js]; [reflexivity|]. simpl in H. inversion H; subst. simpl.
    rewrite jax_index_in_range by assumption. f_equal. now apply IH.
Qed.

Lemma in_bounds_firstn_skipn sh : forall pre idx,
  in_bounds (firstn (length pre) sh) pre -> in_bounds (skipn (length pre) sh) idx ->
  in_bounds sh (pre ++ idx).
Proof.
  induction sh as [|n r IH]; intros [|i js] idx H1 H2; simpl in *; try tauto.
  destruct H1 as [Hi Hjs]. split; [exact Hi|]. now apply IH.
Qed.

Lemma get_subarr {A} (d : A) (a : arr A) pre idx :
  in_bounds (skipn (length pre) (shape a)) idx -> get d (subarr d a pre) idx = get d a (pre ++ idx).
Proof. intros H. unfold subarr. now rewrite get_tabulate. Qed.

Section FunRep.
Variables (vf : arr Q) (indexer : option (arr Z)) (rlabels dlabels : list Z) (conts : list cont_axis).

(* the discrete positions selected by the labels *)
Definition state_index : list Z :=
  match indexer with
  | Some ix => [get (-1)%Z (jax_lookup (-1)%Z ix rlabels) []]
  | None => [] end.
Definition positions : list nat := jax_positions (shape vf) (state_index ++ dlabels).
Definition cont_shape : list nat := skipn (length positions) (shape vf).
Definition coords : list Q :=
  map (fun c => get_linspace_coordinate (c_value c) (c_start c) (c_stop c) (Z.of_nat (c_n c))) conts.

Definition selected : arr Q := jax_lookup 0 vf (state_index ++ dlabels).

Lemma selected_shape : shape selected = cont_shape.
Proof. reflexivity. Qed.

(* the selected sub-array holds the entries of vf at the discrete positions *)
Theorem selected_entries idx : in_bounds cont_shape idx ->
  get 0 selected idx = get 0 vf (positions ++ idx).
Proof. intros H. unfold selected, jax_lookup. fold positions. now apply get_subarr. Qed.

Hypothesis Hconts : conts <> [].
Hypothesis Hrank : length conts = length cont_shape.
Hypothesis Hdims : Forall (fun n => (2 <= n)%nat) cont_shape.

(* with continuous axes: multilinear interpolation of the selected sub-array at the coordinates
   of the continuous values *)
Theorem funrep_is_interpolation :
  function_representation vf indexer rlabels dlabels conts
  == interp (get 0 selected) cont_shape coords.
Proof.
  assert (Hne : cont_shape <> []).
  { intro E. rewrite E in Hrank. destruct conts; [congruence|discriminate]. }
  unfold function_representation. fold state_index. fold selected.
  assert (E : forall (cs : list cont_axis) (x y : Q), cs <> [] -> match cs with [] => x | _ => y end = y)
    by (intros [|? ?] x y H; [congruence|reflexivity]).
  rewrite E by exact Hconts. fold coords.
  rewrite map_coordinates_is_interp.
  - reflexivity.
  - rewrite selected_shape. exact Hne.
  - rewrite selected_shape. unfold coords. now rewrite map_length.
  - rewrite selected_shape. exact Hdims.
Qed.

(* at grid nodes the stored entry is reproduced *)
Theorem funrep_reproduces_nodes idx : in_bounds cont_shape idx ->
  coords = map Qofnat idx ->
  function_representation vf indexer rlabels dlabels conts == get 0 vf (positions ++ idx).
Proof.
  intros Hb Hc. rewrite funrep_is_interpolation, Hc.
  rewrite interp_at_nodes by assumption. now rewrite selected_entries.
Qed.
End FunRep.

(* labels in range select exactly the labelled positions *)
Theorem positions_of_valid_labels (vf : arr Q) (labels : list Z) :
  Forall2 (fun n i => (0 <= i < Z.of_nat n)%Z) (firstn (length labels) (shape vf)) labels ->
  jax_positions (shape vf) labels = map Z.to_nat labels.
Proof. apply jax_positions_in_range. Qed.

(* Proofs/C18_AxesSimulation.v — the choice axes the regenerated simulation code determines for a model without        *)
(* filter-restricted variables: 1 .. |dch| (axis 0 being the agents), none without a dense discrete choice.              *)
From Coq Require Import Lia.
From LCM Require Import Base.Prelude Base.Arr Base.ArrOps Gen.ChoiceAxes Gen.Argmax Gen.SimulateKernels.
From LCM Require Import Spec.Lang Proofs.C18_AxesFilterFree.
Local Open Scope nat_scope.

Section FilterFreeSim.
Variables (dst dch cst cch : list (string * grid)).
Hypothesis Hnd : NoDup (map fst (dst ++ dch ++ cst ++ cch)).
Let vi := vi_of dst dch cst cch.

(* the simulation: axes 1 .. |dch| *)
Theorem simulation_axes_of_filter_free :
  determine_discrete_dense_choice_axes vi = match dch with [] => None | _ => Some (seq 1 (length dch)) end.
Proof.
  unfold determine_discrete_dense_choice_axes, vi. rewrite (choice_vars_are dst dch cst cch).
  assert (E : map vname (filter (fun v => (negb (is_continuous v) && is_dense v) && is_choice v) (vi_of dst dch cst cch)) = map fst dch).
  { unfold vi_of. rewrite !filter_app, !map_app.
    rewrite (filter_map_const (vinfo true false) _ false) by reflexivity.
    rewrite (filter_map_const (vinfo false false) _ true) by reflexivity.
    rewrite (filter_map_const (vinfo true true) _ false) by reflexivity.
    rewrite (filter_map_const (vinfo false true) _ false) by reflexivity.
    cbn [map app]. now rewrite app_nil_r, (names_map false false). }
  rewrite E. set (cv := (map fst dch ++ map fst cch)%list).
  assert (G : forall l s, (forall x, In x l -> mem_str x cv = true) ->
              map (fun iax : nat * string => fst iax + 1) (filter (fun iax => mem_str (snd iax) cv) (combine (seq s (length l)) l)) = seq (s + 1) (length l)).
  { induction l as [|x r IH]; intros s H; [reflexivity|]. cbn [length seq combine filter snd].
    rewrite (H x (or_introl eq_refl)). cbn [map fst]. f_equal. rewrite IH by (intros y Hy; apply H; now right). f_equal. }
  rewrite (G (map fst dch) 0) by (intros x Hx; now apply (choice_is_choice dch cch)). rewrite map_length. cbn [Nat.add].
  destruct dch; reflexivity.
Qed.


Theorem policy_calculator_of_filter_free values :
  get_discrete_policy_calculator vi values None
  = calculate_discrete_argmax values (match dch with [] => None | _ => Some (seq 1 (length dch)) end) None.
Proof. unfold get_discrete_policy_calculator. now rewrite simulation_axes_of_filter_free. Qed.
End FilterFreeSim.

(* Proofs/C11_Affine.v — the affine law of finite-horizon dynamic programming for the            *)
(* specification: if utility is replaced by a*utility + b (a > 0) every value becomes             *)
(* a*V + b * sum_{k < T-t} beta^k, provided the joint transition probabilities sum to one.        *)
From Coq Require Import Lqa Setoid Morphisms.
From LCM Require Import Base.Prelude Base.Arr Spec.Lang Spec.Interp Spec.Bellman.
From LCM Require Import Proofs.ArrLemmas Proofs.QLemmas Proofs.Spec_Algebra.
Local Open Scope Q_scope.

(* ---- reading an affinely transformed table -------------------------------------------------- *)
Lemma vaff_veq a s x y : veq x y -> veq (vaff a s x) (vaff a s y).
Proof. destruct x, y; simpl; try tauto. intros H. now rewrite H. Qed.

Lemma vblend_affine a s w0 w1 x y x' y' :
  w0 + w1 == 1 -> veq x' (vaff a s x) -> veq y' (vaff a s y) ->
  veq (vblend w0 x' w1 y') (vaff a s (vblend w0 x w1 y)).
Proof.
  intros Hw Hx Hy. destruct x as [| |p], y as [| |r], x' as [| |p'], y' as [| |r']; simpl in *; try tauto.
  rewrite Hx, Hy. transitivity (a * (w0 * p + w1 * r) + s * (w0 + w1)); [ring|]. rewrite Hw. ring.
Qed.

Lemma vread_affine a s sts : forall f g vals,
  (forall idx, veq (g idx) (vaff a s (f idx))) ->
  veq (vread sts g vals) (vaff a s (vread sts f vals)).
Proof.
  induction sts as [|[x gr] r IH]; intros f g vals H.
  - destruct vals; simpl; [apply H|exact I].
  - destruct gr as [n|lo hi n]; destruct vals as [|v vs]; simpl; try exact I.
    + destruct (is_label v n) as [k|]; [|exact I]. apply IH. intros idx. apply H.
    + apply vblend_affine.
      * unfold cell_w. ring.
      * apply IH. intros idx. apply H.
      * apply IH. intros idx. apply H.
Qed.

(* ---- the expectation ---------------------------------------------------------------------------- *)
(* the fold of [continuation] over the list of nodes, for an arbitrary reader of a node *)
Definition expect (rd : env -> val) (nds : list (env * Q)) : val :=
  fold_right (fun nw acc => match rd (fst nw), acc with
                            | VFin x, VFin c => VFin (c + snd nw * x)
                            | _, _ => VUndef end) (VFin 0) nds.

Lemma expect_affine a s rd rd' nds :
  (forall l, veq (rd' l) (vaff a s (rd l))) ->
  match expect rd nds, expect rd' nds with
  | VFin c, VFin c' => c' == a * c + s * fold_right Qplus 0 (map snd nds)
  | VFin _, _ => False
  | _, VFin _ => False
  | _, _ => True
  end.
Proof.
  intros H. induction nds as [|[l w] r IH]; simpl.
  - ring.
  - specialize (H l). destruct (rd l) as [| |x], (rd' l) as [| |x']; simpl in H; try tauto;
      destruct (expect rd r) as [| |c], (expect rd' r) as [| |c']; simpl in *; try tauto.
    rewrite H, IH. ring.
Qed.

(* ---- the model with utility replaced by a*utility + b ------------------------------------------ *)
Local Open Scope string_scope.
Definition scale_fun (a b : Q) (f : ufun) : ufun :=
  if String.eqb (fname f) "utility"
  then mkUfun (fname f) (fargs f) (EAdd (EMul (EConst a) (fbody f)) (EConst b)) (fstoch f)
  else f.
Definition scale_model (a b : Q) (m : model) : model :=
  mkModel (n_periods m) (states m) (choices m) (map (scale_fun a b) (functions m)).

Lemma find_map_scale a b name (fs : list ufun) :
  find (fun f => String.eqb (fname f) name) (map (scale_fun a b) fs)
  = option_map (scale_fun a b) (find (fun f => String.eqb (fname f) name) fs).
Proof.
  induction fs as [|f r IH]; [reflexivity|]. cbn [map find].
  assert (E : fname (scale_fun a b f) = fname f) by (unfold scale_fun; now destruct (String.eqb (fname f) "utility")).
  rewrite E. destruct (String.eqb (fname f) name); [reflexivity|exact IH].
Qed.

Section Scaled.
Variables (a b : Q) (m : model).
Let m' := scale_model a b m.
(* no function takes utility as an argument *)
Hypothesis Hno : forall f, In f (functions m) -> ~ In "utility" (fargs f).

Lemma scale_fun_name f : fname (scale_fun a b f) = fname f.
Proof. unfold scale_fun. now destruct (String.eqb (fname f) "utility"). Qed.
Lemma scale_fun_args f : fargs (scale_fun a b f) = fargs f.
Proof. unfold scale_fun. now destruct (String.eqb (fname f) "utility"). Qed.
Lemma scale_fun_stoch f : fstoch (scale_fun a b f) = fstoch f.
Proof. unfold scale_fun. now destruct (String.eqb (fname f) "utility"). Qed.

Lemma find_fun_scaled name : find_fun m' name = option_map (scale_fun a b) (find_fun m name).
Proof. unfold find_fun, m', scale_model. cbn [functions]. apply find_map_scale. Qed.

Lemma depth_scaled : depth m' = depth m.
Proof. unfold depth, m', scale_model. cbn [functions]. now rewrite map_length. Qed.

Lemma find_fun_in name f : find_fun m name = Some f -> In f (functions m) /\ fname f = name.
Proof.
  unfold find_fun. intros H. apply find_some in H. destruct H as [H1 H2]. split; [exact H1|].
  now apply String.eqb_eq in H2.
Qed.

Lemma omap_ext_in {A B} (f g : A -> option B) l : (forall x, In x l -> f x = g x) -> omap f l = omap g l.
Proof.
  induction l as [|x r IH]; intros H; [reflexivity|]. cbn [omap].
  rewrite (H x) by (now left). rewrite IH; [reflexivity|]. intros y Hy. apply H. now right.
Qed.

Lemma eval_fun_scaled p e : forall fuel name,
  eval_fun fuel m' p e name =
  if String.eqb name "utility"
  then option_map (fun u => (a * u + b)%Q) (eval_fun fuel m p e name)
  else eval_fun fuel m p e name.
Proof.
  induction fuel as [|fuel IH]; intros name.
  - simpl. now destruct (String.eqb name "utility").
  - cbn [eval_fun]. rewrite find_fun_scaled. destruct (find_fun m name) as [f|] eqn:Ef; cbn [option_map].
    2:{ now destruct (String.eqb name "utility"). }
    destruct (find_fun_in name f Ef) as [Hin Hname].
    rewrite scale_fun_args, scale_fun_name.
    assert (Eargs : omap (fun a0 => match assoc a0 e with
                                    | Some v => Some v
                                    | None => match find_fun m' a0 with
                                              | Some _ => eval_fun fuel m' p e a0
                                              | None => Some (par p (fname f) a0) end end) (fargs f)
                  = omap (fun a0 => match assoc a0 e with
                                    | Some v => Some v
                                    | None => match find_fun m a0 with
                                              | Some _ => eval_fun fuel m p e a0
                                              | None => Some (par p (fname f) a0) end end) (fargs f)).
    { apply omap_ext_in. intros a0 Ha0. destruct (assoc a0 e); [reflexivity|].
      rewrite find_fun_scaled. destruct (find_fun m a0); cbn [option_map]; [|reflexivity].
      rewrite IH. destruct (String.eqb_spec a0 "utility") as [->|_]; [|reflexivity].
      exfalso. exact (Hno f Hin Ha0). }
    rewrite Eargs.
    match goal with |- context [omap ?g (fargs f)] => set (O := omap g (fargs f)) end.
    destruct O as [vals|]; cbn [obind option_map].
    + unfold scale_fun. rewrite Hname. destruct (String.eqb name "utility"); reflexivity.
    + now destruct (String.eqb name "utility").
Qed.
End Scaled.

Lemma fold_right_ext_local {A B} (f g : A -> B -> B) (z : B) l :
  (forall x acc, f x acc = g x acc) -> fold_right f z l = fold_right g z l.
Proof. intros H. induction l as [|x r IH]; simpl; [reflexivity|]. now rewrite IH, H. Qed.

Section ScaledSpec.
Variables (a b : Q) (m : model) (p : params).
Let m' := scale_model a b m.
Hypothesis Hno : forall f, In f (functions m) -> ~ In "utility" (fargs f).

Lemma next_ne_utility s : ("next_" ++ s) <> "utility".
Proof. simpl. discriminate. Qed.

Lemma is_filter_scaled f : is_filter (scale_fun a b f) = is_filter f.
Proof. unfold is_filter. now rewrite scale_fun_name. Qed.
Lemma is_constraint_scaled f : is_constraint (scale_fun a b f) = is_constraint f.
Proof. unfold is_constraint. now rewrite scale_fun_name. Qed.

Lemma filter_map_scale (q : ufun -> bool) fs :
  (forall f, q (scale_fun a b f) = q f) ->
  filter q (map (scale_fun a b) fs) = map (scale_fun a b) (filter q fs).
Proof.
  intros H. induction fs as [|f r IH]; [reflexivity|]. cbn [map filter]. rewrite H.
  destruct (q f); cbn [map]; now rewrite IH.
Qed.

Lemma holds_scaled e f : fname f <> "utility" -> holds m' p e (scale_fun a b f) = holds m p e f.
Proof.
  intros Hn. unfold holds. rewrite scale_fun_name. unfold m'. rewrite depth_scaled, (eval_fun_scaled a b m Hno).
  destruct (String.eqb_spec (fname f) "utility"); [congruence|reflexivity].
Qed.

Lemma filter_not_utility f : is_filter f = true -> fname f <> "utility".
Proof. intros H E. unfold is_filter in H. rewrite E in H. discriminate. Qed.
Lemma constraint_not_utility f : is_constraint f = true -> fname f <> "utility".
Proof. intros H E. unfold is_constraint in H. rewrite E in H. discriminate. Qed.

Lemma forallb_map_ext {A B} (g : B -> bool) (h : A -> bool) (f : A -> B) l :
  (forall x, In x l -> g (f x) = h x) -> forallb g (map f l) = forallb h l.
Proof.
  induction l as [|x r IH]; intros H; [reflexivity|]. cbn [map forallb].
  rewrite (H x) by (now left). rewrite IH; [reflexivity|]. intros y Hy. apply H. now right.
Qed.

Lemma feasible_scaled e : feasible m' p e = feasible m p e.
Proof.
  unfold feasible, filters, constraints, m', scale_model. cbn [functions].
  rewrite (filter_map_scale is_filter _ is_filter_scaled), (filter_map_scale is_constraint _ is_constraint_scaled).
  f_equal; apply forallb_map_ext; intros f Hf; apply filter_In in Hf; destruct Hf as [_ Hf];
    apply holds_scaled; [now apply filter_not_utility|now apply constraint_not_utility].
Qed.

Lemma is_stochastic_scaled s : is_stochastic m' s = is_stochastic m s.
Proof.
  unfold is_stochastic, m'. rewrite find_fun_scaled. destruct (find_fun m ("next_" ++ s)); cbn [option_map]; [|reflexivity].
  apply scale_fun_stoch.
Qed.

Lemma stoch_states_scaled : stoch_states m' = stoch_states m.
Proof.
  unfold stoch_states. change (states m') with (states m). apply filter_ext. intros sg. apply is_stochastic_scaled.
Qed.

Lemma weight_row_scaled e s : weight_row m' p e s = weight_row m p e s.
Proof.
  unfold weight_row, m'. rewrite find_fun_scaled. destruct (find_fun m ("next_" ++ s)); cbn [option_map obind]; [|reflexivity].
  now rewrite scale_fun_args.
Qed.

Lemma next_det_scaled e s : next_det m' p e s = next_det m p e s.
Proof.
  unfold next_det, m'. rewrite depth_scaled, (eval_fun_scaled a b m Hno).
  destruct (String.eqb_spec ("next_" ++ s) "utility") as [E|_]; [exfalso; exact (next_ne_utility s E)|reflexivity].
Qed.

Lemma nodes_scaled e ss : nodes m' p e ss = nodes m p e ss.
Proof.
  induction ss as [|[s g] r IH]; [reflexivity|]. cbn [nodes]. now rewrite weight_row_scaled, IH.
Qed.

Lemma continuation_scaled vnext e : continuation m' p vnext e = continuation m p vnext e.
Proof.
  unfold continuation. rewrite stoch_states_scaled, nodes_scaled. change (states m') with (states m).
  destruct (nodes m p e (stoch_states m)) as [nds|]; [|reflexivity].
  apply fold_right_ext_local. intros [labels w] acc.
  assert (E : omap (fun sg : string * grid => match assoc (fst sg) labels with
                                            | Some l => Some l | None => next_det m' p e (fst sg) end) (states m)
            = omap (fun sg : string * grid => match assoc (fst sg) labels with
                                            | Some l => Some l | None => next_det m p e (fst sg) end) (states m)).
  { apply omap_ext_in. intros sg _. destruct (assoc (fst sg) labels); [reflexivity|apply next_det_scaled]. }
  now rewrite E.
Qed.

Lemma utility_scaled e :
  eval_fun (depth m') m' p e "utility" = option_map (fun u => (a * u + b)%Q) (eval_fun (depth m) m p e "utility").
Proof. unfold m'. now rewrite depth_scaled, (eval_fun_scaled a b m Hno). Qed.
End ScaledSpec.

(* ---- the affine law ---------------------------------------------------------------------------- *)
Local Open Scope Q_scope.
Fixpoint geom (beta : Q) (k : nat) : Q := match k with O => 0 | S k' => 1 + beta * geom beta k' end.

Lemma vred_veq x : veq (vred x) x.
Proof. destruct x; simpl; auto. apply Qred_correct. Qed.

Lemma vmaxl_compat l l' : Forall2 veq l l' -> veq (vmaxl l) (vmaxl l').
Proof.
  unfold vmaxl. induction 1 as [|x y l l' Hxy _ IH]; simpl; [reflexivity|]. now apply vmax_compat.
Qed.

Lemma Forall2_map_same {A} (f g : A -> val) l : (forall x, veq (f x) (g x)) -> Forall2 veq (map f l) (map g l).
Proof. intros H. induction l as [|x r IH]; simpl; constructor; auto. Qed.


(* joint node weights sum to one when every weight row does *)
Definition qsum (l : list Q) : Q := fold_right Qplus 0 l.
Lemma qsum_app l1 l2 : qsum (l1 ++ l2) == qsum l1 + qsum l2.
Proof. unfold qsum. induction l1 as [|x r IH]; simpl; [ring|]. rewrite IH. ring. Qed.
Lemma qsum_scaled_nodes {A} (F : env -> A) (w : Q) (rest : list (env * Q)) :
  qsum (map snd (map (fun nw : env * Q => (F (fst nw), w * snd nw)) rest)) == w * qsum (map snd rest).
Proof. unfold qsum. induction rest as [|[l x] r IH]; simpl; [ring|]. rewrite IH. ring. Qed.
Lemma qsum_product {A} (F : nat -> env -> A) (row : nat -> Q) (rest : list (env * Q)) ks :
  qsum (map snd (flat_map (fun k => map (fun nw : env * Q => (F k (fst nw), row k * snd nw)) rest) ks))
  == qsum (map row ks) * qsum (map snd rest).
Proof.
  induction ks as [|k r IH]; cbn [flat_map map]; [unfold qsum; simpl; ring|].
  rewrite map_app, qsum_app, IH, (qsum_scaled_nodes (F k)). unfold qsum. simpl. ring.
Qed.

Lemma nodes_weights_sum_to_one m p e : forall ss,
  (forall s g row, In (s, g) ss -> weight_row m p e s = Some row ->
     qsum (map (fun k => nth k row 0) (seq 0 (grid_size g))) == 1) ->
  forall nds, nodes m p e ss = Some nds -> qsum (map snd nds) == 1.
Proof.
  induction ss as [|[s g] r IH]; intros Hrow nds Hn.
  - simpl in Hn. injection Hn as <-. unfold qsum. simpl. ring.
  - cbn [nodes] in Hn. destruct (weight_row m p e s) as [row|] eqn:Ew; [|discriminate].
    destruct (nodes m p e r) as [rest|] eqn:Er; [|discriminate]. cbn in Hn. injection Hn as <-.
    rewrite (qsum_product (fun k l => (s, Qofnat k) :: l) (fun k => nth k row 0)).
    rewrite (Hrow s g row (or_introl eq_refl) Ew), (IH (fun s' g' row' Hin => Hrow s' g' row' (or_intror Hin)) rest eq_refl).
    ring.
Qed.

Lemma nth_map_lt {A B} (f : A -> B) l j d d' : (j < length l)%nat -> nth j (map f l) d = f (nth j l d').
Proof. revert j. induction l as [|x r IH]; intros [|j] H; simpl in *; try lia; auto. apply IH. lia. Qed.

Section Law.
Variables (a b : Q) (m : model) (p : params).
Let m' := scale_model a b m.
Hypothesis Ha : 0 < a.
Hypothesis Hno : forall f, In f (functions m) -> ~ In "utility"%string (fargs f).
(* every row of every transition-probability array that is read sums to one *)
Hypothesis Hrows : forall e s g row, In (s, g) (stoch_states m) -> weight_row m p e s = Some row ->
  qsum (map (fun k => nth k row 0) (seq 0 (grid_size g))) == 1.
Lemma Hsum e nds : nodes m p e (stoch_states m) = Some nds -> fold_right Qplus 0 (map snd nds) == 1.
Proof. apply (nodes_weights_sum_to_one m p e (stoch_states m)). intros s g row. apply Hrows. Qed.

Definition node_value (vnext : list nat -> val) (e : env) (labels : env) : val :=
  match omap (fun sg : string * grid => match assoc (fst sg) labels with
                                        | Some l => Some l | None => next_det m p e (fst sg) end) (states m) with
  | None => VUndef
  | Some nxt => vread (states m) vnext nxt
  end.

Lemma continuation_as_expect vnext e :
  continuation m p vnext e =
  match nodes m p e (stoch_states m) with None => VUndef | Some nds => expect (node_value vnext e) nds end.
Proof.
  unfold continuation. destruct (nodes m p e (stoch_states m)) as [nds|]; [|reflexivity].
  unfold expect. apply fold_right_ext_local. intros [labels w] acc. unfold node_value. cbn [fst snd].
  destruct (omap _ (states m)); [|reflexivity]. reflexivity.
Qed.

Lemma continuation_affine s vnext vnext' e :
  (forall idx, veq (vnext' idx) (vaff a s (vnext idx))) ->
  match continuation m p vnext e, continuation m p vnext' e with
  | VFin c, VFin c' => c' == a * c + s
  | VFin _, _ => False
  | _, VFin _ => False
  | _, _ => True
  end.
Proof.
  intros H. rewrite !continuation_as_expect.
  destruct (nodes m p e (stoch_states m)) as [nds|] eqn:En; [|exact I].
  assert (Hrd : forall l, veq (node_value vnext' e l) (vaff a s (node_value vnext e l))).
  { intros l. unfold node_value. destruct (omap _ (states m)); [|exact I]. now apply vread_affine. }
  pose proof (expect_affine a s _ _ nds Hrd) as E.
  destruct (expect (node_value vnext e) nds), (expect (node_value vnext' e) nds); try tauto.
  rewrite E, (Hsum e nds En). ring.
Qed.

Lemma objective_affine last k vnext vnext' e :
  (last = true -> k = 1%nat) ->
  (last = false -> exists k', k = S k' /\ forall idx, veq (vnext' idx) (vaff a (b * geom (beta p) k') (vnext idx))) ->
  veq (objective m' p last vnext' e) (vaff a (b * geom (beta p) k) (objective m p last vnext e)).
Proof.
  intros Hl Hn. unfold objective. unfold m'. rewrite (utility_scaled a b m p Hno), (continuation_scaled a b m p Hno).
  destruct (eval_fun (depth m) m p e "utility") as [u|]; cbn [option_map]; [|exact I].
  destruct last.
  - rewrite (Hl eq_refl). simpl. ring.
  - destruct (Hn eq_refl) as (k' & -> & Hv).
    pose proof (continuation_affine (b * geom (beta p) k') vnext vnext' e Hv) as E.
    destruct (continuation m p vnext e), (continuation m p vnext' e); try tauto; try exact I.
    simpl. rewrite E. ring.
Qed.

Lemma value_at_affine t last k vnext vnext' sigma :
  (last = true -> k = 1%nat) ->
  (last = false -> exists k', k = S k' /\ forall idx, veq (vnext' idx) (vaff a (b * geom (beta p) k') (vnext idx))) ->
  veq (value_at m' p t last vnext' sigma) (vaff a (b * geom (beta p) k) (value_at m p t last vnext sigma)).
Proof.
  intros Hl Hn. unfold value_at. change (choices m') with (choices m).
  rewrite vmaxl_affine by exact Ha. rewrite map_map. apply vmaxl_compat, Forall2_map_same. intros gamma.
  unfold m'. rewrite (feasible_scaled a b m p Hno).
  destruct (feasible m p _); [|reflexivity]. now apply objective_affine.
Qed.

(* tables related entry by entry *)
Definition related (s : Q) (tab tab' : arr val) : Prop :=
  shape tab' = shape tab /\ forall j, veq (nth j (data tab') VUndef) (vaff a s (nth j (data tab) VUndef)).

Lemma related_get s tab tab' idx : related s tab tab' ->
  veq (get VUndef tab' idx) (vaff a s (get VUndef tab idx)).
Proof. intros [Hs Hd]. unfold get. rewrite Hs. apply Hd. Qed.

Lemma value_table_affine t last k vnext vnext' :
  (last = true -> k = 1%nat) ->
  (last = false -> exists k', k = S k' /\ related (b * geom (beta p) k') vnext vnext') ->
  related (b * geom (beta p) k) (value_table m p t last vnext) (value_table m' p t last vnext').
Proof.
  intros Hl Hn. unfold related, value_table. change (state_shape m') with (state_shape m).
  cbn [shape data tabulate]. split; [reflexivity|]. intros j.
  destruct (Nat.lt_ge_cases j (length (indices (state_shape m)))) as [L|L].
  - rewrite !(nth_map_lt _ _ j VUndef []) by exact L. rewrite vred_veq.
    change (state_env m' (nth j (indices (state_shape m)) [])) with (state_env m (nth j (indices (state_shape m)) [])).
    rewrite (value_at_affine t last k (fun i => get VUndef vnext i) (fun i => get VUndef vnext' i)).
    + apply vaff_veq. symmetry. apply vred_veq.
    + exact Hl.
    + intros E. destruct (Hn E) as (k' & -> & R). exists k'. split; [reflexivity|]. intros idx. now apply related_get.
  - rewrite !nth_overflow by (now rewrite map_length). exact I.
Qed.

Theorem solve_from_affine : forall k t j, (j < k)%nat ->
  related (b * geom (beta p) (k - j)) (nth j (solve_from m p t k) (scalar VUndef))
                                      (nth j (solve_from m' p t k) (scalar VUndef)).
Proof.
  induction k as [|k IH]; intros t j Hj; [lia|].
  destruct k as [|k'].
  - assert (j = 0)%nat by lia. subst. cbn [solve_from nth]. apply value_table_affine; [reflexivity|discriminate].
  - change (solve_from m p t (S (S k'))) with
      (value_table m p t false (hd (scalar VUndef) (solve_from m p (S t) (S k'))) :: solve_from m p (S t) (S k')).
    change (solve_from m' p t (S (S k'))) with
      (value_table m' p t false (hd (scalar VUndef) (solve_from m' p (S t) (S k'))) :: solve_from m' p (S t) (S k')).
    destruct j as [|j].
    + cbn [nth]. replace (S (S k') - 0)%nat with (S (S k')) by lia.
      apply value_table_affine; [discriminate|]. intros _. exists (S k'). split; [reflexivity|].
      pose proof (IH (S t) 0%nat ltac:(lia)) as R. replace (S k' - 0)%nat with (S k') in R by lia.
      assert (Hh : forall l : list (arr val), hd (scalar VUndef) l = nth 0 l (scalar VUndef)) by (intros [|? ?]; reflexivity).
      now rewrite !Hh.
    + cbn [nth]. replace (S (S k') - S j)%nat with (S k' - j)%nat by lia. apply IH. lia.
Qed.

Theorem affine_law t idx : (t < n_periods m)%nat ->
  veq (get VUndef (nth t (solve_spec m' p) (scalar VUndef)) idx)
      (vaff a (b * geom (beta p) (n_periods m - t)) (get VUndef (nth t (solve_spec m p) (scalar VUndef)) idx)).
Proof.
  intros Ht. unfold solve_spec. change (n_periods m') with (n_periods m).
  apply related_get. now apply solve_from_affine.
Qed.
End Law.

(* Proofs/C07_TemplateGen.v — the regenerated template construction (Gen/ParamsTemplateGen.v) IS the  *)
(* hand model of Model/ParamsTemplate.v, so that C07's theorems about entries and shock shapes speak    *)
(* about the code.                                                                                      *)
From LCM Require Import Base.Prelude Spec.Lang Spec.Bellman Model.ParamsTemplate Gen.ParamsTemplateGen.
Local Open Scope string_scope.

Theorem gen_function_params_is_model m :
  gen_function_params m = map (fun f => (fname f, function_params m f)) (functions m).
Proof. reflexivity. Qed.

Lemma omap_ext_all {A B} (f g : A -> option B) l : (forall x, f x = g x) -> omap f l = omap g l.
Proof. intros H. induction l as [|x r IH]; [reflexivity|]. cbn [omap]. now rewrite H, IH. Qed.

Theorem gen_shock_dimensions_is_model m s f :
  find_fun m ("next_" ++ s) = Some f -> gen_shock_dimensions m s (fargs f) = shock_shape m s.
Proof.
  intros Hf. unfold gen_shock_dimensions, shock_shape. rewrite Hf. cbn [obind].
  rewrite (omap_ext_all _ (fun d => if String.eqb d period_name then Some (n_periods m)
                                   else match grid_of m d with Some gd => Some (grid_size gd) | None => None end) (fargs f)).
  2:{ intros d. change period_name with "_period". destruct (String.eqb d "_period"); cbn [negb]; [reflexivity|].
      destruct (grid_of m d); reflexivity. }
  destruct (grid_of m s) as [g|]; cbn [obind].
  - destruct (omap _ (fargs f)); reflexivity.
  - destruct (omap _ (fargs f)); reflexivity.
Qed.

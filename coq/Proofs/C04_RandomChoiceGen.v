(* Proofs/C04_RandomChoiceGen.v — about the regenerated lcm.random_choice (Gen/RandomChoiceGen.v):  *)
(* one draw per row of probabilities, row i drawn with the i-th child of the key from its own row,   *)
(* never a label of probability zero.                                                                *)
From Coq Require Import Lqa Lia.
From LCM Require Import Base.Prelude Model.RandomChoice Gen.RandomChoiceGen Proofs.C04_Choice.
Local Open Scope Q_scope.

Section RC.
Variable L : Type.
Variable d_label : L.
Variable uniform : key -> Q.

Lemma nth_map_lt3 {A B} (f : A -> B) l j d d' : (j < length l)%nat -> nth j (map f l) d = f (nth j l d').
Proof. revert j. induction l as [|x r IH]; intros [|j] H; simpl in *; try lia; auto. apply IH. lia. Qed.

Lemma split_length k n : length (split k n) = n.
Proof. unfold RandomChoice.split. now rewrite map_length, seq_length. Qed.

Lemma split_nth k n i : (i < n)%nat -> nth i (split k n) [] = (k ++ [i])%list.
Proof.
  intros H. unfold RandomChoice.split, key. rewrite (nth_map_lt3 _ _ i [] 0%nat) by (now rewrite seq_length). now rewrite seq_nth.
Qed.

Theorem random_choice_length k probs labels : length (random_choice L d_label uniform k probs labels) = length probs.
Proof.
  unfold random_choice, vmapped_random_choice. rewrite map_length, combine_length, split_length. apply Nat.min_id.
Qed.

Theorem random_choice_row i k probs labels : (i < length probs)%nat ->
  nth i (random_choice L d_label uniform k probs labels) d_label
  = nth (choice (nth i probs []) (uniform (k ++ [i])%list)) labels d_label.
Proof.
  intros H. unfold random_choice, vmapped_random_choice, jax_random_choice.
  set (f := fun kp : key * list Q => nth (choice (snd kp) (uniform (fst kp))) labels d_label).
  rewrite (nth_map_lt3 f _ i d_label ([], [])) by (rewrite combine_length, split_length, Nat.min_id; exact H).
  rewrite combine_nth by (now rewrite split_length). unfold f. cbn [fst snd].
  now rewrite split_nth.
Qed.

(* the drawn label has positive probability in the agent's own row *)
Theorem random_choice_support i k probs labels : (i < length probs)%nat ->
  Forall (fun x => 0 <= x) (nth i probs []) -> 0 < total (nth i probs []) ->
  0 <= uniform (k ++ [i])%list -> uniform (k ++ [i])%list < 1 ->
  exists j, nth i (random_choice L d_label uniform k probs labels) d_label = nth j labels d_label /\
            (j < length (nth i probs []))%nat /\ 0 < nth j (nth i probs []) 0.
Proof.
  intros H Hp Ht H0 H1. exists (choice (nth i probs []) (uniform (k ++ [i])%list)).
  destruct (choice_spec _ _ Hp Ht H0 H1) as (A & B & _). split; [now apply random_choice_row|split; assumption].
Qed.
End RC.

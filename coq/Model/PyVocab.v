(* Model/PyVocab.v — the Python dict / numpy vocabulary the translators of create_data_scs (simulate.py) and create_filter_mask *)
(* (state_space.py) emit: dicts are association lists in insertion order, 1-d arrays are lists.  Hand-written; tied to lcm by    *)
(* the families that run the regenerated definitions against lcm's (data_scs_vs_regenerated, state_space_vs_spec).              *)
From LCM Require Import Base.Prelude.
Local Open Scope string_scope.

Definition dict_set {A} (d : list (string * A)) (k : string) (v : A) : list (string * A) :=      (* d[k] = v *)
  if mem_str k (map fst d) then map (fun kv => if String.eqb (fst kv) k then (k, v) else kv) d else (d ++ [(k, v)])%list.
Definition np_repeat {A} (x : list A) (repeats : nat) : list A := flat_map (fun e => repeat e repeats) x.   (* jnp.repeat(x, repeats) *)
Definition np_tile {A} (x : list A) (reps : nat) : list A := flat_map (fun _ => x) (seq 0 reps).            (* jnp.tile(x, reps) *)
Definition set_eqb (a b : list string) : bool := forallb (fun x => mem_str x b) a && forallb (fun x => mem_str x a) b.   (* set(a) == set(b) *)

(* Model/ParamsTemplate.v — lcm/input_processing/create_params_template.py on model          *)
(* descriptions: the keys of the template, the free parameters of every function (arguments   *)
(* minus variables, function names and the period, sorted), the shape of the transition array  *)
(* of every stochastic state.  Hand-written; tied to the code by the family `template`.        *)
From LCM Require Import Base.Prelude Spec.Lang Spec.Bellman.
Local Open Scope string_scope.

Definition variables_of (m : model) : list string :=
  (map fname (functions m) ++ map fst (choices m) ++ map fst (states m) ++ [period_name])%list.

(* sorted(set(arguments).difference(variables)) *)
Fixpoint insert_str (x : string) (l : list string) : list string :=
  match l with
  | [] => [x]
  | y :: r => if String.eqb x y then l else if String.ltb x y then x :: l else y :: insert_str x r
  end.
Definition sorted_set (l : list string) : list string := fold_right insert_str [] l.

Definition function_params (m : model) (f : ufun) : list string :=
  sorted_set (filter (fun a => negb (mem_str a (variables_of m))) (fargs f)).

Definition has_stochastic (m : model) : bool := existsb fstoch (functions m).

Definition template_keys (m : model) : list string :=
  ("beta" :: map fname (functions m) ++ (if has_stochastic m then ["shocks"] else []))%list.

Definition grid_of (m : model) (x : string) : option grid :=
  match assoc x (states m) with Some g => Some g | None => assoc x (choices m) end.

(* dimensions of the dependencies in signature order (n_periods for the period), then the
   number of labels of the state *)
Definition shock_shape (m : model) (s : string) : option (list nat) :=
  do f <- find_fun m ("next_" ++ s) ;;
  do g <- grid_of m s ;;
  do dims <- omap (fun d => if String.eqb d period_name then Some (n_periods m)
                            else match grid_of m d with Some gd => Some (grid_size gd) | None => None end)
                  (fargs f) ;;
  Some (dims ++ [grid_size g])%list.

(* ---- the checks made when the functions are created (get_lcm_function / process_model) ------ *)
Definition is_discrete_var (m : model) (x : string) : bool :=
  match grid_of m x with Some (GDisc _) => true | _ => false end.
Definition is_discrete_state (m : model) (x : string) : bool :=
  match assoc x (states m) with Some (GDisc _) => true | _ => false end.

(* _create_stochastic_transition_params + _get_stochastic_weight_function: a stochastic transition
   must be on a discrete state and depend on discrete variables and the period only;
   _get_internal_functions: filters must not have parameters *)
Definition creation_checks (m : model) : bool :=
  forallb (fun f =>
             if fstoch f then
               is_discrete_state m (substring 5 (String.length (fname f) - 5) (fname f))
               && forallb (fun d => String.eqb d period_name || is_discrete_var m d) (fargs f)
             else true) (functions m)
  && forallb (fun f => match function_params m f with [] => true | _ => false end) (filters m).

(* Model/FunctionRepresentation.v — lcm/function_representation.py: the function built from a  *)
(* value array and the description of its space, composed as in the source: label -> position  *)
(* (identity), lookup of the state index in the indexer of the restricted states, partial       *)
(* indexing of the value array by all discrete positions, coordinate finder per continuous      *)
(* axis (the translated get_linspace_coordinate), map_coordinates on the remaining sub-array.    *)
(* Hand-written, mechanistic; tied to the code by the family `function_representation`.          *)
From LCM Require Import Base.Prelude Base.Arr Base.QKernel Gen.GridHelpersQ Model.Ndimage.
Local Open Scope Q_scope.

(* JAX integer indexing of one axis: negative indices count from the end, then clamp *)
Definition jax_index (n : nat) (i : Z) : nat :=
  let j := if (i <? 0)%Z then (i + Z.of_nat n)%Z else i in
  Z.to_nat (Zclip j 0 (Z.of_nat n - 1)).

Fixpoint jax_positions (sh : list nat) (idx : list Z) : list nat :=
  match sh, idx with
  | n :: r, i :: js => jax_index n i :: jax_positions r js
  | _, _ => []
  end.

(* arr[positions] with a tuple of integer indices (partial indexing allowed) *)
Definition jax_lookup {A} (d : A) (a : arr A) (idx : list Z) : arr A :=
  subarr d a (jax_positions (shape a) idx).

Record cont_axis := mkCont { c_start : Q; c_stop : Q; c_n : nat; c_value : Q }.

(* _fail_if_interpolation_axes_are_not_last: the interpolation axes that are axes of the array
   must be its trailing axes (as sets) *)
Definition interpolation_axes_are_last (axis_names interp_names : list string) : bool :=
  let common := filter (fun a => mem_str a interp_names) axis_names in
  let n_common := length common in
  let tail := skipn (length axis_names - n_common) axis_names in
  forallb (fun a => mem_str a tail) common && forallb (fun a => mem_str a common) tail.

Definition function_representation
           (vf_arr : arr Q) (indexer : option (arr Z)) (restricted_labels dense_labels : list Z)
           (conts : list cont_axis) : Q :=
  let state_index :=
    match indexer with
    | Some ix => [get (-1)%Z (jax_lookup (-1)%Z ix restricted_labels) []]
    | None => [] end in
  let positions := (state_index ++ dense_labels)%list in
  let interpolation_data := jax_lookup 0 vf_arr positions in
  match conts with
  | [] => get 0 interpolation_data []
  | _ => map_coordinates interpolation_data
           (map (fun c => get_linspace_coordinate (c_value c) (c_start c) (c_stop c) (Z.of_nat (c_n c))) conts)
  end.

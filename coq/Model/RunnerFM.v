(* Model/RunnerFM.v — a third entry point for the harness, extracted to its own binary (bin/fmask_runner): the regenerated       *)
(* create_filter_mask (Gen/FilterMask.v) on the inputs lcm's own reads off the processed model (variable_info, grids, the         *)
(* signature of the concatenated filter); the filter function itself is evaluated by the Spec.                                    *)
From LCM Require Import Base.Prelude Base.Arr Base.Json Model.Dispatchers Model.Decode Model.DecodeVI.
From LCM Require Import Gen.ChoiceAxes Gen.FilterMask Spec.Lang Spec.Bellman.
Local Open Scope string_scope.

Definition run_filter_mask (c : json) : option json :=
  do m <- jfield_of jmodel "model" c ;; do p <- jfield_of jparams "params" c ;;
  do t <- jfield_of jnat "period" c ;;
  do sig <- jfield_of (jlist_of jstr) "sig" c ;;
  do vi <- jfield_of (jlist_of jvarinfo) "variable_info" c ;;
  do grids <- jfield_of (jlist_of (jpair2 jstr (jlist_of jq))) "grids" c ;;
  let subset := match jfield "subset" c with Some JNull => None | Some j => jlist_of jstr j | None => None end in
  let scalar_filter := fun args : list qarr =>
        scalar (Qofbool (forallb (holds m p (combine sig (map (fun a => qget a []) args))) (filters m))) in
  let mask := create_filter_mask sig scalar_filter vi grids subset (Some [("_period", scalar (Qofnat t))]) in
  Some (JObj [("shape", of_list of_nat (shape mask)); ("data", of_list (fun q => JBool (truthy q)) (data mask))]).

Definition run (c : json) : json :=
  match jfield_of jstr "fn" c with
  | None => jerror "no fn"
  | Some fn =>
      if String.eqb fn "filter_mask" then
        match run_filter_mask c with Some r => r | None => jerror "cannot decode a filter_mask case" end
      else jerror ("unknown fn: " ++ fn)
  end.

(* Model/Functools.v — Python call binding and the keyword/positional wrappers of        *)
(* lcm/functools.py (allow_only_kwargs, allow_args, convert_kwargs_to_args), modelled      *)
(* mechanistically: same intermediate values, same checks in the same order, errors as     *)
(* values.  Hand-written; tied to the code by the correspondence family `wrappers`.        *)
From LCM Require Import Base.Prelude.
Local Open Scope string_scope.

Inductive kind := PosOnly | PosOrKw | KwOnly.
Definition kind_eqb (a b : kind) : bool :=
  match a, b with PosOnly, PosOnly | PosOrKw, PosOrKw | KwOnly, KwOnly => true | _, _ => false end.

Inductive perr := TypeError | ValueError.
Inductive pres (A : Type) := POk (a : A) | PErr (e : perr).
Arguments POk {A}. Arguments PErr {A}.

Section Call.
Variable V : Type.

Definition sig := list (string * kind).
Definition names (s : sig) : list string := map fst s.
Definition kwargs := list (string * V).          (* keys distinct, in call order *)
Definition binding := list (string * V).         (* parameter name -> value, signature order *)

Fixpoint remove_key (k : string) (l : kwargs) : kwargs :=
  match l with
  | [] => []
  | (k', v) :: r => if String.eqb k k' then r else (k', v) :: remove_key k r
  end.

(* Python's argument binding for a signature without defaults/varargs:
   positionals fill PosOnly / PosOrKw parameters in order; every keyword must name a
   not-yet-filled PosOrKw / KwOnly parameter; nothing may be missing or left over. *)
Fixpoint bind (s : sig) (args : list V) (kw : kwargs) : pres binding :=
  match s with
  | [] => match args, kw with [], [] => POk [] | _, _ => PErr TypeError end
  | (p, k) :: rest =>
      match k, args with
      | PosOnly, a :: args' =>
          match bind rest args' kw with POk b => POk ((p, a) :: b) | PErr e => PErr e end
      | PosOrKw, a :: args' =>
          if mem_str p (map fst kw) then PErr TypeError          (* multiple values *)
          else match bind rest args' kw with POk b => POk ((p, a) :: b) | PErr e => PErr e end
      | PosOnly, [] => PErr TypeError
      | KwOnly, _ :: _ => PErr TypeError                         (* too many positionals *)
      | _, [] =>
          match assoc p kw with
          | Some v => match bind rest [] (remove_key p kw) with
                      | POk b => POk ((p, v) :: b) | PErr e => PErr e end
          | None => PErr TypeError
          end
      end
  end.

(* sorted(kwargs.items(), key=lambda kw: parameters.index(kw[0])): stable insertion sort;
   ValueError (from list.index) if a key is not in parameters *)
Fixpoint insert_by (idx : string -> nat) (x : string * V) (l : list (string * V)) :=
  match l with
  | [] => [x]
  | y :: r => if Nat.leb (idx (fst y)) (idx (fst x)) then y :: insert_by idx x r else x :: y :: r
  end.
Definition sort_by (idx : string -> nat) (l : list (string * V)) : list (string * V) :=
  fold_left (fun acc x => insert_by idx x acc) l [].

Definition pos_in (parameters : list string) (k : string) : nat :=
  match index_of k parameters with Some i => i | None => 0 end.

Definition subset (a b : list string) : bool := forallb (fun x => mem_str x b) a.

Definition convert_kwargs_to_args (kw : kwargs) (parameters : list string) : pres (list V) :=
  if subset (map fst kw) parameters
  then POk (map snd (sort_by (pos_in parameters) kw))
  else PErr ValueError.

Definition lookup_all (ks : list string) (kw : kwargs) : kwargs :=
  flat_map (fun k => match assoc k kw with Some v => [(k, v)] | None => [] end) ks.

(* allow_only_kwargs(func) called with args and kwargs; [f] is the wrapped callable *)
Definition allow_only_kwargs (s : sig) (f : list V -> kwargs -> pres binding)
           (args : list V) (kw : kwargs) : pres binding :=
  let parameters := names s in
  let kw_only_parameters := map fst (filter (fun p => kind_eqb (snd p) KwOnly) s) in
  match args with
  | _ :: _ => PErr ValueError
  | [] =>
      if negb (subset (map fst kw) parameters) then PErr ValueError        (* extra *)
      else if negb (subset parameters (map fst kw)) then PErr ValueError   (* missing *)
      else
        let kw_only_kwargs := lookup_all kw_only_parameters kw in
        let pos_kwargs := filter (fun kv => negb (mem_str (fst kv) kw_only_parameters)) kw in
        match convert_kwargs_to_args pos_kwargs parameters with
        | POk positional => f positional kw_only_kwargs
        | PErr e => PErr e
        end
  end.

Fixpoint zip_strict {A B} (l1 : list A) (l2 : list B) : pres (list (A * B)) :=
  match l1, l2 with
  | [], [] => POk []
  | x :: r1, y :: r2 => match zip_strict r1 r2 with POk l => POk ((x, y) :: l) | PErr e => PErr e end
  | _, _ => PErr ValueError
  end.

(* set(kwargs) == set(expected_kwargs) *)
Definition same_set (a b : list string) : bool := subset a b && subset b a.

(* allow_args(func) called with args and kwargs *)
Definition allow_args (s : sig) (f : list V -> kwargs -> pres binding)
           (args : list V) (kw : kwargs) : pres binding :=
  let parameters := names s in
  let n_positional_only := length (filter (fun p => kind_eqb (snd p) PosOnly) s) in
  if negb (Nat.eqb (length args + length kw) (length parameters)) then PErr ValueError
  else if negb (same_set (map fst kw) (skipn (length args) parameters)) then PErr ValueError
  else
    match convert_kwargs_to_args kw parameters with
    | PErr e => PErr e
    | POk conv =>
        let positional := (args ++ conv)%list in
        let positional_only := firstn n_positional_only positional in
        let kwargs_names := skipn n_positional_only parameters in
        match zip_strict kwargs_names (skipn n_positional_only positional) with
        | POk kw' => f positional_only kw'
        | PErr e => PErr e
        end
    end.

End Call.

Arguments bind {V}. Arguments allow_only_kwargs {V}. Arguments allow_args {V}.
Arguments convert_kwargs_to_args {V}. Arguments sort_by {V}. Arguments insert_by {V}.
Arguments remove_key {V}. Arguments lookup_all {V}.

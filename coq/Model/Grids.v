(* Model/Grids.v — hand-written model of lcm.grids._validate_discrete_grid (four       *)
(* collected checks, as in the source) and the independent specification of acceptance.*)
From LCM Require Import Base.Prelude Base.PyVal.
Local Open Scope Q_scope.

(* Python == on the values that can occur as dataclass field values *)
Definition py_eq (a b : pyval) : bool :=
  match py_num a, py_num b with
  | Some x, Some y => f_eq x y
  | _, _ => false
  end.

Fixpoint py_count (v : pyval) (l : list pyval) : nat :=
  match l with [] => 0 | x :: r => (if py_eq x v then 1 else 0) + py_count v r end.

Fixpoint py_list_eq (l1 l2 : list pyval) : bool :=
  match l1, l2 with
  | [], [] => true
  | x :: r1, y :: r2 => py_eq x y && py_list_eq r1 r2
  | _, _ => false
  end.

Definition py_range (n : nat) : list pyval := map (fun i => PInt (Z.of_nat i)) (seq 0 n).

Definition validate_discrete_grid (is_dataclass : bool) (values : list pyval) : bool :=
  if negb is_dataclass then false else
  let e1 := match values with [] => true | _ => false end in
  let e2 := existsb (fun v => negb (py_isinstance_int_float v)) values in
  let e3 := existsb (fun v => Nat.ltb 1 (py_count v values)) values in
  let e4 := negb (py_list_eq values (py_range (length values))) in
  negb (e1 || e2 || e3 || e4).

(* specification, executable: the i-th value is numerically i *)
Fixpoint codes_fromb (k : Z) (values : list pyval) : bool :=
  match values with
  | [] => true
  | v :: r => match py_num v with
              | Some (FFin q) => Qeqb q (inject_Z k) && codes_fromb (k + 1) r
              | _ => false
              end
  end.
Definition spec_accepts_discrete (is_dataclass : bool) (values : list pyval) : bool :=
  is_dataclass && match values with [] => false | _ => true end && codes_fromb 0 values.

(* Model/Panel.v — lcm.simulate._process_simulated_data and _as_data_frame on lists:       *)
(* per-period dictionaries of columns are concatenated period by period, the column          *)
(* "_period" is repeat(arange(n_periods), n_agents) and the index is the product             *)
(* periods x agents.  Hand-written; tied to the code by the simulation runs (C13).           *)
From LCM Require Import Base.Prelude.
Local Open Scope string_scope.
Local Open Scope nat_scope.

Definition column := (string * list Q)%type.
Definition period_result := list column.        (* {"value": ..., **choices, **states} *)

Definition col (d : period_result) (k : string) : list Q :=
  match assoc k d with Some v => v | None => [] end.

Definition process_simulated_data (results : list period_result) : list column :=
  let keys := map fst (hd [] results) in
  let n_initial_states := length (col (hd [] results) "value") in
  (map (fun k => (k, concat (map (fun d => col d k) results))) keys
   ++ [("_period", flat_map (fun t => repeat (Qofnat t) n_initial_states) (seq 0 (length results)))])%list.

(* pd.MultiIndex.from_product([range(n_periods), range(n_initial_states)]) *)
Definition panel_index (n_periods n_initial_states : nat) : list (nat * nat) :=
  flat_map (fun t => map (fun i => (t, i)) (seq 0 n_initial_states)) (seq 0 n_periods).

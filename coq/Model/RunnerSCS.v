(* Model/RunnerSCS.v — a second entry point for the harness, extracted to its own binary (bin/scs_runner) so that a change in   *)
(* lcm.simulate.create_data_scs which the translator refuses leaves the main runner, and with it every other property, alone:  *)
(* the regenerated create_data_scs (Gen/DataSCS.v) on the inputs lcm's own reads off the processed model (variable_info, grids,  *)
(* the signature of the concatenated filter); the filter function itself is evaluated by the Spec.                               *)
From LCM Require Import Base.Prelude Base.Arr Base.Json Model.Dispatchers Model.Decode Model.DecodeVI.
From LCM Require Import Gen.ChoiceAxes Gen.ChoiceSegments Gen.DataSCS Spec.Lang Spec.Bellman.
Local Open Scope string_scope.

Definition run_data_scs (c : json) : option json :=
  do m <- jfield_of jmodel "model" c ;; do p <- jfield_of jparams "params" c ;;
  do t <- jfield_of jnat "period" c ;;
  do sig <- jfield_of (jlist_of jstr) "sig" c ;;
  do vi <- jfield_of (jlist_of jvarinfo) "variable_info" c ;;
  do grids <- jfield_of (jlist_of (jpair2 jstr (jlist_of jq))) "grids" c ;;
  do states <- jfield_of (jlist_of (jpair2 jstr (jlist_of jq))) "states" c ;;
  let scalar_filter := fun args : list qarr =>
        scalar (Qofbool (forallb (holds m p (combine sig (map (fun a => qget a []) args))) (filters m))) in
  match create_data_scs sig scalar_filter states vi grids t with
  | None => Some (JObj [("err", JStr "ValueError")])
  | Some ds =>
      Some (JObj [("sparse_names", of_list JStr (map fst (ds_sparse_vars ds)));
                  ("sparse_vars", of_list (of_list of_q) (map snd (ds_sparse_vars ds)));
                  ("dense_names", of_list JStr (map fst (ds_dense_vars ds)));
                  ("dense_vars", of_list (of_list of_q) (map snd (ds_dense_vars ds)));
                  ("segment_ids", match ds_choice_segments ds with Some sg => of_list of_nat (fst sg) | None => JNull end);
                  ("num_segments", match ds_choice_segments ds with Some sg => of_nat (snd sg) | None => JNull end)])
  end.

Definition run (c : json) : json :=
  match jfield_of jstr "fn" c with
  | None => jerror "no fn"
  | Some fn =>
      if String.eqb fn "data_scs" then
        match run_data_scs c with Some r => r | None => jerror "cannot decode a data_scs case" end
      else jerror ("unknown fn: " ++ fn)
  end.

(* Model/RunnerVI.v — a fourth entry point for the harness, extracted to its own binary (bin/vinfo_runner): the regenerated       *)
(* get_variable_info (Gen/VariableInfo.v) on the declarations of a model and on what dags reports (stochastic transitions,         *)
(* auxiliary variables, ancestors of the filters).                                                                                 *)
From LCM Require Import Base.Prelude Base.Json Model.DecodeVI Gen.ChoiceAxes Gen.VariableInfo.
Local Open Scope string_scope.

Definition of_row (r : varinfo) : json :=
  JList [JStr (vname r); JList (map JBool [is_state r; is_choice r; is_continuous r; is_discrete r; is_stochastic r; is_auxiliary r; is_sparse r; is_dense r])].

Definition run_variable_info (c : json) : option json :=
  do states <- jfield_of (jlist_of (jpair2 jstr jbool)) "states" c ;;
  do choices <- jfield_of (jlist_of (jpair2 jstr jbool)) "choices" c ;;
  do stoch <- jfield_of (jlist_of jstr) "stochastic_next" c ;;
  do aux <- jfield_of (jlist_of jstr) "auxiliary_variables" c ;;
  do filtered <- jfield_of (jlist_of jstr) "filtered_variables" c ;;
  match get_variable_info (fun name => mem_str name stoch) aux filtered states choices with
  | None => Some (JObj [("err", JStr "ValueError")])
  | Some vi => Some (JObj [("rows", of_list of_row vi)])
  end.

Definition run (c : json) : json :=
  match jfield_of jstr "fn" c with
  | None => jerror "no fn"
  | Some fn =>
      if String.eqb fn "variable_info" then
        match run_variable_info c with Some r => r | None => jerror "cannot decode a variable_info case" end
      else jerror ("unknown fn: " ++ fn)
  end.

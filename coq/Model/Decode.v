(* Model/Decode.v — decoding whole models and parameters from the harness's JSON, and the   *)
(* end-to-end entry points of the runner (specification side).                               *)
From LCM Require Import Base.Prelude Base.Arr Base.Json Spec.Lang Spec.Bellman Spec.Layout Model.ParamsTemplate Model.UserModel.
Local Open Scope string_scope.

Fixpoint jexpr (fuel : nat) (j : json) : option expr :=
  match fuel with
  | O => None
  | S fuel' =>
      let r := jexpr fuel' in
      match j with
      | JList [JStr op; a] =>
          if String.eqb op "c" then do q <- jq a ;; Some (EConst q)
          else if String.eqb op "v" then do s <- jstr a ;; Some (EVar s)
          else if String.eqb op "neg" then do x <- r a ;; Some (ENeg x)
          else if String.eqb op "not" then do x <- r a ;; Some (ENot x)
          else None
      | JList [JStr op; a; b] =>
          do x <- r a ;; do y <- r b ;;
          if String.eqb op "+" then Some (EAdd x y) else if String.eqb op "-" then Some (ESub x y)
          else if String.eqb op "*" then Some (EMul x y) else if String.eqb op "<" then Some (ELt x y)
          else if String.eqb op "<=" then Some (ELe x y) else if String.eqb op "==" then Some (EEq x y)
          else if String.eqb op "and" then Some (EAnd x y) else if String.eqb op "or" then Some (EOr x y)
          else if String.eqb op "min" then Some (EMin x y) else if String.eqb op "max" then Some (EMax x y)
          else None
      | JList [JStr op; a; b; c] =>
          do x <- r a ;; do y <- r b ;; do z <- r c ;;
          if String.eqb op "where" then Some (EWhere x y z)
          else if String.eqb op "clip" then Some (EClip x y z) else None
      | _ => None
      end
  end.

Definition jgrid (j : json) : option grid :=
  match jfield "d" j with
  | Some n => do k <- jnat n ;; Some (GDisc k)
  | None =>
      match jfield "lin" j with
      | Some (JList [a; b; n]) => do x <- jq a ;; do y <- jq b ;; do k <- jnat n ;; Some (GLin x y k)
      | _ => None
      end
  end.

Definition jnamed {A} (f : json -> option A) (j : json) : option (string * A) :=
  match j with JList [JStr s; x] => do a <- f x ;; Some (s, a) | _ => None end.

Definition jufun (j : json) : option ufun :=
  do n <- jfield_of jstr "name" j ;; do args <- jfield_of (jlist_of jstr) "args" j ;;
  do b <- jfield_of (jexpr 200) "body" j ;; do s <- jfield_of jbool "stochastic" j ;;
  Some (mkUfun n args b s).

Definition jmodel (j : json) : option model :=
  do t <- jfield_of jnat "n_periods" j ;;
  do st <- jfield_of (jlist_of (jnamed jgrid)) "states" j ;;
  do ch <- jfield_of (jlist_of (jnamed jgrid)) "choices" j ;;
  do fs <- jfield_of (jlist_of jufun) "functions" j ;;
  Some (mkModel t st ch fs).

Definition jparams (j : json) : option params :=
  do b <- jfield_of jq "beta" j ;;
  do fp <- jfield_of (jlist_of (jnamed (jlist_of (jnamed jq)))) "fpar" j ;;
  do sh <- jfield_of (jlist_of (jnamed (jarr jq))) "shocks" j ;;
  Some (mkParams b fp sh).

(* ---- solve: per period, the value array in the documented layout --------------------- *)
Definition run_solve_spec (c : json) : option json :=
  do m <- jfield_of jmodel "model" c ;; do p <- jfield_of jparams "params" c ;;
  Some (of_list (of_arr of_val) (solve_layout m p)).

(* ---- row oracle: judge reported (state, choice) rows of a simulation ------------------- *)
Definition on_grid (g : grid) (v : Q) : bool := existsb (fun x => Qeqb x v) (grid_points g).

Definition grid_index (g : grid) (v : Q) : option nat :=
  find_index Qeqb v (grid_points g).

Definition run_row (m : model) (p : params) (tabs : list (arr val)) (targets : list string)
           (row : json) : option json :=
  do t <- jfield_of jnat "t" row ;;
  do st <- jfield_of (jlist_of (jnamed jq)) "states" row ;;
  do ch <- jfield_of (jlist_of (jnamed jq)) "choices" row ;;
  let last := Nat.eqb (S t) (n_periods m) in
  let vnext := fun i => get VUndef (nth (S t) tabs (scalar VUndef)) i in
  let sigma := map (fun sg => (fst sg, look st (fst sg))) (states m) in
  let gamma := map (fun sg => (fst sg, look ch (fst sg))) (choices m) in
  let e := (sigma ++ gamma ++ [(period_name, Qofnat t)])%list in
  let nxt := map (fun sg =>
                    JList [JStr (fst sg);
                           if is_stochastic m (fst sg) then JNull
                           else match next_det m p e (fst sg) with Some v => of_q v | None => JStr "undefined" end])
                 (states m) in
  let rows := map (fun sg => JList [JStr (fst sg);
                                    match weight_row m p e (fst sg) with
                                    | Some r => of_list of_q r | None => JStr "undefined" end])
                  (stoch_states m) in
  let loc := match omap (fun sg => match grid_index (snd sg) (look st (fst sg)) with
                                     | Some i => Some (fst sg, i) | None => None end) (states m) with
             | Some ie => match locate m p t ie with Some l => of_list of_nat l | None => JNull end
             | None => JNull
             end in
  let tg := map (fun n => JList [JStr n; match eval_fun (depth m) m p e n with
                                         | Some v => of_q v | None => JStr "undefined" end]) targets in
  Some (JObj [("loc", loc); ("targets", JList tg); ("feasible", JBool (feasible m p e));
              ("on_grid", JBool (forallb (fun sg => on_grid (snd sg) (look ch (fst sg))) (choices m)));
              ("U", of_val (vred (objective m p last vnext e)));
              ("Vmax", of_val (vred (value_at m p t last vnext sigma)));
              ("next", JList nxt); ("rows", JList rows)]).

Definition run_rows (c : json) : option json :=
  do m <- jfield_of jmodel "model" c ;; do p <- jfield_of jparams "params" c ;;
  do rows <- jfield_of jlist "rows" c ;;
  let tabs := solve_spec m p in
  let targets := match jfield_of (jlist_of jstr) "targets" c with Some l => l | None => [] end in
  do out <- omap (run_row m p tabs targets) rows ;;
  Some (JList out).

(* ---- the state-choice space of a period according to the specification (C17) --------------- *)
Definition of_z (z : Z) : json := JInt z.
Definition run_state_space (c : json) : option json :=
  do m <- jfield_of jmodel "model" c ;; do p <- jfield_of jparams "params" c ;;
  do t <- jfield_of jnat "period" c ;;
  let vars := (restricted_states m ++ restricted_choices m)%list in
  let combos := stored_combinations m p t in
  Some (JObj [("sparse_names", of_list JStr (map fst vars));
              ("sparse_vars", of_list (fun sg => of_list (fun ie => of_q (grid_point (snd sg) (ilook ie (fst sg)))) combos) vars);
              ("state_indexer", of_arr of_z (spec_indexer m p t));
              ("segment_ids", of_list of_z (spec_segments m p t));
              ("num_segments", of_nat (length (remaining_states m p t)));
              (* canonical order of the unrestricted variables stored as full grids: discrete states,
                 discrete choices, continuous states (continuous choices are handled by the solver) *)
              ("dense_names", of_list JStr (map fst (free_discrete_states m)
                                            ++ map fst (filter (fun sg => negb (is_restricted m (fst sg)) && negb (is_cont (snd sg))) (choices m))
                                            ++ map fst (free_continuous_states m))%list)]).

(* ---- the parameter template (C07) -------------------------------------------------------------- *)
Definition run_template (c : json) : option json :=
  do m <- jfield_of jmodel "model" c ;;
  Some (JObj [("keys", of_list JStr (template_keys m));
              ("entries", JObj (map (fun f => (fname f, of_list JStr (function_params m f))) (functions m)));
              ("shocks", JObj (map (fun sg => (fst sg, match shock_shape m (fst sg) with
                                                        | Some sh => of_list of_nat sh | None => JNull end))
                                   (stoch_states m)))]).

(* ---- which state is stored where (C10: comparing solutions of rewritten models) ------------ *)
Definition run_layout_map (c : json) : option json :=
  do m <- jfield_of jmodel "model" c ;; do p <- jfield_of jparams "params" c ;;
  Some (of_list (fun t =>
          JObj [("shape", of_list of_nat (expected_shape m p t));
                ("states", of_list (fun idx =>
                     of_list (fun sg => JList [JStr (fst sg); of_nat (ilook (state_at m p t idx) (fst sg))]) (states m))
                   (indices (expected_shape m p t)))])
        (seq 0 (n_periods m))).

(* ---- validation of raw specifications (C12) ---------------------------------------------------- *)
Definition jrkey (j : json) : option rkey :=
  match j with JStr s => Some (KStr s) | _ => Some KOther end.
Definition jrdict (j : json) : option rdict :=
  match j with
  | JNull => Some None
  | _ => do l <- jlist_of (fun e => match e with JList [k; v] => do k' <- jrkey k ;; do v' <- jbool v ;; Some (k', v') | _ => None end) j ;;
         Some (Some l)
  end.
Definition run_validate_model (c : json) : option json :=
  do n <- jfield_of jint "n_periods" c ;;
  do f <- jfield_of jrdict "functions" c ;; do ch <- jfield_of jrdict "choices" c ;;
  do st <- jfield_of jrdict "states" c ;;
  Some (JBool (validate_model (mkRaw n f ch st))).
Definition run_creation_checks (c : json) : option json :=
  do m <- jfield_of jmodel "model" c ;; Some (JBool (creation_checks m)).

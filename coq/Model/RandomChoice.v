(* Model/RandomChoice.v — jax.random.choice(key, a=labels, p=probs) as used by               *)
(* lcm.random_choice: inverse CDF on the cumulative sums with r = total * (1 - u), u the      *)
(* uniform draw of the key; and the key discipline of lcm.simulate (split tree).              *)
(* Hand-written from jax/_src/random.py (choice, replace=True, p given); tied by the family   *)
(* `choice_replay` (same key: uniform drawn by the harness, label drawn by lcm).              *)
From LCM Require Import Base.Prelude.
Local Open Scope Q_scope.

Fixpoint cumsum (acc : Q) (l : list Q) : list Q :=
  match l with [] => [] | x :: r => (acc + x) :: cumsum (acc + x) r end.

(* jnp.searchsorted(a, v, side='left'): first index i with v <= a[i]; len(a) if none *)
Fixpoint searchsorted_left (a : list Q) (v : Q) : nat :=
  match a with [] => O | x :: t => if Qleb v x then O else S (searchsorted_left t v) end.

Definition choice (p : list Q) (u : Q) : nat :=
  let c := cumsum 0 p in
  searchsorted_left c (last c 0 * (1 - u)).

(* ---- keys: paths in the split tree ------------------------------------------------------ *)
Definition key := list nat.
Definition split (k : key) (n : nat) : list key := map (fun i => (k ++ [i])%list) (seq 0 n).

(* lcm.simulate._generate_simulation_keys: keys = split(key, n_ids + 1); carry keys[0];
   stochastic variable j gets keys[1 + j]; random_choice splits that per agent *)
Definition period_keys (k : key) (n_ids : nat) : key * list key :=
  let ks := split k (S n_ids) in (hd [] ks, tl ks).

Fixpoint sim_keys (k : key) (n_ids n_periods : nat) : list (list key) :=
  match n_periods with
  | O => []
  | S t => let (k', ids) := period_keys k n_ids in ids :: sim_keys k' n_ids t
  end.

(* the key that draws agent i's value of stochastic variable j in period t *)
Definition draw_key (k0 : key) (n_ids t j i : nat) : key :=
  (nth j (nth t (sim_keys k0 n_ids (S t)) []) [] ++ [i])%list.

(* Model/StateSpace.v — lcm/state_space.py: create_combination_grid (meshgrid 'ij' + boolean   *)
(* selection in row-major order) and create_indexers_and_segments (any over the choice axes,    *)
(* ranks by cumulative count, fill value -1, segment ids by repeat).  Hand-written,              *)
(* mechanistic; tied to the code by the families `indexers_and_segments` / `combination_grid`.   *)
From LCM Require Import Base.Prelude Base.Arr Base.ArrOps.
Local Open Scope nat_scope.

(* numpy boolean-mask selection x[mask] on the flattened leading axes: positions of True entries
   in row-major order *)
Definition true_positions (mask : arr bool) : list (list nat) :=
  filter (fun idx => get false mask idx) (indices (shape mask)).

(* create_combination_grid: one list per variable (axis), entries at the True positions *)
Definition combination_grid (grids : list (list Q)) (mask : arr bool) : list (list Q) :=
  map (fun ag => map (fun idx => nth (nth (fst ag) idx 0) (snd ag) 0%Q) (true_positions mask))
      (combine (seq 0 (length grids)) grids).

Definition count_true (l : list bool) : nat := length (filter (fun b => b) l).

(* create_indexers_and_segments(mask, n_sparse_states) *)
Record indexer_result := mkIdx {
  state_indexer : arr Z;
  segment_ids_r : list nat;
  num_segments_r : nat }.

Definition state_shape_of (mask : arr bool) (n_sparse_states : nat) : list nat :=
  firstn n_sparse_states (shape mask).
Definition choice_shape_of (mask : arr bool) (n_sparse_states : nat) : list nat :=
  skipn n_sparse_states (shape mask).

(* mask.any(axis=choice_axes), row-major over the state axes *)
Definition is_feasible_state (mask : arr bool) (n : nat) : list bool :=
  map (fun si => existsb (fun ci => get false mask (si ++ ci)) (indices (choice_shape_of mask n)))
      (indices (state_shape_of mask n)).

(* state_indexer = full(fill); state_indexer[is_feasible_state] = arange(n_feasible_states) *)
Fixpoint ranks (feas : list bool) (next : nat) : list Z :=
  match feas with
  | [] => []
  | true :: r => Z.of_nat next :: ranks r (S next)
  | false :: r => (-1)%Z :: ranks r next
  end.

(* n_choices = count_nonzero(reduced_mask, choice axes), per feasible state, in order *)
Definition n_choices (mask : arr bool) (n : nat) : list nat :=
  map (fun si => count_true (map (fun ci => get false mask (si ++ ci)) (indices (choice_shape_of mask n))))
      (filter (fun si => existsb (fun ci => get false mask (si ++ ci)) (indices (choice_shape_of mask n)))
              (indices (state_shape_of mask n))).

(* np.repeat(np.arange(k), counts) *)
Fixpoint repeat_each (start : nat) (counts : list nat) : list nat :=
  match counts with
  | [] => []
  | c :: r => repeat start c ++ repeat_each (S start) r
  end.

Definition create_indexers_and_segments (mask : arr bool) (n_sparse_states : nat) : indexer_result :=
  let feas := is_feasible_state mask n_sparse_states in
  let n_feasible_states := count_true feas in
  mkIdx (mkArr (state_shape_of mask n_sparse_states) (ranks feas 0))
        (repeat_each 0 (n_choices mask n_sparse_states))
        n_feasible_states.

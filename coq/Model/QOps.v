(* Model/QOps.v — L0 meaning of the few array operations model_functions.py uses on the arrays of    *)
(* node values and node weights: elementwise product of equally shaped arrays, total sum, product of  *)
(* a list of scalars (jnp.prod(jnp.array(args))).                                                     *)
From LCM Require Import Base.Prelude Base.Arr Base.ArrOps Model.Dispatchers.
Local Open Scope Q_scope.

Definition qsum_all (a : qarr) : Q := fold_right Qplus 0 (data a).
Definition qmul_arr (a b : qarr) : qarr := amap2 Qmult a b.
Definition qprod_list (l : list Q) : Q := fold_right Qmult 1 l.
Definition qprod_scalars (args : list qarr) : qarr := scalar (qprod_list (map (fun a => qget a []) args)).

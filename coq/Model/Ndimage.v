(* Model/Ndimage.v — lcm.ndimage.map_coordinates for one coordinate tuple,        *)
(* following the source: per-axis (index, weight) pairs from the translated       *)
(* kernel, itertools.product over them, weighted contributions, sum.              *)
From LCM Require Import Base.Prelude Base.Arr Base.QKernel Gen.NdimageKernel.
Local Open Scope Q_scope.

(* itertools.product of the lists: last factor varies fastest *)
Fixpoint product {A} (ls : list (list A)) : list (list A) :=
  match ls with
  | [] => [[]]
  | l :: r => flat_map (fun x => map (cons x) (product r)) l
  end.

Fixpoint zip {A B} (l1 : list A) (l2 : list B) : list (A * B) :=
  match l1, l2 with
  | x :: r1, y :: r2 => (x, y) :: zip r1 r2
  | _, _ => []
  end.

(* an (integral, non-negative) index computed in Q used as an array position *)
Definition to_index (q : Q) : nat := Z.to_nat (Qfloor q).

Definition map_coordinates (input : arr Q) (coordinates : list Q) : Q :=
  let interpolation_data :=
    map (fun cs => compute_indices_and_weights (fst cs) (Z.of_nat (snd cs)))
        (zip coordinates (shape input)) in
  let interpolation_values :=
    map (fun indices_and_weights =>
           let indices := map fst indices_and_weights in
           let weights := map snd indices_and_weights in
           let contribution := get 0 input (map to_index indices) in
           multiply_all weights * contribution)
        (product interpolation_data) in
  sum_all interpolation_values.

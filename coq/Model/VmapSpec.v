(* Model/VmapSpec.v — L0 vocabulary for the in_axes lists that dispatchers.py builds:                 *)
(* `[None] * n` is repeat None n, `spec[pos] = 0` is set_axis, and jax.vmap(f, in_axes=spec) maps f      *)
(* over the leading axis of exactly the arguments whose entry is 0 (Model/Dispatchers.vmap).             *)
From LCM Require Import Base.Prelude Base.Arr Model.Dispatchers.
Local Open Scope nat_scope.

Definition in_axes := list (option nat).
Definition no_axes (n : nat) : in_axes := repeat None n.
Fixpoint set_axis (spec : in_axes) (pos : nat) : in_axes :=
  match spec, pos with
  | [], _ => []
  | _ :: r, O => Some 0 :: r
  | x :: r, S p => x :: set_axis r p
  end.
Fixpoint mapped_from (k : nat) (spec : in_axes) : list nat :=
  match spec with
  | [] => []
  | Some _ :: r => k :: mapped_from (S k) r
  | None :: r => mapped_from (S k) r
  end.
Definition mapped_of (spec : in_axes) : list nat := mapped_from 0 spec.

Definition jax_vmap (f : list qarr -> qarr) (spec : in_axes) : list qarr -> qarr := vmap f (mapped_of spec).

(* parameters.index(name) *)
Definition index_in (parameters : list string) (name : string) : nat :=
  match index_of name parameters with Some i => i | None => 0 end.

(* Model/Dispatchers.v — lcm/dispatchers.py on the L0 meaning of jax.vmap.                *)
(* Hand-written, mechanistic: _base_productmap is the fold of single-argument vmaps over   *)
(* the REVERSED positions, vmap_1d one vmap with in_axes 0 at all listed positions,        *)
(* spacemap their composition in the order selected by put_dense_first.  Tied to the code  *)
(* by the correspondence families `productmap`, `vmap_1d`, `spacemap`.                     *)
From LCM Require Import Base.Prelude Base.Arr.
Local Open Scope nat_scope.

Notation qarr := (arr Q).
Definition qget (a : qarr) (idx : list nat) : Q := get 0%Q a idx.
Definition dflt_arr : qarr := scalar 0%Q.
Definition qslice (a : qarr) (i : nat) : qarr := slice 0%Q a i.
Definition lead (a : qarr) : nat := hd 0 (shape a).

Fixpoint upd (l : list qarr) (pos : nat) (v : qarr) : list qarr :=
  match l, pos with
  | [], _ => []
  | _ :: r, O => v :: r
  | x :: r, S p => x :: upd r p v
  end.

(* the arguments with every position in [mapped] replaced by its i-th slice *)
Definition slice_at (args : list qarr) (mapped : list nat) (i : nat) : list qarr :=
  fold_left (fun acc p => upd acc p (qslice (nth p args dflt_arr) i)) mapped args.

(* jax.vmap(f, in_axes) with in_axes[p] = 0 for p in [mapped] and None elsewhere, for a
   function returning one array: stack f over the common leading axis of the mapped arguments *)
Definition vmap (f : list qarr -> qarr) (mapped : list nat) (args : list qarr) : qarr :=
  let n := lead (nth (hd 0 mapped) args dflt_arr) in
  let sh := shape (f (slice_at args mapped 0)) in
  mkArr (n :: sh) (flat_map (fun i => data (f (slice_at args mapped i))) (seq 0 n)).

(* _base_productmap(func, product_axes): positions in the signature; one vmap per axis,
   applied in reversed order so that the first listed axis ends up outermost *)
Definition base_productmap (f : list qarr -> qarr) (positions : list nat) : list qarr -> qarr :=
  fold_left (fun vmapped pos => vmap vmapped [pos]) (rev positions) f.

Definition vmap_1d (f : list qarr -> qarr) (positions : list nat) : list qarr -> qarr :=
  vmap f positions.

Definition spacemap (f : list qarr -> qarr) (dense sparse : list nat) (put_dense_first : bool)
  : list qarr -> qarr :=
  match sparse with
  | [] => base_productmap f dense
  | _ => if put_dense_first then base_productmap (vmap_1d f sparse) dense
         else vmap_1d (base_productmap f dense) sparse
  end.

(* ---- named level: functions with a signature, called by keyword --------------------- *)
Record func := mkFunc { params : list string; fn : list qarr -> qarr }.

Definition lookup (kw : list (string * qarr)) (p : string) : qarr :=
  match assoc p kw with Some a => a | None => dflt_arr end.
Definition call (f : func) (kw : list (string * qarr)) : qarr := fn f (map (lookup kw) (params f)).
Definition pos_of (f : func) (v : string) : nat :=
  match index_of v (params f) with Some i => i | None => 0 end.

Definition productmap (f : func) (variables : list string) (kw : list (string * qarr)) : qarr :=
  base_productmap (fn f) (map (pos_of f) variables) (map (lookup kw) (params f)).
Definition vmap_1d_named (f : func) (variables : list string) (kw : list (string * qarr)) : qarr :=
  vmap_1d (fn f) (map (pos_of f) variables) (map (lookup kw) (params f)).
Definition spacemap_named (f : func) (dense sparse : list string) (put_dense_first : bool)
           (kw : list (string * qarr)) : qarr :=
  spacemap (fn f) (map (pos_of f) dense) (map (pos_of f) sparse) put_dense_first
           (map (lookup kw) (params f)).

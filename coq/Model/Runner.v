(* Model/Runner.v — one entry point for the harness: a case (json) in, the model's *)
(* result (json) out.  Decoding of the case happens here, in Gallina, so the OCaml  *)
(* driver only converts text to the [json] datatype and back.                       *)
From LCM Require Import Base.Prelude Base.Arr Base.ArrOps Base.PyVal Base.Json Base.QKernel.
From LCM Require Import Gen.GridHelpersQ Gen.NdimageKernel Gen.GridValidate Gen.DiscreteNoShocks Gen.Argmax.
From LCM Require Import Spec.Interp Spec.GridRules Model.Ndimage Model.Grids Model.Functools Model.Dispatchers Model.Decode Model.RandomChoice Model.StateSpace Model.FunctionRepresentation.
Local Open Scope string_scope.

Definition jpyval (j : json) : option pyval :=
  do t <- jfield_of jstr "t" j ;;
  if String.eqb t "int" then do z <- jfield_of jint "v" j ;; Some (PInt z)
  else if String.eqb t "bool" then do b <- jfield_of jbool "v" j ;; Some (PBool b)
  else if String.eqb t "float" then
    do v <- jfield "v" j ;;
    match v with
    | JStr s => if String.eqb s "inf" then Some (PFloat FPInf)
                else if String.eqb s "-inf" then Some (PFloat FNInf)
                else Some (PFloat FNaN)
    | _ => do q <- jq v ;; Some (PFloat (FFin q))
    end
  else if String.eqb t "str" then Some PStr
  else if String.eqb t "none" then Some PNone
  else if String.eqb t "other" then Some POther
  else Some POther.

Definition of_outcome (r : res bool) : json :=
  match r with
  | ROk true => JStr "accept"
  | ROk false => JStr "reject"
  | RTypeError => JStr "typeerror"
  end.

Definition jkind (j : json) : option kind :=
  do t <- jstr j ;;
  if String.eqb t "po" then Some PosOnly else if String.eqb t "pk" then Some PosOrKw
  else if String.eqb t "ko" then Some KwOnly else None.
Definition jpair {A B} (fa : json -> option A) (fb : json -> option B) (j : json) : option (A * B) :=
  match j with JList [x; y] => do a <- fa x ;; do b <- fb y ;; Some (a, b) | _ => None end.
Definition of_pres (r : pres (list (string * Z))) : json :=
  match r with
  | POk b => JObj [("ok", of_list (fun kv => JList [JStr (fst kv); JInt (snd kv)]) b)]
  | PErr TypeError => JObj [("err", JStr "TypeError")]
  | PErr ValueError => JObj [("err", JStr "ValueError")]
  end.

(* test functions for the dispatchers: c0 + sum_j c_j x_j + cp * prod_j x_j, elementwise, scalars
   broadcast against the (common) shape of the non-scalar arguments *)
Definition poly_fn (coeffs : list Q) (args : list qarr) : qarr :=
  let sh := match filter (fun a => match shape a with [] => false | _ => true end) args with
            | a :: _ => shape a | [] => [] end in
  let bval (a : qarr) (idx : list nat) : Q :=
    match shape a with [] => qget a [] | _ => qget a idx end in
  tabulate sh (fun idx =>
    let xs := map (fun a => bval a idx) args in
    let c0 := hd 0%Q coeffs in
    let cp := last coeffs 0%Q in
    let lin := fold_right Qplus 0%Q (zip_with Qmult (tl coeffs) xs) in
    Qred (c0 + lin + cp * fold_right Qmult 1%Q xs)%Q).

Definition has_dup (l : list string) : bool :=
  negb (Nat.eqb (length (nodup string_dec l)) (length l)).

Definition run_kernel (fn : string) (c : json) : option json :=
  if String.eqb fn "lin_coord" then
    do v <- jfield_of jq "value" c ;; do a <- jfield_of jq "start" c ;;
    do b <- jfield_of jq "stop" c ;; do n <- jfield_of jint "n" c ;;
    Some (of_q (get_linspace_coordinate v a b n))
  else if String.eqb fn "indices_weights" then
    do x <- jfield_of jq "coordinate" c ;; do n <- jfield_of jint "size" c ;;
    Some (of_list (fun p => JList [of_q (fst p); of_q (snd p)]) (compute_indices_and_weights x n))
  else if String.eqb fn "validate_continuous" then
    do a <- jfield_of jpyval "start" c ;; do b <- jfield_of jpyval "stop" c ;;
    do n <- jfield_of jpyval "n_points" c ;; do p <- jfield_of jbool "positive_start" c ;;
    Some (of_outcome (validate_continuous_grid a b n p))
  else if String.eqb fn "map_coordinates" then
    do a <- jfield_of (jarr jq) "input" c ;; do cs <- jfield_of (jlist_of jq) "coordinates" c ;;
    Some (JObj [("model", of_q (map_coordinates a cs));
                ("spec", of_q (interp (get 0%Q a) (shape a) cs))])
  else if String.eqb fn "validate_discrete" then
    do dc <- jfield_of jbool "is_dataclass" c ;; do vs <- jfield_of (jlist_of jpyval) "values" c ;;
    Some (JObj [("model", JBool (validate_discrete_grid dc vs));
                ("spec", JBool (spec_accepts_discrete dc vs))])
  else if String.eqb fn "argmax" then
    do a <- jfield_of (jarr jval) "a" c ;;
    let axis := match jfield "axis" c with Some j => jlist_of jnat j | None => None end in
    let initial := match jfield "initial" c with Some j => jval j | None => None end in
    let where_ := match jfield "where" c with Some j => jarr jbool j | None => None end in
    let r := argmax a axis initial where_ in
    Some (JObj [("argmax", of_arr of_nat (fst r)); ("max", of_arr of_val (snd r))])
  else if String.eqb fn "segment_argmax" then
    do a <- jfield_of (jarr jval) "data" c ;;
    do ids <- jfield_of (jlist_of jnat) "segment_ids" c ;;
    do n <- jfield_of jnat "num_segments" c ;;
    let r := segment_argmax a ids n in
    Some (JObj [("argmax", of_arr of_nat (fst r)); ("max", of_arr of_val (snd r))])
  else if String.eqb fn "discrete_no_shocks" then
    do a <- jfield_of (jarr jval) "values" c ;;
    let axes := match jfield "axes" c with Some JNull => None | Some j => jlist_of jnat j | None => None end in
    let seg := match jfield "segment_ids" c, jfield_of jnat "num_segments" c with
               | Some j, Some n => match jlist_of jnat j with Some ids => Some (mkSeg ids n) | None => None end
               | _, _ => None end in
    Some (of_arr of_val (solve_discrete_problem_no_shocks a axes seg tt))
  else if String.eqb fn "wrapper" then
    do s <- jfield_of (jlist_of (jpair jstr jkind)) "sig" c ;;
    do w <- jfield_of jstr "wrapper" c ;;
    do args <- jfield_of (jlist_of jint) "args" c ;;
    do kw <- jfield_of (jlist_of (jpair jstr jint)) "kwargs" c ;;
    if String.eqb w "allow_only_kwargs" then Some (of_pres (allow_only_kwargs s (bind s) args kw))
    else if String.eqb w "allow_args" then Some (of_pres (allow_args s (bind s) args kw))
    else if String.eqb w "direct" then Some (of_pres (bind s args kw))
    else None
  else if String.eqb fn "dispatch" then
    do which <- jfield_of jstr "which" c ;;
    do ps <- jfield_of (jlist_of jstr) "params" c ;;
    do coeffs <- jfield_of (jlist_of jq) "coeffs" c ;;
    do vars <- jfield_of (jlist_of jstr) "variables" c ;;
    do kw <- jfield_of (jlist_of (jpair jstr (jarr jq))) "kwargs" c ;;
    let f := mkFunc ps (poly_fn coeffs) in
    if String.eqb which "productmap" then
      if has_dup vars then Some (JObj [("err", JStr "ValueError")])
      else Some (of_arr of_q (productmap f vars kw))
    else if String.eqb which "vmap_1d" then
      if has_dup vars then Some (JObj [("err", JStr "ValueError")])
      else Some (of_arr of_q (vmap_1d_named f vars kw))
    else if String.eqb which "spacemap" then
      do sparse <- jfield_of (jlist_of jstr) "sparse" c ;;
      do pdf <- jfield_of jbool "put_dense_first" c ;;
      if has_dup vars || has_dup sparse || existsb (fun v => mem_str v sparse) vars
      then Some (JObj [("err", JStr "ValueError")])
      else Some (of_arr of_q (spacemap_named f vars sparse pdf kw))
    else None
  else if String.eqb fn "solve_spec" then run_solve_spec c
  else if String.eqb fn "rows" then run_rows c
  else if String.eqb fn "choice" then
    do p <- jfield_of (jlist_of jq) "p" c ;; do u <- jfield_of jq "u" c ;;
    Some (of_nat (choice p u))
  else if String.eqb fn "draw_key" then
    do n_ids <- jfield_of jnat "n_ids" c ;; do t <- jfield_of jnat "t" c ;;
    do j <- jfield_of jnat "j" c ;; do i <- jfield_of jnat "i" c ;;
    Some (of_list of_nat (draw_key [] n_ids t j i))
  else if String.eqb fn "state_space" then run_state_space c
  else if String.eqb fn "template" then run_template c
  else if String.eqb fn "validate_model" then run_validate_model c
  else if String.eqb fn "creation_checks" then run_creation_checks c
  else if String.eqb fn "layout_map" then run_layout_map c
  else if String.eqb fn "indexers_and_segments" then
    do mask <- jfield_of (jarr jbool) "mask" c ;; do n <- jfield_of jnat "n_sparse_states" c ;;
    let r := create_indexers_and_segments mask n in
    Some (JObj [("state_indexer", of_arr JInt (state_indexer r));
                ("segment_ids", of_list of_nat (segment_ids_r r));
                ("num_segments", of_nat (num_segments_r r));
                ("combinations", of_list (of_list of_nat) (true_positions mask))])
  else if String.eqb fn "funrep" then
    do vf <- jfield_of (jarr jq) "vf_arr" c ;;
    let ix := match jfield "indexer" c with Some JNull => None | Some j => jarr jint j | None => None end in
    do rl <- jfield_of (jlist_of jint) "restricted_labels" c ;;
    do dl <- jfield_of (jlist_of jint) "dense_labels" c ;;
    do cs <- jfield_of (jlist_of (fun j => match j with
                                           | JList [a; b; n; v] => do a' <- jq a ;; do b' <- jq b ;; do n' <- jnat n ;; do v' <- jq v ;; Some (mkCont a' b' n' v')
                                           | _ => None end)) "conts" c ;;
    Some (of_q (function_representation vf ix rl dl cs))
  else if String.eqb fn "lin_points" then
    do a <- jfield_of jq "start" c ;; do b <- jfield_of jq "stop" c ;; do n <- jfield_of jnat "n" c ;;
    Some (of_list of_q (lin_points a b n))
  else None.

Definition run (c : json) : json :=
  match jfield_of jstr "fn" c with
  | None => jerror "no fn"
  | Some fn =>
      match run_kernel fn c with
      | Some r => r
      | None => jerror ("cannot decode or unknown fn: " ++ fn)
      end
  end.

(* Model/DecodeVI.v — decoders shared by the further runners (RunnerSCS, RunnerFM): variable_info rows and name/array pairs. *)
From LCM Require Import Base.Prelude Base.Json Gen.ChoiceAxes.
Local Open Scope string_scope.

Definition jpair2 {A B} (fa : json -> option A) (fb : json -> option B) (j : json) : option (A * B) :=
  match j with JList [x; y] => do a <- fa x ;; do b <- fb y ;; Some (a, b) | _ => None end.
Definition jvarinfo (j : json) : option varinfo :=
  match j with
  | JList [JStr n; JList [JBool a; JBool b; JBool c; JBool d; JBool e; JBool f; JBool g; JBool h]] => Some (mkVarinfo n a b c d e f g h)
  | _ => None
  end.

(* Model/UserModel.v — lcm/user_model.py: _validate_attribute_types and                        *)
(* _validate_logical_consistency on raw specifications (entries that may be non-dicts,           *)
(* non-string keys, non-grid / non-callable values).  Hand-written, mechanistic (messages are    *)
(* collected, then one ModelInitilizationError is raised); tied by the family `model_validation`. *)
From LCM Require Import Base.Prelude.
Local Open Scope string_scope.

Inductive rkey := KStr (s : string) | KOther.
(* a dict attribute: None = not a dict; values: true = of the required kind (grid / callable) *)
Definition rdict := option (list (rkey * bool)).

Record raw_model := mkRaw {
  r_n_periods : Z;
  r_functions : rdict;
  r_choices : rdict;
  r_states : rdict }.

Definition dict_errors (d : rdict) : nat :=
  match d with
  | None => 1
  | Some l => fold_right (fun (kv : rkey * bool) (acc : nat) =>
                ((match fst kv with KStr _ => 0 | KOther => 1 end) + (if snd kv then 0 else 1) + acc)%nat) 0%nat l
  end.

Definition type_errors (m : raw_model) : nat :=
  (dict_errors (r_choices m) + dict_errors (r_states m) + dict_errors (r_functions m))%nat.

Definition keys_of (d : rdict) : list string :=
  match d with
  | None => []
  | Some l => flat_map (fun kv => match fst kv with KStr s => [s] | KOther => [] end) l
  end.

Definition logical_errors (m : raw_model) : nat :=
  let fnames := keys_of (r_functions m) in
  let states := keys_of (r_states m) in
  let choices := keys_of (r_choices m) in
  ((if (r_n_periods m <? 1)%Z then 1 else 0)
   + (if mem_str "utility" fnames then 0 else 1)
   + (if existsb (fun s => negb (mem_str ("next_" ++ s) fnames)) states then 1 else 0)
   + (if existsb (fun s => mem_str s choices) states then 1 else 0))%nat.

(* Model(...).__post_init__: true = accepted, false = ModelInitilizationError *)
Definition validate_model (m : raw_model) : bool :=
  if Nat.eqb (type_errors m) 0 then Nat.eqb (logical_errors m) 0 else false.

(* Model/DispatchersG.v — the vmap / product-map model of Model/Dispatchers.v for functions whose       *)
(* OUTPUT is an array of any element type (e.g. values with -inf): the same definitions, the output       *)
(* element type generalised; at element type Q they are the definitions of Model/Dispatchers.v             *)
(* (vmapG_is_vmap, base_productmapG_is_base_productmap by reflexivity), which the correspondence family    *)
(* `productmap` ties to the code.                                                                          *)
From LCM Require Import Base.Prelude Base.Arr Model.Dispatchers.
Local Open Scope nat_scope.

Definition vmapG {A} (f : list qarr -> arr A) (mapped : list nat) (args : list qarr) : arr A :=
  let n := lead (nth (hd 0 mapped) args dflt_arr) in
  let sh := shape (f (slice_at args mapped 0)) in
  mkArr (n :: sh) (flat_map (fun i => data (f (slice_at args mapped i))) (seq 0 n)).

Definition base_productmapG {A} (f : list qarr -> arr A) (positions : list nat) : list qarr -> arr A :=
  fold_left (fun vmapped pos => vmapG vmapped [pos]) (rev positions) f.

Lemma vmapG_is_vmap f mapped args : vmapG (A:=Q) f mapped args = vmap f mapped args.
Proof. reflexivity. Qed.
Lemma base_productmapG_is_base_productmap f ps : base_productmapG (A:=Q) f ps = base_productmap f ps.
Proof. reflexivity. Qed.

(* Spec/Layout.v — the documented axis layout of lcm's value arrays, stated without        *)
(* reference to the implementation: which variables are filter-restricted, which            *)
(* restricted-state combinations remain in a period's space, and where the value of a state  *)
(* is stored.                                                                                *)
From LCM Require Import Base.Prelude Base.Arr Spec.Lang Spec.Bellman.
Local Open Scope nat_scope.

(* names reachable from a function through its arguments (dags.get_ancestors) *)
Fixpoint ancestors (fuel : nat) (m : model) (name : string) : list string :=
  match fuel with
  | O => []
  | S fuel' =>
      match find_fun m name with
      | None => []
      | Some f => flat_map (fun a => a :: match find_fun m a with
                                          | Some _ => ancestors fuel' m a
                                          | None => [] end) (fargs f)
      end
  end.

Definition restricted_names (m : model) : list string :=
  flat_map (fun f => ancestors (depth m) m (fname f)) (filters m).
Definition is_restricted (m : model) (x : string) : bool := mem_str x (restricted_names m).

Definition restricted_states (m : model) := filter (fun sg => is_restricted m (fst sg)) (states m).
Definition restricted_choices (m : model) := filter (fun sg => is_restricted m (fst sg)) (choices m).
Definition free_discrete_states (m : model) :=
  filter (fun sg => negb (is_restricted m (fst sg)) && negb (is_cont (snd sg))) (states m).
Definition free_continuous_states (m : model) :=
  filter (fun sg => negb (is_restricted m (fst sg)) && is_cont (snd sg)) (states m).

(* index-level assignments: first variable varies slowest (row-major) *)
Definition ienv := list (string * nat).
Fixpoint iassignments (vars : list (string * grid)) : list ienv :=
  match vars with
  | [] => [[]]
  | (x, g) :: r => flat_map (fun i => map (cons (x, i)) (iassignments r)) (seq 0 (grid_size g))
  end.

Definition ilook (e : ienv) (x : string) : nat := match assoc x e with Some i => i | None => 0 end.

Definition env_of (vars : list (string * grid)) (ie : ienv) : env :=
  map (fun sg => (fst sg, grid_point (snd sg) (ilook ie (fst sg)))) vars.

(* all filters hold for a combination of restricted states and choices in period t *)
Definition passes (m : model) (p : params) (t : nat) (e : env) : bool :=
  forallb (holds m p (e ++ [(period_name, Qofnat t)])%list) (filters m).

(* restricted-state combinations with at least one filter-passing restricted-choice combination *)
Definition remaining_states (m : model) (p : params) (t : nat) : list ienv :=
  filter (fun ss =>
            existsb (fun sc => passes m p t (env_of (restricted_states m) ss ++
                                             env_of (restricted_choices m) sc)%list)
                    (iassignments (restricted_choices m)))
         (iassignments (restricted_states m)).

Definition has_restricted_states (m : model) : bool :=
  match restricted_states m with [] => false | _ => true end.

Definition expected_shape (m : model) (p : params) (t : nat) : list nat :=
  ((if has_restricted_states m then [length (remaining_states m p t)] else [])
   ++ map (fun sg => grid_size (snd sg)) (free_discrete_states m)
   ++ map (fun sg => grid_size (snd sg)) (free_continuous_states m))%list.

(* the state (one grid index per state, by name) stored at a position of the value array *)
Definition state_at (m : model) (p : params) (t : nat) (idx : list nat) : ienv :=
  let free := (map fst (free_discrete_states m) ++ map fst (free_continuous_states m))%list in
  if has_restricted_states m then
    match idx with
    | r :: rest => (nth r (remaining_states m p t) [] ++ combine free rest)%list
    | [] => []
    end
  else combine free idx.

(* inverse direction: where the value of a state (one grid index per state) is stored *)
Fixpoint find_index {A} (eqb : A -> A -> bool) (x : A) (l : list A) : option nat :=
  match l with
  | [] => None
  | y :: r => if eqb x y then Some O else match find_index eqb x r with Some i => Some (S i) | None => None end
  end.
Definition ienv_eqb (names : list string) (a b : ienv) : bool :=
  forallb (fun n => Nat.eqb (ilook a n) (ilook b n)) names.

Definition locate (m : model) (p : params) (t : nat) (ie : ienv) : option (list nat) :=
  let free := (map fst (free_discrete_states m) ++ map fst (free_continuous_states m))%list in
  let rest := map (ilook ie) free in
  if has_restricted_states m then
    match find_index (ienv_eqb (map fst (restricted_states m))) ie (remaining_states m p t) with
    | Some r => Some (r :: rest)
    | None => None
    end
  else Some rest.

(* the value array of period t in the documented layout, from the table indexed in declaration order *)
Definition to_layout (m : model) (p : params) (t : nat) (tab : arr val) : arr val :=
  tabulate (expected_shape m p t) (fun idx =>
    let ie := state_at m p t idx in
    get VUndef tab (map (fun sg => ilook ie (fst sg)) (states m))).

Definition solve_layout (m : model) (p : params) : list (arr val) :=
  map (fun tt => to_layout m p (fst tt) (snd tt)) (combine (seq 0 (n_periods m)) (solve_spec m p)).

(* ---- the state-choice space of a period, stated independently of lcm's array code (C17) ---- *)
(* stored combinations of the restricted variables: canonical order = restricted states, then
   restricted choices, each in declaration order; row-major; exactly those passing all filters *)
Definition stored_combinations (m : model) (p : params) (t : nat) : list ienv :=
  filter (fun ie => passes m p t (env_of (restricted_states m ++ restricted_choices m) ie))
         (iassignments (restricted_states m ++ restricted_choices m)).

Definition state_part (m : model) (ie : ienv) : ienv :=
  map (fun sg => (fst sg, ilook ie (fst sg))) (restricted_states m).

Definition rank_of (m : model) (p : params) (t : nat) (ss : ienv) : Z :=
  match find_index (ienv_eqb (map fst (restricted_states m))) ss (remaining_states m p t) with
  | Some r => Z.of_nat r
  | None => (-1)%Z
  end.

(* the state indexer: rank among the remaining restricted states, -1 for the others *)
Definition spec_indexer (m : model) (p : params) (t : nat) : arr Z :=
  mkArr (map (fun sg => grid_size (snd sg)) (restricted_states m))
        (map (rank_of m p t) (iassignments (restricted_states m))).

(* the choice segments: the rank of the state part of every stored combination *)
Definition spec_segments (m : model) (p : params) (t : nat) : list Z :=
  map (fun ie => rank_of m p t (state_part m ie)) (stored_combinations m p t).

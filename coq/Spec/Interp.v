(* Spec/Interp.v — multilinear interpolation, by recursion on the axes.          *)
(* Independent of the translated kernels: shares no definition with Gen/.        *)
From LCM Require Import Base.Prelude.
Local Open Scope Q_scope.

(* the cell a coordinate falls into on an axis of n >= 2 nodes: lower node index
   clipped to [0, n-2] (so the boundary cells extend linearly outside the range),
   and the weight of the upper node *)
Definition cell_lo (c : Q) (n : nat) : nat :=
  Z.to_nat (Zclip (Qfloor c) 0 (Z.of_nat n - 2)).
Definition cell_w (c : Q) (n : nat) : Q := c - inject_Z (Z.of_nat (cell_lo c n)).

(* interp f shape coords: blend along the first axis of the two sub-interpolants *)
Fixpoint interp (f : list nat -> Q) (sh : list nat) (cs : list Q) : Q :=
  match sh, cs with
  | n :: sh', c :: cs' =>
      (1 - cell_w c n) * interp (fun idx => f (cell_lo c n :: idx)) sh' cs'
      + cell_w c n * interp (fun idx => f (S (cell_lo c n) :: idx)) sh' cs'
  | _, _ => f []
  end.

(* the i-th point of a linear grid and the coordinate of a value on it *)
Definition lin_point (a b : Q) (n : nat) (i : Q) : Q :=
  a + i * ((b - a) / (Qofnat n - 1)).
Definition spec_lin_coord (a b : Q) (n : nat) (v : Q) : Q :=
  (v - a) * (Qofnat n - 1) / (b - a).

(* Spec/GridRules.v — when a continuous grid specification is acceptable, and      *)
(* what it materialises as.  Independent of the translated validator.               *)
From LCM Require Import Base.Prelude Base.PyVal Spec.Interp.
Local Open Scope Q_scope.

Definition float_max_Q : Q := inject_Z float_max_Z.

(* a Python number that is finite and inside the float range *)
Definition spec_finite (v : pyval) : option Q :=
  match py_num v with
  | Some (FFin q) => if Qleb (- float_max_Q) q && Qleb q float_max_Q then Some q else None
  | _ => None
  end.

Definition spec_int (v : pyval) : option Z :=
  match v with PInt z => Some z | PBool b => Some (if b then 1 else 0)%Z | _ => None end.

Definition spec_accepts (start stop n_points : pyval) (positive_start : bool) : bool :=
  match spec_finite start, spec_finite stop, spec_int n_points with
  | Some a, Some b, Some k =>
      Qltb a b && (1 <=? k)%Z && (negb positive_start || Qltb 0 a)
  | _, _, _ => false
  end.

(* jnp.linspace(a, b, n) in exact arithmetic *)
Definition lin_points (a b : Q) (n : nat) : list Q :=
  map (fun i => lin_point a b n (Qofnat i)) (seq 0 n).

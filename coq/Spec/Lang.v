(* Spec/Lang.v — the language in which whole models are exchanged between the harness,   *)
(* the implementation and the specification: expressions, user functions, grids, models, *)
(* parameters; evaluation of the function DAG by name.                                    *)
From LCM Require Import Base.Prelude Base.Arr.
Local Open Scope Q_scope.

Inductive expr :=
| EConst (q : Q)
| EVar (x : string)
| EAdd (a b : expr) | ESub (a b : expr) | EMul (a b : expr) | ENeg (a : expr)
| ELt (a b : expr) | ELe (a b : expr) | EEq (a b : expr)
| EAnd (a b : expr) | EOr (a b : expr) | ENot (a : expr)
| EWhere (c a b : expr)
| EClip (x lo hi : expr)
| EMin (a b : expr) | EMax (a b : expr).

Definition env := list (string * Q).
Definition look (e : env) (x : string) : Q := match assoc x e with Some v => v | None => 0 end.

Fixpoint eval_expr (e : env) (x : expr) : Q :=
  match x with
  | EConst q => q
  | EVar v => look e v
  | EAdd a b => eval_expr e a + eval_expr e b
  | ESub a b => eval_expr e a - eval_expr e b
  | EMul a b => eval_expr e a * eval_expr e b
  | ENeg a => - eval_expr e a
  | ELt a b => Qofbool (Qltb (eval_expr e a) (eval_expr e b))
  | ELe a b => Qofbool (Qleb (eval_expr e a) (eval_expr e b))
  | EEq a b => Qofbool (Qeqb (eval_expr e a) (eval_expr e b))
  | EAnd a b => Qofbool (truthy (eval_expr e a) && truthy (eval_expr e b))
  | EOr a b => Qofbool (truthy (eval_expr e a) || truthy (eval_expr e b))
  | ENot a => Qofbool (negb (truthy (eval_expr e a)))
  | EWhere c a b => if truthy (eval_expr e c) then eval_expr e a else eval_expr e b
  | EClip x lo hi => Qclip (eval_expr e x) (eval_expr e lo) (eval_expr e hi)
  | EMin a b => Qmin (eval_expr e a) (eval_expr e b)
  | EMax a b => Qmax (eval_expr e a) (eval_expr e b)
  end.

Record ufun := mkUfun { fname : string; fargs : list string; fbody : expr; fstoch : bool }.

Inductive grid := GDisc (n : nat) | GLin (a b : Q) (n : nat).

Definition grid_size (g : grid) : nat := match g with GDisc n => n | GLin _ _ n => n end.
Definition is_cont (g : grid) : bool := match g with GDisc _ => false | GLin _ _ _ => true end.

(* the i-th point of a grid; linear grids as jnp.linspace in exact arithmetic *)
Definition grid_point (g : grid) (i : nat) : Q :=
  match g with
  | GDisc _ => Qofnat i
  | GLin a b n => Qred (a + Qofnat i * ((b - a) / (Qofnat n - 1)))
  end.
Definition grid_points (g : grid) : list Q := map (grid_point g) (seq 0 (grid_size g)).

Record model := mkModel {
  n_periods : nat;
  states : list (string * grid);
  choices : list (string * grid);
  functions : list ufun }.

Record params := mkParams {
  beta : Q;
  fpar : list (string * list (string * Q));     (* function name -> parameter name -> value *)
  shocks : list (string * arr Q) }.              (* stochastic state -> transition array *)

Definition find_fun (m : model) (name : string) : option ufun :=
  find (fun f => String.eqb (fname f) name) (functions m).

Definition par (p : params) (fn pn : string) : Q :=
  match assoc fn (fpar p) with
  | Some l => match assoc pn l with Some v => v | None => 0 end
  | None => 0
  end.

(* Evaluation of a model function by name (what dags.concatenate_functions computes): every
   argument is a variable of the environment (states, choices, _period), another model function
   (evaluated recursively) or a parameter of THIS function, read under the function's own name.
   [fuel] bounds the depth of the DAG. *)
Fixpoint eval_fun (fuel : nat) (m : model) (p : params) (e : env) (name : string) : option Q :=
  match fuel with
  | O => None
  | S fuel' =>
      match find_fun m name with
      | None => None
      | Some f =>
          do vals <- omap (fun a =>
                             match assoc a e with
                             | Some v => Some v
                             | None => match find_fun m a with
                                       | Some _ => eval_fun fuel' m p e a
                                       | None => Some (par p (fname f) a)
                                       end
                             end) (fargs f) ;;
          Some (eval_expr (combine (fargs f) vals) (fbody f))
      end
  end.

Definition depth (m : model) : nat := S (length (functions m)).

Definition has_suffix (suf s : string) : bool :=
  let ls := String.length s in let lf := String.length suf in
  Nat.leb lf ls && String.eqb (substring (ls - lf) lf s) suf.
Definition has_prefix (pre s : string) : bool := String.prefix pre s.

Definition is_filter (f : ufun) : bool := has_suffix "_filter" (fname f).
Definition is_constraint (f : ufun) : bool := has_suffix "_constraint" (fname f).
Definition is_next (f : ufun) : bool :=
  has_prefix "next_" (fname f) && negb (is_constraint f) && negb (is_filter f).

Definition period_name : string := "_period".

(* Spec/Bellman.v — what lcm is for: the finite-horizon Bellman recursion on the grid.   *)
(* No axes, positions, sparse/dense, vmaps, indexers or segments: value tables are        *)
(* indexed by one index per state in DECLARATION order, choices are enumerated as the     *)
(* product of their grids.                                                                *)
From LCM Require Import Base.Prelude Base.Arr Spec.Lang Spec.Interp.
Local Open Scope Q_scope.

(* all assignments of a list of (name, candidate values): first variable varies slowest *)
Fixpoint assignments (vars : list (string * list Q)) : list env :=
  match vars with
  | [] => [[]]
  | (x, vals) :: r => flat_map (fun v => map (cons (x, v)) (assignments r)) vals
  end.

Definition var_points (l : list (string * grid)) : list (string * list Q) :=
  map (fun sg => (fst sg, grid_points (snd sg))) l.

Definition filters (m : model) : list ufun := filter is_filter (functions m).
Definition constraints (m : model) : list ufun := filter is_constraint (functions m).

Definition holds (m : model) (p : params) (e : env) (f : ufun) : bool :=
  match eval_fun (depth m) m p e (fname f) with Some v => truthy v | None => false end.

(* a choice is admissible at a state iff every filter and every constraint holds *)
Definition feasible (m : model) (p : params) (e : env) : bool :=
  forallb (holds m p e) (filters m) && forallb (holds m p e) (constraints m).

Definition is_stochastic (m : model) (s : string) : bool :=
  match find_fun m ("next_" ++ s) with Some f => fstoch f | None => false end.

(* ---- reading a value table at arbitrary next states -------------------------------- *)
Definition vblend (w0 : Q) (x : val) (w1 : Q) (y : val) : val :=
  match x, y with
  | VFin a, VFin b => VFin (w0 * a + w1 * b)
  | _, _ => VUndef             (* a non-finite corner makes lcm's weighted sum nan/inf *)
  end.

Definition is_label (v : Q) (n : nat) : option nat :=
  let k := Qfloor v in
  if Qeqb (inject_Z k) v && (0 <=? k)%Z && (k <? Z.of_nat n)%Z then Some (Z.to_nat k) else None.

(* exact in discrete states, multilinear (boundary cells extended linearly) in continuous ones *)
Fixpoint vread (sts : list (string * grid)) (f : list nat -> val) (vals : list Q) : val :=
  match sts, vals with
  | [], [] => f []
  | (_, GDisc n) :: r, v :: vs =>
      match is_label v n with
      | Some k => vread r (fun idx => f (k :: idx)) vs
      | None => VUndef
      end
  | (_, GLin a b n) :: r, v :: vs =>
      let c := spec_lin_coord a b n v in
      let lo := cell_lo c n in
      let w := cell_w c n in
      vblend (1 - w) (vread r (fun idx => f (lo :: idx)) vs) w (vread r (fun idx => f (S lo :: idx)) vs)
  | _, _ => VUndef
  end.

(* ---- the law of motion ---------------------------------------------------------------- *)
Definition stoch_states (m : model) : list (string * grid) :=
  filter (fun sg => is_stochastic m (fst sg)) (states m).

(* the transition row of a stochastic state: shocks[s][labels of the dependencies in signature
   order; the period for _period] *)
Definition weight_row (m : model) (p : params) (e : env) (s : string) : option (list Q) :=
  do f <- find_fun m ("next_" ++ s) ;;
  do a <- assoc s (shocks p) ;;
  do idx <- omap (fun d => let v := look e d in
                           if Qeqb (inject_Z (Qfloor v)) v && (0 <=? Qfloor v)%Z
                           then Some (Z.to_nat (Qfloor v)) else None) (fargs f) ;;
  if in_boundsb (removelast (shape a)) idx
  then Some (map (fun k => get 0 a (idx ++ [k])) (seq 0 (last (shape a) 0%nat)))
  else None.

(* deterministic next value of a state *)
Definition next_det (m : model) (p : params) (e : env) (s : string) : option Q :=
  eval_fun (depth m) m p e ("next_" ++ s).

(* all label tuples of the stochastic states with their joint probability *)
Fixpoint nodes (m : model) (p : params) (e : env) (ss : list (string * grid))
  : option (list (env * Q)) :=
  match ss with
  | [] => Some [([], 1)]
  | (s, g) :: r =>
      do row <- weight_row m p e s ;;
      do rest <- nodes m p e r ;;
      Some (flat_map (fun k => map (fun nw => ((s, Qofnat k) :: fst nw, nth k row 0 * snd nw)) rest)
                     (seq 0 (grid_size g)))
  end.

(* expected next-period value at (state, choice) environment e *)
Definition continuation (m : model) (p : params) (vnext : list nat -> val) (e : env) : val :=
  match nodes m p e (stoch_states m) with
  | None => VUndef
  | Some nds =>
      fold_right (fun nw acc =>
        let '(labels, w) := nw in
        match omap (fun sg => match assoc (fst sg) labels with
                              | Some l => Some l
                              | None => next_det m p e (fst sg) end) (states m) with
        | None => VUndef
        | Some nxt =>
            match vread (states m) vnext nxt, acc with
            | VFin v, VFin a => VFin (a + w * v)
            | _, _ => VUndef
            end
        end) (VFin 0) nds
  end.

(* the objective: utility plus beta times the expected continuation value *)
Definition objective (m : model) (p : params) (last : bool) (vnext : list nat -> val) (e : env) : val :=
  match eval_fun (depth m) m p e "utility" with
  | None => VUndef
  | Some u =>
      if last then VFin u
      else match continuation m p vnext e with
           | VFin c => VFin (u + beta p * c)
           | _ => VUndef
           end
  end.

(* the value of a state: the maximum over all admissible grid choices *)
Definition value_at (m : model) (p : params) (t : nat) (last : bool) (vnext : list nat -> val)
           (sigma : env) : val :=
  vmaxl (map (fun gamma =>
                let e := (sigma ++ gamma ++ [(period_name, Qofnat t)])%list in
                if feasible m p e then objective m p last vnext e else VNegInf)
             (assignments (var_points (choices m)))).

Definition state_shape (m : model) : list nat := map (fun sg => grid_size (snd sg)) (states m).
Definition state_env (m : model) (idx : list nat) : env :=
  map (fun sgi => (fst (fst sgi), grid_point (snd (fst sgi)) (snd sgi))) (combine (states m) idx).

(* the value table of period t given the table of period t+1 *)
Definition value_table (m : model) (p : params) (t : nat) (last : bool) (vnext : arr val) : arr val :=
  tabulate (state_shape m) (fun idx =>
    vred (value_at m p t last (fun i => get VUndef vnext i) (state_env m idx))).

(* backward induction: tables for periods t .. T-1, given k = T - t periods to go *)
Fixpoint solve_from (m : model) (p : params) (t k : nat) : list (arr val) :=
  match k with
  | O => []
  | S O => [value_table m p t true (scalar VUndef)]
  | S k' =>
      let rest := solve_from m p (S t) k' in
      value_table m p t false (hd (scalar VUndef) rest) :: rest
  end.

Definition solve_spec (m : model) (p : params) : list (arr val) := solve_from m p 0 (n_periods m).

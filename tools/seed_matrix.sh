#!/bin/bash
# seed_matrix.sh : apply every confirmed seeded change to /repo in turn, run the check of the property it
# breaks, undo; prints one line per seed.  (Uses /repo itself: do not run other checks meanwhile.)
cd /verif
for d in seeded/*/; do
  s=$(basename $d)
  p=${s%-*}
  if ! git -C /repo apply --check /verif/$d/patch.diff 2>/dev/null; then echo "$s: patch does not apply to the current tree"; continue; fi
  git -C /repo apply /verif/$d/patch.diff
  out=$(./check $p --tier quick 2>&1 | grep -E "^VIOLATION" | head -1)
  git -C /repo checkout -- .
  echo "$s -> $p: ${out:-NO ALARM}"
done

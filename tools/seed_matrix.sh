#!/bin/bash
# seed_matrix.sh : apply every confirmed seeded change to /repo in turn, run the quick check of the property
# it breaks, undo; writes seeded/MATRIX.md.  (Uses /repo itself: do not run other checks meanwhile.)
cd /verif
out=${MATRIX_OUT:-seeded/MATRIX.md}
# evidence and replays written while a patch is applied describe the patched tree: keep the real ones aside
save=$(mktemp -d); cp -a evidence $save/evidence; ls replays > $save/replays.list
{
echo "# Seeded changes vs checks"
echo
echo "Produced by tools/seed_matrix.sh on $(date -u +%Y-%m-%dT%H:%MZ) with VERIF_SEED=${VERIF_SEED:-0}: each patch applied to /repo, \`./check <property> --tier quick\` run, patch undone."
echo
echo "| seeded change | property | what it does | result of the check |"
echo "|---|---|---|---|"
} > $out
for d in seeded/*/; do
  s=$(basename $d)
  p=${s%-*}
  what=$(python3 -c "import json;m=json.load(open('/verif/$d/meta.json'));print(m.get('summary','')[:160].replace('|','/').replace('\n',' '))")
  if ! git -C /repo apply --check /verif/$d/patch.diff 2>/dev/null; then echo "| $s | $p | $what | patch does not apply to the current tree |" >> $out; continue; fi
  git -C /repo apply /verif/$d/patch.diff
  res=$(./check $p --tier quick 2>&1 | grep -E "^VIOLATION" | head -1)
  git -C /repo checkout -- .
  if [ -z "$res" ]; then r="NO ALARM"; else case "$res" in *no-failing-input-found*) r="VIOLATION (no-failing-input-found)";; *) r="VIOLATION with failing input";; esac; fi
  sup=$(python3 -c "import json;m=json.load(open('/verif/$d/meta.json'));print('superseded by a repair' if 'status_on_current_tree' in m else '')")
  echo "| $s | $p | $what | $r ${sup:+($sup)} |" >> $out
  echo "$s -> $p: $r"
done
# restore the evidence of the unchanged tree, drop the replays of the patched runs
rm -rf evidence; cp -a $save/evidence evidence
for f in replays/*; do grep -qx "$(basename $f)" $save/replays.list || rm -f "$f"; done
rm -rf $save

#!/bin/bash
# verify_seed.sh <pid> <k> : confirm a candidate seeded change /tmp/seed/<pid>/patch<k>.diff in a scratch
# worktree (suite unchanged: 3 failed, 318 passed; demo FAILS with the change, PASSES without) and,
# if confirmed, store it under /verif/seeded/<pid>-<k>/.
pid=$1; k=$2; src=/tmp/seed/$pid
wt=/tmp/wt/verify_$pid_$k_$$
git -C /repo worktree add -q --detach $wt HEAD || exit 2
export PYTHONPATH=$wt/src:$wt
cd $wt
res="{}"
git apply $src/patch$k.diff || { echo "patch does not apply"; git -C /repo worktree remove --force $wt; exit 2; }
suite=$(/venv/bin/python -m pytest -q -p no:cacheprovider --timeout=900 -n 6 2>&1 | tail -n 1)
failed=$(/venv/bin/python -m pytest -q -p no:cacheprovider --timeout=900 -n 6 2>&1 | grep ^FAILED | sort | tr '\n' ' ')
/venv/bin/python $src/demo$k.py > /tmp/seed/$pid/demo$k.changed.out 2>&1; rc_changed=$?
git checkout -q -- .
/venv/bin/python $src/demo$k.py > /tmp/seed/$pid/demo$k.clean.out 2>&1; rc_clean=$?
cd /; git -C /repo worktree remove --force $wt
echo "$pid-$k suite='$suite' demo_changed_rc=$rc_changed demo_clean_rc=$rc_clean"
ok=0
case "$suite" in *"3 failed, 318 passed"*) ok=1;; esac
if [ $ok = 1 ] && [ $rc_changed != 0 ] && [ $rc_clean = 0 ]; then
  d=/verif/seeded/$pid-$k; mkdir -p $d
  cp $src/patch$k.diff $d/patch.diff; cp $src/demo$k.py $d/demo.py
  /venv/bin/python - <<PY
import json
m=json.load(open("$src/meta$k.json"))
m.update({"breaks_property":"$pid","confirmed":{"suite_with_change":"$suite","failed_tests_with_change":"$failed".split(),
 "demo_exit_with_change":$rc_changed,"demo_exit_without_change":$rc_clean,
 "how":"scratch git worktree of /repo HEAD under /tmp; git apply patch.diff; pytest -n 6; demo; git checkout; demo; worktree removed"}})
json.dump(m,open("$d/meta.json","w"),indent=1)
PY
  echo "CONFIRMED -> $d"
else
  echo "NOT CONFIRMED $pid-$k"
fi

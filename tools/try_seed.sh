#!/bin/bash
# try_seed.sh <seed dir name> <property...> : apply the seeded patch to /repo, run the checks, undo
d=/verif/seeded/$1; shift
save=$(mktemp -d); cp -a /verif/evidence $save/evidence; ls /verif/replays > $save/replays.list
git -C /repo apply $d/patch.diff || { echo "PATCH DOES NOT APPLY: $d"; exit 2; }
for p in "$@"; do
  out=$(cd /verif && ./check $p --tier quick 2>&1 | grep -E "VIOLATION|KNOWN" | head -2)
  echo "$(basename $d) -> $p: ${out:-no alarm}"
done
git -C /repo checkout -- .
rm -rf /verif/evidence; cp -a $save/evidence /verif/evidence
for f in /verif/replays/*; do grep -qx "$(basename $f)" $save/replays.list || rm -f "$f"; done
rm -rf $save

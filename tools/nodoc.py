import sys, ast
src = open(sys.argv[1]).read()
tree = ast.parse(src)
for node in ast.walk(tree):
    if isinstance(node, (ast.FunctionDef, ast.ClassDef, ast.Module)) and node.body and isinstance(node.body[0], ast.Expr) and isinstance(getattr(node.body[0], 'value', None), ast.Constant) and isinstance(node.body[0].value.value, str):
        node.body = node.body[1:] or [ast.Pass()]
print(ast.unparse(tree))

#!/usr/bin/env python3
"""Writes /verif/MANIFEST.json from tools/claims.json (one entry per claimed property)
and properties.jsonl (every property not claimed goes to not_applicable with the reason
given in claims.json["unclaimed"] or a default)."""
import json
from pathlib import Path

ROOT = Path(__file__).resolve().parent.parent
claims = json.loads((ROOT / "tools" / "claims.json").read_text())
props = [json.loads(l) for l in (ROOT / "properties.jsonl").read_text().splitlines() if l.strip()]

checks = []
for c in claims["checks"]:
    pid = c["property_id"]
    checks.append({
        "property_id": pid,
        "quick_cmd": f"./check {pid} --tier quick",
        "thorough_cmd": f"./check {pid} --tier thorough",
        "evidence_file": f"/verif/evidence/{pid}.json",
        "replay_cmd_template": f"./check {pid} --replay {{path}}",
        "engine": "coq-proof+correspondence",
        "level_claimed": {"category": "proof", "text": c["text"], "design_ref": c.get("design_ref", "DESIGN.md §6")},
        "level_note": c["note"],
        "technique": c["technique"],
    })
claimed = {c["property_id"] for c in claims["checks"]}
na = [{"property_id": p["id"], "reason": claims.get("unclaimed", {}).get(p["id"], "check not built yet in this round; no claim made")}
      for p in props if p["id"] not in claimed]
man = {
    "version": 1,
    "setup_cmd": "./build.sh",
    "hooks": {"guard": "LCM_VERIF", "enable": "no instrumentation of /repo is needed: every observation point is an importable function; checks import lcm from /repo/src with PYTHONPATH",
              "baseline_off_cmd": "cd /repo && /venv/bin/python -m pytest -ra -q -p no:cacheprovider --timeout=900 --continue-on-collection-errors",
              "source_commits": [], "add_only": True},
    "engines": [{"name": "coq-proof+correspondence", "path": "/verif/check",
                 "serves_properties": sorted(claimed),
                 "kind_free_text": "Coq 8.16 theorems about an executable Gallina model (coq/): kernels, control skeleton, Bellman operator, reductions, dispatchers and glue regenerated from the Python source by 21 fail-closed translators (translator/py2coq*.py; incl. get_variable_info, create_filter_mask, create_data_scs, _compute_targets) on every run and composed into end-to-end theorems (what solve returns is the specification's solution; every row of simulate is a feasible maximiser); hand-written model parts tied by differential runs of the extracted OCaml runners (bin/model_runner and three small ones for the regenerated get_variable_info, create_filter_mask, create_data_scs) against lcm (harness/)"}],
    "checks": checks,
    "notes": claims.get("notes", ""),
    "not_applicable": na,
}
(ROOT / "MANIFEST.json").write_text(json.dumps(man, indent=1) + "\n")
print("claimed:", sorted(claimed))

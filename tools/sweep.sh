#!/bin/bash
# sweep.sh <seeds...> : run every quick check on the unchanged tree with the given seeds; report alarms
cd /verif
for seed in "$@"; do
  for i in $(seq -w 1 20); do
    p=C$i
    t0=$(date +%s)
    out=$(VERIF_SEED=$seed ./check $p --tier quick 2>&1); rc=$?
    echo "seed=$seed $p exit=$rc $(( $(date +%s) - t0 ))s $(echo "$out" | grep -E 'VIOLATION|KNOWN' | head -3 | tr '\n' ' ')"
  done
done

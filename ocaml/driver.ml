(* driver.ml — text <-> Model.json conversion around the extracted Runner.run.
   One JSON case per input line, one JSON result per output line.
   Integers are arbitrary-precision decimals, converted with the extracted Z. *)
open Model

(* ---- Z <-> decimal text ---------------------------------------------------- *)
let rec pos_of_int (n : int) : positive =
  if n = 1 then XH else if n land 1 = 0 then XO (pos_of_int (n lsr 1)) else XI (pos_of_int (n lsr 1))
let z_of_int (n : int) : z = if n = 0 then Z0 else if n > 0 then Zpos (pos_of_int n) else Zneg (pos_of_int (-n))
let z10 = z_of_int 10
let z_of_string (s : string) : z =
  let neg = String.length s > 0 && s.[0] = '-' in
  let start = if neg then 1 else 0 in
  let acc = ref Z0 in
  let i = ref start in
  let n = String.length s in
  (* chunks of 15 digits *)
  while !i < n do
    let len = min 15 (n - !i) in
    let chunk = int_of_string (String.sub s !i len) in
    let mult = z_of_int (int_of_float (10. ** float_of_int len)) in
    acc := Z.add (Z.mul !acc mult) (z_of_int chunk);
    i := !i + len
  done;
  if neg then Z.opp !acc else !acc

let rec int_of_pos (p : positive) : int = match p with XH -> 1 | XO q -> 2 * int_of_pos q | XI q -> 2 * int_of_pos q + 1
let int_of_z (x : z) : int = match x with Z0 -> 0 | Zpos p -> int_of_pos p | Zneg p -> - (int_of_pos p)
let zbig = z_of_int 1000000000000000
let string_of_z (x : z) : string =
  let neg = (match x with Zneg _ -> true | _ -> false) in
  let x = if neg then Z.opp x else x in
  let rec go x acc =
    if Z.ltb x zbig then string_of_int (int_of_z x) :: acc
    else let (q, r) = Z.div_eucl x zbig in go q (Printf.sprintf "%015d" (int_of_z r) :: acc) in
  (if neg then "-" else "") ^ String.concat "" (go x [])

(* ---- JSON parser (the subset the harness emits) ----------------------------- *)
exception Parse_error of string
let parse (s : string) : json =
  let n = String.length s in
  let pos = ref 0 in
  let peek () = if !pos < n then s.[!pos] else '\000' in
  let rec ws () = if !pos < n && (s.[!pos] = ' ' || s.[!pos] = '\n' || s.[!pos] = '\t' || s.[!pos] = '\r') then (incr pos; ws ()) in
  let expect c = ws (); if peek () = c then incr pos else raise (Parse_error (Printf.sprintf "expected %c at %d" c !pos)) in
  let parse_string () =
    expect '"';
    let b = Buffer.create 16 in
    while peek () <> '"' do
      if peek () = '\\' then (incr pos; Buffer.add_char b (peek ())) else Buffer.add_char b (peek ());
      incr pos;
      if !pos >= n then raise (Parse_error "unterminated string")
    done;
    incr pos; Buffer.contents b in
  let rec value () : json =
    ws ();
    match peek () with
    | '{' -> incr pos; ws ();
        if peek () = '}' then (incr pos; JObj []) else begin
          let items = ref [] in
          let continue = ref true in
          while !continue do
            ws (); let k = parse_string () in expect ':'; let v = value () in
            items := (k, v) :: !items; ws ();
            if peek () = ',' then incr pos else (expect '}'; continue := false)
          done; JObj (List.rev !items) end
    | '[' -> incr pos; ws ();
        if peek () = ']' then (incr pos; JList []) else begin
          let items = ref [] in
          let continue = ref true in
          while !continue do
            let v = value () in items := v :: !items; ws ();
            if peek () = ',' then incr pos else (expect ']'; continue := false)
          done; JList (List.rev !items) end
    | '"' -> JStr (parse_string ())
    | 't' -> pos := !pos + 4; JBool true
    | 'f' -> pos := !pos + 5; JBool false
    | 'n' -> pos := !pos + 4; JNull
    | _ ->
        let st = !pos in
        while !pos < n && (let c = s.[!pos] in c = '-' || (c >= '0' && c <= '9')) do incr pos done;
        if !pos = st then raise (Parse_error (Printf.sprintf "unexpected char at %d" st));
        JInt (z_of_string (String.sub s st (!pos - st)))
  in value ()

let rec print (b : Buffer.t) (j : json) : unit =
  match j with
  | JNull -> Buffer.add_string b "null"
  | JBool true -> Buffer.add_string b "true"
  | JBool false -> Buffer.add_string b "false"
  | JInt z -> Buffer.add_string b (string_of_z z)
  | JStr s -> Buffer.add_char b '"'; String.iter (fun c -> if c = '"' || c = '\\' then Buffer.add_char b '\\'; if c = '\n' then Buffer.add_string b "\\n" else Buffer.add_char b c) s; Buffer.add_char b '"'
  | JList l -> Buffer.add_char b '['; List.iteri (fun i x -> if i > 0 then Buffer.add_char b ','; print b x) l; Buffer.add_char b ']'
  | JObj l -> Buffer.add_char b '{'; List.iteri (fun i (k, x) -> if i > 0 then Buffer.add_char b ','; print b (JStr k); Buffer.add_char b ':'; print b x) l; Buffer.add_char b '}'

let () =
  try
    while true do
      let line = input_line stdin in
      if String.length line > 0 then begin
        let out = (try run (parse line) with
                   | Parse_error m -> JObj [("error", JStr ("parse: " ^ m))]
                   | Stack_overflow -> JObj [("error", JStr "stack overflow")]
                   | Not_found -> JObj [("error", JStr "not found")]) in
        let b = Buffer.create 1024 in
        print b out; print_endline (Buffer.contents b)
      end
    done
  with End_of_file -> ()
